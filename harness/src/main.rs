#![allow(dead_code, clippy::all)]
mod checks;
mod coord;
mod model;
mod prog;
mod sim;

use coord::{Check, Tier};

fn registry() -> Vec<Check> {
    checks::all()
}

fn usage() -> ! {
    eprintln!("usage: vcheck <Cxx> [--tier quick|thorough] [--replay <file>] | vcheck --worker ... | vcheck --list");
    std::process::exit(2)
}

fn main() {
    let args: Vec<String> = std::env::args().skip(1).collect();
    if args.is_empty() {
        usage();
    }
    let reg = registry();
    if args[0] == "--list" {
        for c in &reg {
            println!("{}", c.id);
        }
        return;
    }
    if args[0] == "--worker" {
        if args.len() != 7 {
            usage();
        }
        let check = reg.iter().find(|c| c.id == args[1]).unwrap_or_else(|| usage());
        let tier = if args[2] == "thorough" { Tier::Thorough } else { Tier::Quick };
        let seed: u64 = args[3].parse().unwrap_or_else(|_| usage());
        let from: u64 = args[5].parse().unwrap_or_else(|_| usage());
        let to: u64 = args[6].parse().unwrap_or_else(|_| usage());
        std::process::exit(coord::worker_main(check, tier, seed, &args[4], from, to));
    }
    if args[0] == "--dump" {
        let text = std::fs::read_to_string(&args[1]).unwrap();
        let v: serde_json::Value = serde_json::from_str(&text).unwrap();
        if !checks::c20::dump(&v["case"]) && !checks::c19::dump_case(&v["case"]) {
            checks::common::dump_case(&v["case"]);
        }
        return;
    }
    if args[0] == "--child" {
        // child-process scenarios used by process-level checks (C12, C14, C20)
        std::process::exit(checks::child_main(&args[1..]));
    }
    let check = match reg.iter().find(|c| c.id == args[0]) {
        Some(c) => c,
        None => {
            eprintln!("unknown check {}", args[0]);
            std::process::exit(2)
        }
    };
    let mut tier = match std::env::var("VERIF_TIER").ok().as_deref() {
        Some("thorough") => Tier::Thorough,
        _ => Tier::Quick,
    };
    let mut replay: Option<String> = None;
    let mut i = 1;
    while i < args.len() {
        match args[i].as_str() {
            "--tier" => {
                i += 1;
                tier = match args.get(i).map(|s| s.as_str()) {
                    Some("thorough") => Tier::Thorough,
                    Some("quick") => Tier::Quick,
                    _ => usage(),
                };
            }
            "--replay" => {
                i += 1;
                replay = args.get(i).cloned();
                if replay.is_none() {
                    usage();
                }
            }
            _ => usage(),
        }
        i += 1;
    }
    let code = match replay {
        Some(p) => coord::replay_main(check, &p),
        None => coord::coordinator_main(check, tier),
    };
    std::process::exit(code);
}
