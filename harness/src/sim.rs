//! Simulator core: seeded PRNG, the controlling scheduler (SimSched), the transparent
//! recorder / scheduler-contract monitor (Recorder), the interpreter event log and the
//! "run one Shuttle run and collect everything" helper.
//!
//! Nothing in here draws randomness from anywhere but `Rng`, reads a clock, or iterates a
//! hash container.

use serde::{Deserialize, Serialize};
use shuttle_engine::scheduler::{Schedule, ScheduleStep, Scheduler, Task, TaskId};
use shuttle_engine::runtime::execution::CurrentSchedule;
use shuttle_engine::scheduler::data::{DataSource, RandomDataSource};
use std::cell::{Cell, RefCell};
use std::sync::{Arc, Mutex};

// ---------------------------------------------------------------------------------------------
// PRNG
// ---------------------------------------------------------------------------------------------

#[derive(Clone, Debug)]
pub struct Rng(pub u64);

pub fn splitmix(x: u64) -> u64 {
    let mut z = x.wrapping_add(0x9E3779B97F4A7C15);
    z = (z ^ (z >> 30)).wrapping_mul(0xBF58476D1CE4E5B9);
    z = (z ^ (z >> 27)).wrapping_mul(0x94D049BB133111EB);
    z ^ (z >> 31)
}

/// Derive an independent seed from (seed, tag, index).
pub fn derive(seed: u64, tag: &str, idx: u64) -> u64 {
    let mut h = splitmix(seed ^ 0xA5A5_5A5A_1234_5678);
    for b in tag.bytes() {
        h = splitmix(h ^ b as u64);
    }
    splitmix(h ^ splitmix(idx))
}

impl Rng {
    pub fn new(seed: u64) -> Self {
        Rng(splitmix(seed ^ 0x1357_9BDF_2468_ACE0))
    }
    pub fn next_u64(&mut self) -> u64 {
        self.0 = self.0.wrapping_add(0x9E3779B97F4A7C15);
        let mut z = self.0;
        z = (z ^ (z >> 30)).wrapping_mul(0xBF58476D1CE4E5B9);
        z = (z ^ (z >> 27)).wrapping_mul(0x94D049BB133111EB);
        z ^ (z >> 31)
    }
    /// Uniform in 0..n (n > 0).
    pub fn below(&mut self, n: usize) -> usize {
        debug_assert!(n > 0);
        // multiply-shift; bias is < 2^-40 for the n used here
        (((self.next_u64() >> 11) as u128 * n as u128) >> 53) as usize
    }
    pub fn range(&mut self, lo: usize, hi_incl: usize) -> usize {
        lo + self.below(hi_incl - lo + 1)
    }
    pub fn chance(&mut self, num: u32, den: u32) -> bool {
        (self.below(den as usize) as u32) < num
    }
    pub fn pick<'a, T>(&mut self, xs: &'a [T]) -> &'a T {
        &xs[self.below(xs.len())]
    }
    pub fn shuffle<T>(&mut self, xs: &mut [T]) {
        for i in (1..xs.len()).rev() {
            let j = self.below(i + 1);
            xs.swap(i, j);
        }
    }
}

pub fn fnv(bytes: &[u8]) -> u64 {
    let mut h: u64 = 0xcbf29ce484222325;
    for b in bytes {
        h ^= *b as u64;
        h = h.wrapping_mul(0x100000001b3);
    }
    h
}

pub fn hash_str(s: &str) -> u64 {
    fnv(s.as_bytes())
}

pub fn hash_debug<T: std::fmt::Debug>(t: &T) -> u64 {
    fnv(format!("{:?}", t).as_bytes())
}

// ---------------------------------------------------------------------------------------------
// Event log written by interpreters (plain std containers; no scheduling points, no draws)
// ---------------------------------------------------------------------------------------------

#[derive(Clone, Debug, PartialEq, Eq, Serialize, Deserialize)]
pub struct Event {
    /// global decision index (number of answered scheduler decisions so far in this execution)
    pub step: u32,
    /// shuttle task id of the logging task (usize::MAX→u32::MAX if there is no current task)
    pub task: u32,
    /// free-form kind, e.g. "S" (start), "E" (end), "Y" (yield request), "D" (dtor)
    pub kind: String,
    /// operation index / label
    pub op: String,
    /// result or payload
    pub val: String,
}

thread_local! {
    static LOG: RefCell<Vec<Event>> = const { RefCell::new(Vec::new()) };
    static DECISION_IDX: Cell<u32> = const { Cell::new(0) };
    static LOG_ENABLED: Cell<bool> = const { Cell::new(true) };
}

pub fn decision_index() -> u32 {
    DECISION_IDX.with(|d| d.get())
}

pub fn current_task_u32() -> u32 {
    match shuttle_engine::runtime::execution::ExecutionState::try_with(|s| s.try_current().map(|t| usize::from(t.id()))) {
        Ok(Some(t)) => t as u32,
        _ => u32::MAX,
    }
}

pub fn log(kind: &str, op: impl Into<String>, val: impl Into<String>) {
    if !LOG_ENABLED.with(|e| e.get()) {
        return;
    }
    let ev = Event {
        step: decision_index(),
        task: current_task_u32(),
        kind: kind.to_string(),
        op: op.into(),
        val: val.into(),
    };
    LOG.with(|l| l.borrow_mut().push(ev));
}

pub fn log_as(task: u32, kind: &str, op: impl Into<String>, val: impl Into<String>) {
    let ev = Event {
        step: decision_index(),
        task,
        kind: kind.to_string(),
        op: op.into(),
        val: val.into(),
    };
    LOG.with(|l| l.borrow_mut().push(ev));
}

pub fn take_log() -> Vec<Event> {
    LOG.with(|l| std::mem::take(&mut *l.borrow_mut()))
}

pub fn log_len() -> usize {
    LOG.with(|l| l.borrow().len())
}

// ---------------------------------------------------------------------------------------------
// Decision trace
// ---------------------------------------------------------------------------------------------

#[derive(Clone, Debug, PartialEq, Eq, Serialize, Deserialize)]
pub struct Decision {
    pub offered: Vec<u32>,
    /// subset of `offered` that was offered while `blocked()` (spuriously wakeable)
    pub blocked: Vec<u32>,
    pub current: Option<u32>,
    pub yielding: bool,
    pub chosen: Option<u32>,
}

#[derive(Clone, Debug, PartialEq, Eq, Serialize, Deserialize)]
pub enum Item {
    D(Decision),
    R(u64),
}

#[derive(Clone, Debug, Default, Serialize, Deserialize)]
pub struct ExecTrace {
    /// seed of the Schedule returned by new_execution
    pub seed: u64,
    pub items: Vec<Item>,
    /// schedule recorded by the runtime for this execution (read at the next new_execution / at the end)
    pub recorded: Option<(u64, Vec<i64>)>,
    pub events: Vec<Event>,
    pub contract: Vec<String>,
    /// set when next_task answered None
    pub stopped: bool,
    pub calls_after_stop: u32,
}

impl ExecTrace {
    pub fn decisions(&self) -> impl Iterator<Item = &Decision> {
        self.items.iter().filter_map(|i| if let Item::D(d) = i { Some(d) } else { None })
    }
    pub fn draws(&self) -> Vec<u64> {
        self.items.iter().filter_map(|i| if let Item::R(d) = i { Some(*d) } else { None }).collect()
    }
    /// Reconstruction of what the runtime should have recorded: one Task step per answered
    /// decision (Some), one Random marker per draw; -1 encodes Random.
    pub fn reconstruct(&self) -> Vec<i64> {
        let mut v = vec![];
        for it in &self.items {
            match it {
                Item::D(d) => {
                    if let Some(c) = d.chosen {
                        v.push(c as i64)
                    }
                }
                Item::R(_) => v.push(-1),
            }
        }
        v
    }
    pub fn chosen_seq(&self) -> Vec<u32> {
        self.decisions().filter_map(|d| d.chosen).collect()
    }
    pub fn hash_decisions(&self) -> u64 {
        hash_debug(&self.items)
    }
    pub fn hash_events(&self) -> u64 {
        hash_debug(&self.events)
    }
    pub fn switches(&self) -> usize {
        let c = self.chosen_seq();
        c.windows(2).filter(|w| w[0] != w[1]).count()
    }
}

pub fn schedule_to_vec(s: &Schedule) -> (u64, Vec<i64>) {
    (
        s.seed,
        s.steps
            .iter()
            .map(|st| match st {
                ScheduleStep::Task(t) => usize::from(*t) as i64,
                ScheduleStep::Random => -1,
            })
            .collect(),
    )
}

pub fn vec_to_schedule(seed: u64, v: &[i64]) -> Schedule {
    let mut s = Schedule::new(seed);
    for x in v {
        if *x < 0 {
            s.push_random()
        } else {
            s.push_task(TaskId::from(*x as usize))
        }
    }
    s
}

#[derive(Clone, Debug, Default)]
pub struct RunTrace {
    pub execs: Vec<ExecTrace>,
    /// number of new_execution calls that returned None
    pub ended: u32,
    pub calls_after_end: u32,
}

pub type Shared = Arc<Mutex<RunTrace>>;

// ---------------------------------------------------------------------------------------------
// Recorder: transparent wrapper + contract monitor
// ---------------------------------------------------------------------------------------------

/// Transparent scheduler wrapper. Records every call and answer, checks the argument shape
/// of every call (oracle C), stamps the event log with the decision index (only the
/// outermost recorder, `primary`, does that and collects the event log).
pub struct Recorder<S: Scheduler> {
    inner: S,
    out: Shared,
    primary: bool,
    last_answer: Option<Option<u32>>, // None = no decision yet in this execution
    max_seen: i64,
}

impl<S: Scheduler> std::fmt::Debug for Recorder<S> {
    fn fmt(&self, f: &mut std::fmt::Formatter<'_>) -> std::fmt::Result {
        f.write_str("Recorder")
    }
}

impl<S: Scheduler> Recorder<S> {
    pub fn new(inner: S, primary: bool) -> (Self, Shared) {
        let out: Shared = Arc::new(Mutex::new(RunTrace::default()));
        (
            Recorder {
                inner,
                out: out.clone(),
                primary,
                last_answer: None,
                max_seen: -1,
            },
            out,
        )
    }

    fn close_current(&mut self, rt: &mut RunTrace) {
        if let Some(last) = rt.execs.last_mut() {
            if last.recorded.is_none() {
                if self.primary {
                    last.recorded = Some(schedule_to_vec(&CurrentSchedule::get_schedule()));
                    last.events = take_log();
                }
            }
        }
    }
}

/// Called after `Runner::run` returned or unwound to close the last execution's record.
pub fn finalize(out: &Shared) {
    let mut rt = out.lock().unwrap_or_else(|e| e.into_inner());
    if let Some(last) = rt.execs.last_mut() {
        if last.recorded.is_none() {
            last.recorded = Some(schedule_to_vec(&CurrentSchedule::get_schedule()));
            last.events = take_log();
        }
    }
}

impl<S: Scheduler> Scheduler for Recorder<S> {
    fn new_execution(&mut self) -> Option<Schedule> {
        let out = self.out.clone();
        {
            let mut rt = out.lock().unwrap_or_else(|e| e.into_inner());
            self.close_current(&mut rt);
            if rt.ended > 0 {
                rt.calls_after_end += 1;
            }
        }
        // not holding the lock: the inner scheduler may panic (e.g. PCT's "no concurrency" assertion)
        let r = self.inner.new_execution();
        let mut rt = out.lock().unwrap_or_else(|e| e.into_inner());
        match &r {
            Some(s) => {
                let mut e = ExecTrace::default();
                e.seed = s.seed;
                if !s.steps.is_empty() {
                    e.contract.push("new_execution returned a non-empty schedule".into());
                }
                rt.execs.push(e);
                self.last_answer = None;
                self.max_seen = -1;
                if self.primary {
                    DECISION_IDX.with(|d| d.set(0));
                    // anything logged between executions does not belong to the new one
                    let stray = take_log();
                    if !stray.is_empty() {
                        if let Some(prev) = rt.execs.iter_mut().rev().nth(1) {
                            prev.events.extend(stray);
                        }
                    }
                }
            }
            None => {
                rt.ended += 1;
            }
        }
        r
    }

    fn next_task(&mut self, runnable: &[&Task], current: Option<TaskId>, is_yielding: bool) -> Option<TaskId> {
        let offered: Vec<u32> = runnable.iter().map(|t| usize::from(t.id()) as u32).collect();
        let blocked: Vec<u32> = runnable
            .iter()
            .filter(|t| t.blocked())
            .map(|t| usize::from(t.id()) as u32)
            .collect();
        let cur = current.map(|c| usize::from(c) as u32);
        let mut problems: Vec<String> = vec![];
        if runnable.is_empty() {
            problems.push("offered list is empty".into());
        }
        if !offered.windows(2).all(|w| w[0] < w[1]) {
            problems.push(format!("offered ids not strictly ascending: {:?}", offered));
        }
        for t in runnable {
            if t.finished() {
                problems.push(format!("finished task {} offered", usize::from(t.id())));
            }
            if !(t.runnable() || t.can_spuriously_wakeup()) {
                problems.push(format!(
                    "task {} offered but neither runnable nor spuriously wakeable",
                    usize::from(t.id())
                ));
            }
        }
        match self.last_answer {
            None => {
                if cur.is_some() {
                    problems.push(format!("current={:?} before the first decision", cur));
                }
            }
            Some(prev) => {
                if prev.is_none() {
                    // we answered None before; the runtime must not consult us again
                } else if cur != prev {
                    problems.push(format!("current={:?} but previous answer was {:?}", cur, prev));
                }
            }
        }
        let out = self.out.clone();
        {
            let mut rt = out.lock().unwrap_or_else(|e| e.into_inner());
            if let Some(e) = rt.execs.last_mut() {
                if e.stopped {
                    e.calls_after_stop += 1;
                }
            }
        }
        let ans = self.inner.next_task(runnable, current, is_yielding);
        let chosen = ans.map(|c| usize::from(c) as u32);
        if let Some(c) = chosen {
            if !offered.contains(&c) {
                // a scheduler bug, not a runtime bug; recorded for completeness
                problems.push(format!("scheduler chose {} which was not offered {:?}", c, offered));
            }
        }
        let mut rt = out.lock().unwrap_or_else(|e| e.into_inner());
        if rt.execs.is_empty() {
            rt.execs.push(ExecTrace::default());
            problems.push("next_task before new_execution".into());
        }
        let e = rt.execs.last_mut().unwrap();
        if !e.stopped {
            e.items.push(Item::D(Decision {
                offered,
                blocked,
                current: cur,
                yielding: is_yielding,
                chosen,
            }));
            e.contract.extend(problems);
            if chosen.is_none() {
                e.stopped = true;
            }
            self.last_answer = Some(chosen);
            if self.primary && chosen.is_some() {
                DECISION_IDX.with(|d| d.set(d.get() + 1));
            }
        }
        ans
    }

    fn next_u64(&mut self) -> u64 {
        let v = self.inner.next_u64();
        let mut rt = self.out.lock().unwrap_or_else(|e| e.into_inner());
        if let Some(e) = rt.execs.last_mut() {
            e.items.push(Item::R(v));
        }
        v
    }
}

// ---------------------------------------------------------------------------------------------
// SimSched: the controlling scheduler
// ---------------------------------------------------------------------------------------------

#[derive(Clone, Debug, PartialEq, Eq, Serialize, Deserialize)]
pub enum Policy {
    /// uniform over the offered list
    Uniform,
    /// stay on the current task with probability num/8 when it is offered
    Sticky(u32),
    /// random priorities per execution, highest offered runs; priority of current re-drawn with prob 1/8
    Prio,
    /// always first / always last offered
    First,
    Last,
    /// prefer tasks with higher ids (starves the main thread)
    RoundRobin,
}

#[derive(Clone, Debug, PartialEq, Serialize, Deserialize)]
pub struct SimCfg {
    pub seed: u64,
    pub policy: Policy,
    /// number of executions to run
    pub execs: u32,
    /// return None at this decision index (fault `sched_stop`), per execution
    pub stop_at: Option<u32>,
    /// scripted choices: index into the offered list per decision (per execution: same script);
    /// after the script ends the policy takes over
    pub script: Vec<u32>,
    /// if false, tasks offered while blocked (spurious wake-up candidates) are never picked
    /// unless nothing else is offered
    pub spurious: bool,
}

impl SimCfg {
    pub fn new(seed: u64) -> Self {
        SimCfg {
            seed,
            policy: Policy::Uniform,
            execs: 1,
            stop_at: None,
            script: vec![],
            spurious: true,
        }
    }
}

#[derive(Debug)]
pub struct SimSched {
    cfg: SimCfg,
    rng: Rng,
    data: RandomDataSource,
    done: u32,
    decisions: u32,
    prio: Vec<u64>,
}

impl SimSched {
    pub fn new(cfg: SimCfg) -> Self {
        let seed = cfg.seed;
        SimSched {
            cfg,
            rng: Rng::new(seed),
            data: RandomDataSource::initialize(seed),
            done: 0,
            decisions: 0,
            prio: vec![],
        }
    }
}

impl Scheduler for SimSched {
    fn new_execution(&mut self) -> Option<Schedule> {
        if self.done >= self.cfg.execs {
            return None;
        }
        self.done += 1;
        self.decisions = 0;
        let seed = self.data.reinitialize();
        self.rng = Rng::new(derive(seed, "simsched", self.done as u64));
        self.prio.clear();
        Some(Schedule::new(seed))
    }

    fn next_task(&mut self, runnable: &[&Task], current: Option<TaskId>, _is_yielding: bool) -> Option<TaskId> {
        let k = self.decisions;
        self.decisions += 1;
        if self.cfg.stop_at == Some(k) {
            return None;
        }
        if let Some(ix) = self.cfg.script.get(k as usize) {
            let ix = (*ix as usize).min(runnable.len() - 1);
            return Some(runnable[ix].id());
        }
        // candidates
        let mut cand: Vec<&&Task> = runnable.iter().filter(|t| self.cfg.spurious || !t.blocked()).collect();
        if cand.is_empty() {
            cand = runnable.iter().collect();
        }
        // spuriously-wakeable tasks are picked less often so that executions make progress
        if self.cfg.spurious && cand.iter().any(|t| !t.blocked()) && !self.rng.chance(1, 4) {
            cand.retain(|t| !t.blocked());
        }
        let pick = match self.cfg.policy {
            Policy::Uniform => cand[self.rng.below(cand.len())].id(),
            Policy::Sticky(p) => {
                if let Some(c) = current {
                    if cand.iter().any(|t| t.id() == c) && self.rng.chance(p, 8) {
                        return Some(c);
                    }
                }
                cand[self.rng.below(cand.len())].id()
            }
            Policy::Prio => {
                let maxid = cand.iter().map(|t| usize::from(t.id())).max().unwrap();
                while self.prio.len() <= maxid {
                    let p = self.rng.next_u64();
                    self.prio.push(p);
                }
                if let Some(c) = current {
                    if self.rng.chance(1, 8) {
                        self.prio[usize::from(c)] = self.rng.next_u64();
                    }
                }
                cand.iter().max_by_key(|t| self.prio[usize::from(t.id())]).unwrap().id()
            }
            Policy::First => cand[0].id(),
            Policy::Last => cand[cand.len() - 1].id(),
            Policy::RoundRobin => {
                let c = current.map(usize::from).unwrap_or(usize::MAX);
                cand.iter()
                    .find(|t| c != usize::MAX && usize::from(t.id()) > c)
                    .unwrap_or(&cand[0])
                    .id()
            }
        };
        Some(pick)
    }

    fn next_u64(&mut self) -> u64 {
        self.data.next_u64()
    }
}

// ---------------------------------------------------------------------------------------------
// Scripted scheduler used by replays and by the enumerator: follows a list of *task ids*
// (not indices); when the script is exhausted picks the first offered task. Data draws come
// from RandomDataSource(seed) like every Shuttle scheduler.
// ---------------------------------------------------------------------------------------------

#[derive(Debug)]
pub struct FollowSched {
    pub seed: u64,
    pub script: Vec<u32>,
    pub pos: usize,
    pub started: bool,
    pub data: RandomDataSource,
    /// what to do after the script ends: true = first offered non-blocked, false = stop (None)
    pub complete: bool,
    /// set when a scripted id was not offered
    pub diverged: Arc<Mutex<Option<String>>>,
}

impl FollowSched {
    pub fn new(seed: u64, script: Vec<u32>, complete: bool) -> Self {
        FollowSched {
            seed,
            script,
            pos: 0,
            started: false,
            data: RandomDataSource::initialize(seed),
            complete,
            diverged: Arc::new(Mutex::new(None)),
        }
    }
}

impl Scheduler for FollowSched {
    fn new_execution(&mut self) -> Option<Schedule> {
        if self.started {
            return None;
        }
        self.started = true;
        Some(Schedule::new(self.data.reinitialize()))
    }
    fn next_task(&mut self, runnable: &[&Task], _c: Option<TaskId>, _y: bool) -> Option<TaskId> {
        if self.pos < self.script.len() {
            let want = self.script[self.pos];
            self.pos += 1;
            if let Some(t) = runnable.iter().find(|t| usize::from(t.id()) as u32 == want) {
                return Some(t.id());
            }
            let mut d = self.diverged.lock().unwrap_or_else(|e| e.into_inner());
            if d.is_none() {
                *d = Some(format!(
                    "scripted task {} not offered at decision {} (offered {:?})",
                    want,
                    self.pos - 1,
                    runnable.iter().map(|t| usize::from(t.id())).collect::<Vec<_>>()
                ));
            }
            return None;
        }
        if self.complete {
            let t = runnable.iter().find(|t| !t.blocked()).unwrap_or(&runnable[0]);
            Some(t.id())
        } else {
            None
        }
    }
    fn next_u64(&mut self) -> u64 {
        self.data.next_u64()
    }
}

// ---------------------------------------------------------------------------------------------
// Running a Shuttle run and collecting the outcome
// ---------------------------------------------------------------------------------------------

#[derive(Clone, Debug, PartialEq, Eq, Serialize, Deserialize)]
pub enum Ending {
    /// Runner::run returned this many iterations
    Returned(usize),
    /// Runner::run unwound with this payload text
    Panicked(String),
}

pub fn payload_to_string(p: &(dyn std::any::Any + Send)) -> String {
    if let Some(s) = p.downcast_ref::<&str>() {
        s.to_string()
    } else if let Some(s) = p.downcast_ref::<String>() {
        s.clone()
    } else {
        "<non-string payload>".to_string()
    }
}

pub fn silence_panics() {
    static ONCE: std::sync::Once = std::sync::Once::new();
    ONCE.call_once(|| {
        if std::env::var("VERIF_DEBUG_PANIC").is_ok() {
            std::panic::set_hook(Box::new(|info| {
                eprintln!("PANIC: {}", info);
            }));
        } else {
            std::panic::set_hook(Box::new(|_| {}));
        }
    });
}

/// Run `body` under `sched` with `config`, everything recorded by a primary Recorder.
///
/// Every Shuttle run is executed on its own, short-lived OS thread: a run that fails while a task
/// is suspended in the middle of unwinding leaves `std::thread::panicking()` true on the thread
/// that called `Runner::run` (known finding F23), and everything that runs on that thread
/// afterwards misbehaves. A fresh thread per run keeps one case from contaminating the next.
pub fn run_recorded<S, F>(sched: S, config: shuttle::Config, body: F) -> (Ending, RunTrace)
where
    S: Scheduler + Send + 'static,
    F: Fn() + Send + Sync + 'static,
{
    silence_panics();
    std::thread::Builder::new()
        .name("vrun".into())
        .spawn(move || run_recorded_here(sched, config, body))
        .expect("spawn run thread")
        .join()
        .expect("run thread panicked outside catch_unwind")
}

/// Same, on the calling thread (the scheduler need not be Send).
pub fn run_recorded_here<S, F>(sched: S, config: shuttle::Config, body: F) -> (Ending, RunTrace)
where
    S: Scheduler + 'static,
    F: Fn() + Send + Sync + 'static,
{
    silence_panics();
    let _ = take_log();
    let (rec, out) = Recorder::new(sched, true);
    let r = std::panic::catch_unwind(std::panic::AssertUnwindSafe(|| {
        let runner = shuttle::Runner::new(rec, config);
        runner.run(body)
    }));
    finalize(&out);
    let ending = match r {
        Ok(n) => Ending::Returned(n),
        Err(p) => Ending::Panicked(payload_to_string(&*p)),
    };
    let rt = out.lock().unwrap_or_else(|e| e.into_inner()).clone();
    if std::thread::panicking() {
        TAINTED_RUNS.fetch_add(1, std::sync::atomic::Ordering::SeqCst);
    }
    (ending, rt)
}

/// number of runs after which the run thread was left with a non-zero panic count (F23)
pub static TAINTED_RUNS: std::sync::atomic::AtomicU64 = std::sync::atomic::AtomicU64::new(0);

pub fn quiet_config() -> shuttle::Config {
    let mut c = shuttle::Config::new();
    c.failure_persistence = shuttle::FailurePersistence::None;
    c.silence_warnings = true;
    c.max_steps = shuttle::MaxSteps::FailAfter(20_000);
    c
}

/// The generic scheduler-contract findings of a run (oracle C), formatted.
pub fn contract_findings(rt: &RunTrace) -> Vec<String> {
    let mut v = vec![];
    for (i, e) in rt.execs.iter().enumerate() {
        for c in &e.contract {
            v.push(format!("exec {}: {}", i, c));
        }
        // every logged event between two decisions belongs to the chosen task
        let chosen: Vec<Option<u32>> = e.decisions().map(|d| d.chosen).collect();
        for ev in &e.events {
            if ev.task == u32::MAX {
                continue;
            }
            if ev.step == 0 {
                v.push(format!("exec {}: event {:?} logged before the first decision", i, ev));
                continue;
            }
            match chosen.get(ev.step as usize - 1) {
                Some(Some(c)) if *c == ev.task => {}
                other => v.push(format!(
                    "exec {}: event {:?} logged in step {} whose chosen task is {:?}",
                    i, ev, ev.step, other
                )),
            }
        }
    }
    if rt.calls_after_end > 0 {
        v.push(format!("new_execution called {} times after it returned None", rt.calls_after_end));
    }
    v
}

/// Compare the event logs of two executions: events logged by tasks must be identical and in the
/// same order; events logged by the teardown of the execution (no current task: destructors of
/// statics, thread-locals and stacks of unfinished tasks) are compared as a multiset, because
/// the runtime drops per-execution / per-task storage of unfinished tasks in hash-map order,
/// which no property statement constrains.
pub fn events_diff(a: &ExecTrace, b: &ExecTrace) -> Option<String> {
    let ta: Vec<_> = a.events.iter().filter(|e| e.task != u32::MAX).collect();
    let tb: Vec<_> = b.events.iter().filter(|e| e.task != u32::MAX).collect();
    if ta != tb {
        let n = ta.iter().zip(tb.iter()).position(|(x, y)| x != y).unwrap_or(ta.len().min(tb.len()));
        return Some(format!("event logs differ at event {}: {:?} vs {:?}", n, ta.get(n), tb.get(n)));
    }
    let mut da: Vec<String> = a.events.iter().filter(|e| e.task == u32::MAX).map(|e| format!("{}{}={}", e.kind, e.op, e.val)).collect();
    let mut db: Vec<String> = b.events.iter().filter(|e| e.task == u32::MAX).map(|e| format!("{}{}={}", e.kind, e.op, e.val)).collect();
    da.sort();
    db.sort();
    if da != db {
        return Some(format!("teardown events differ: {:?} vs {:?}", da, db));
    }
    None
}
