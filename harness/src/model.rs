//! Reference models (API-level state machines written from the std documentation and Shuttle's
//! documented deviations) and the lockstep powerset checker (oracle A of DESIGN.md).
//!
//! The model never looks at Shuttle's data structures. Every DSL operation is a short sequence
//! of *micro-operations*, each with a guard and an effect; a task may execute any number of its
//! enabled micro-operations in one of its steps (so the model is at least as permissive as any
//! placement of scheduling points), except that the completion of an operation must coincide
//! with its logged `E` event and produce the logged result.

use crate::prog::{inner_unique_val, unique_val, Op, Program, STATIC_ONCE_SLOTS};
use crate::sim::{Decision, Event, ExecTrace};
use std::collections::{BTreeMap, BTreeSet, VecDeque};

#[derive(Clone, Debug, PartialEq, Eq, PartialOrd, Ord, Hash)]
pub enum TSt {
    NotSpawned,
    Idle,
    /// inside operation `label`, `micro` micro-ops done, `tries`: number of own steps (capped at
    /// 2) since the operation started in which it did not complete. The runtime may keep a task
    /// runnable for one extra step after a failed attempt (a stale wake flag makes `block_on`
    /// poll once more), so a pending task whose guard is false *may* be offered while tries < 2
    /// and must not be offered afterwards; it *must* be offered whenever its guard is true.
    Pending { micro: u8, tries: u8 },
    Exiting,
    Done,
}

#[derive(Clone, Debug, PartialEq, Eq, PartialOrd, Ord, Hash)]
pub struct MTask {
    pub st: TSt,
    /// index of the current / next operation in the body; >= len means implicit tail
    pub pc: usize,
    /// label of the current operation when Pending (may be an implicit unlock label)
    pub label: String,
    pub handles: Vec<(usize, bool)>, // (body, joined)
    pub token: bool,
    pub parked: bool,
    pub woken: bool,
    pub seen: Vec<u64>,
    pub has_tx: Vec<bool>,
    pub has_rx: Vec<bool>,
    pub parent: Option<usize>,
    /// locks held when the current Catch block began: (mutexes, rw write, rw read)
    pub catch_snap: Option<(Vec<usize>, Vec<usize>, Vec<usize>)>,
    /// name given at spawn (None for scoped threads)
    pub named: bool,
    /// SemCancel: the polled acquisition completed and its permits are about to be released again
    pub holding: bool,
    /// SemTakeAwait: permits of the acquisition taken over
    pub seen_permits: usize,
    /// custom label (inherited from the parent at spawn)
    pub vlabel: Option<u64>,
}

#[derive(Clone, Debug, PartialEq, Eq, PartialOrd, Ord, Hash, Default)]
pub struct MMutex {
    pub owner: Option<usize>,
    pub val: u64,
    pub poisoned: bool,
}

#[derive(Clone, Debug, PartialEq, Eq, PartialOrd, Ord, Hash, Default)]
pub struct MRw {
    pub readers: BTreeSet<usize>,
    pub writer: Option<usize>,
    pub val: u64,
    pub poisoned: bool,
}

#[derive(Clone, Debug, PartialEq, Eq, PartialOrd, Ord, Hash, Default)]
pub struct MBar {
    pub bound: usize,
    pub arrived: Vec<usize>,
    /// task -> is_leader, for tasks released but not yet returned
    pub released: BTreeMap<usize, bool>,
    pub generations: u32,
}

/// Once cell: `phase` 0 = new, 1 = an initialiser is running, 2 = complete (is_completed is
/// true); `lock` = the caller currently inside the cell's critical section (callers that did not
/// find the cell complete on entry pass through it one at a time; the initialising call holds it
/// from winning the race until it returns).
#[derive(Clone, Debug, PartialEq, Eq, PartialOrd, Ord, Hash, Default)]
pub struct MOnce {
    pub phase: u8,
    pub lock: Option<usize>,
}

#[derive(Clone, Debug, PartialEq, Eq, PartialOrd, Ord, Hash, Default)]
pub struct MChan {
    pub cap: Option<usize>,
    pub buf: VecDeque<u64>,
    pub senders: usize,
    pub rx_alive: bool,
    pub send_q: Vec<usize>,
    pub rx_waiting: bool,
}

impl MChan {
    fn room(&self) -> bool {
        match self.cap {
            None => true,
            Some(0) => self.rx_waiting && self.buf.is_empty(),
            Some(k) => self.buf.len() < k,
        }
    }
}

/// engine-level counting semaphore (Appendix A.8): `queue` = waiting acquisitions in arrival
/// order (task, permits), `granted` = acquisitions that were handed their permits (fair mode) but
/// have not observed it yet
#[derive(Clone, Debug, PartialEq, Eq, PartialOrd, Ord, Hash, Default)]
pub struct MSem {
    pub avail: usize,
    pub fair: bool,
    pub closed: bool,
    pub queue: Vec<(usize, usize)>,
    pub granted: Vec<(usize, usize)>,
    /// a parked Acquire (SemStash): (task that created and polled it, permits); its queue entry is
    /// keyed STASH_KEY until another task takes it over
    pub stash: Option<(usize, usize)>,
    /// scratch: set by `micro` before every semaphore operation = "the parked acquisition's owner has finished"
    pub stale_now: bool,
}

/// pseudo task id under which a parked acquisition waits
pub const STASH_KEY: usize = 1000;

impl MSem {
    /// `stale`: the task that polled the parked acquisition last has finished; such a waiter is
    /// discarded when it reaches the head (nobody is awaiting it), the future re-queues when polled
    fn grant_from_front_ex(&mut self, stale: bool) {
        if !self.fair {
            return;
        }
        while let Some((t, n)) = self.queue.first().cloned() {
            if t == STASH_KEY && stale {
                self.queue.remove(0);
                continue;
            }
            if n <= self.avail {
                self.avail -= n;
                self.queue.remove(0);
                self.granted.push((t, n));
            } else {
                break;
            }
        }
    }
    fn grant_from_front(&mut self) {
        let stale = self.stale_now;
        self.grant_from_front_ex(stale);
    }
    fn release(&mut self, k: usize) {
        self.avail += k;
        self.grant_from_front();
    }
    /// first poll of an acquisition by `t`: Some(true) acquired, Some(false) closed, None queued
    fn arrive(&mut self, t: usize, n: usize) -> Option<bool> {
        if self.closed {
            return Some(false);
        }
        if (self.queue.is_empty() || !self.fair) && self.avail >= n {
            self.avail -= n;
            return Some(true);
        }
        self.queue.push((t, n));
        None
    }
    /// later poll: Some(true) acquired, Some(false) closed, None still waiting
    fn repoll(&mut self, t: usize, n: usize) -> Option<bool> {
        if let Some(i) = self.granted.iter().position(|(x, _)| *x == t) {
            self.granted.remove(i);
            return Some(true);
        }
        let pos = self.queue.iter().position(|(x, _)| *x == t);
        if pos.is_none() {
            // removed by close
            return Some(false);
        }
        if !self.fair && self.avail >= n {
            self.avail -= n;
            self.queue.remove(pos.unwrap());
            return Some(true);
        }
        None
    }
    /// drop of an unfinished acquisition
    fn cancel(&mut self, t: usize) {
        if let Some(i) = self.granted.iter().position(|(x, _)| *x == t) {
            let (_, n) = self.granted.remove(i);
            self.release(n);
        } else if let Some(i) = self.queue.iter().position(|(x, _)| *x == t) {
            self.queue.remove(i);
            if i == 0 {
                self.grant_from_front();
            }
        }
    }
}

#[derive(Clone, Debug, PartialEq, Eq, PartialOrd, Ord, Hash)]
pub struct MState {
    pub tasks: Vec<MTask>,
    pub mutex: Vec<MMutex>,
    pub rw: Vec<MRw>,
    pub cv: Vec<Vec<(usize, bool)>>,
    pub bar: Vec<MBar>,
    pub once: Vec<MOnce>,
    pub atom: Vec<u64>,
    pub chan: Vec<MChan>,
    pub sem: Vec<MSem>,
}

#[derive(Clone, Debug, PartialEq, Eq)]
pub enum Res {
    Exact(String),
    /// any value (task ids, which the model does not predict)
    Any,
    /// a number below the bound
    Below(u64),
    Prefix(String),
}

impl Res {
    fn matches(&self, observed: &str) -> bool {
        match self {
            Res::Exact(s) => s == observed,
            Res::Any => true,
            Res::Below(b) => observed.parse::<u64>().map(|v| v < *b).unwrap_or(false),
            Res::Prefix(p) => observed.starts_with(p.as_str()),
        }
    }
}

pub enum Out {
    Cont(MState),
    Done(MState, Res),
}

fn ex(s: &str) -> Res {
    Res::Exact(s.to_string())
}

pub fn init_state(p: &Program) -> MState {
    let nb = p.bodies.len();
    let mut tasks = vec![];
    for b in 0..nb {
        tasks.push(MTask {
            st: if b == 0 { TSt::Idle } else { TSt::NotSpawned },
            pc: 0,
            label: String::new(),
            handles: vec![],
            token: false,
            parked: false,
            woken: false,
            seen: vec![0; p.res.atomics],
            has_tx: (0..p.res.chans.len()).map(|c| p.senders_of(c).contains(&b)).collect(),
            has_rx: (0..p.res.chans.len()).map(|c| p.res.rx_owner[c] == b).collect(),
            parent: p.parent_of(b),
            catch_snap: None,
            named: false,
            holding: false,
            seen_permits: 0,
            vlabel: None,
        });
    }
    MState {
        tasks,
        mutex: vec![MMutex::default(); p.res.mutexes],
        rw: vec![MRw::default(); p.res.rwlocks],
        cv: vec![vec![]; p.res.condvars],
        bar: p.res.barriers.iter().map(|b| MBar { bound: *b, ..Default::default() }).collect(),
        once: vec![MOnce::default(); p.res.onces + STATIC_ONCE_SLOTS],
        atom: vec![0; p.res.atomics],
        chan: (0..p.res.chans.len())
            .map(|c| MChan {
                cap: p.res.chans[c],
                buf: VecDeque::new(),
                senders: p.senders_of(c).len(),
                rx_alive: true,
                send_q: vec![],
                rx_waiting: false,
            })
            .collect(),
        sem: p.res.sems.iter().map(|(n, fair)| MSem { avail: *n, fair: *fair, ..Default::default() }).collect(),
    }
}

fn lock_tag(poisoned: bool) -> &'static str {
    if poisoned {
        "poison"
    } else {
        "ok"
    }
}

/// Execute micro-op `j` of `op` for task `t` in state `s`. None = guard false.
pub fn micro(s: &MState, t: usize, op: &Op, j: u8, uv: u64) -> Option<Vec<Out>> {
    let mut n = s.clone();
    for sm in n.sem.iter_mut() {
        sm.stale_now = match sm.stash {
            Some((owner, _)) => s.tasks[owner].st == TSt::Done,
            None => false,
        };
    }
    let done = |n: MState, r: Res| Some(vec![Out::Done(n, r)]);
    match op {
        Op::Spawn(b) => {
            n.tasks[*b].st = TSt::Idle;
            n.tasks[*b].pc = 0;
            n.tasks[*b].named = true;
            n.tasks[*b].vlabel = s.tasks[t].vlabel;
            n.tasks[t].handles.push((*b, false));
            done(n, Res::Any)
        }
        Op::ScopedSpawn(b) => {
            n.tasks[*b].st = TSt::Idle;
            n.tasks[*b].pc = 0;
            n.tasks[*b].vlabel = s.tasks[t].vlabel;
            done(n, Res::Any)
        }
        Op::ScopeEnd(bs) => {
            // the scope waits for the scoped closures to return (as std does); the scoped threads'
            // thread-local destructors may still be running
            if bs.iter().all(|b| matches!(s.tasks[*b].st, TSt::Done | TSt::Exiting)) {
                done(n, ex(""))
            } else {
                None
            }
        }
        Op::CatchBegin => {
            let ms = (0..s.mutex.len()).filter(|m| s.mutex[*m].owner == Some(t)).collect();
            let ws = (0..s.rw.len()).filter(|r| s.rw[*r].writer == Some(t)).collect();
            let rs = (0..s.rw.len()).filter(|r| s.rw[*r].readers.contains(&t)).collect();
            n.tasks[t].catch_snap = Some((ms, ws, rs));
            done(n, ex(""))
        }
        Op::CatchEnd => {
            let (ms, ws, rs) = s.tasks[t].catch_snap.clone().unwrap_or_default();
            for m in 0..s.mutex.len() {
                if s.mutex[m].owner == Some(t) && !ms.contains(&m) {
                    n.mutex[m].owner = None;
                    n.mutex[m].poisoned = true;
                }
            }
            for r in 0..s.rw.len() {
                if s.rw[r].writer == Some(t) && !ws.contains(&r) {
                    n.rw[r].writer = None;
                    n.rw[r].poisoned = true;
                }
                if s.rw[r].readers.contains(&t) && !rs.contains(&r) {
                    n.rw[r].readers.remove(&t);
                }
            }
            n.tasks[t].catch_snap = None;
            done(n, ex("caught"))
        }
        Op::SemAcquire(sm, k) => {
            let r = if j == 0 { n.sem[*sm].arrive(t, *k) } else { n.sem[*sm].repoll(t, *k) };
            match r {
                Some(ok) => {
                    let a = n.sem[*sm].avail;
                    done(n, Res::Exact(format!("{}:{}", if ok { "ok" } else { "err" }, a)))
                }
                None if j == 0 => Some(vec![Out::Cont(n)]),
                None => None,
            }
        }
        Op::SemTry(sm, k) => {
            let sem = &mut n.sem[*sm];
            let tag = if sem.closed {
                "closed"
            } else if (sem.fair && !sem.queue.is_empty()) || sem.avail < *k {
                "nopermits"
            } else {
                sem.avail -= *k;
                "ok"
            };
            let a = sem.avail;
            done(n, Res::Exact(format!("{}:{}", tag, a)))
        }
        Op::SemRelease(sm, k) => {
            n.sem[*sm].release(*k);
            let a = n.sem[*sm].avail;
            done(n, Res::Exact(a.to_string()))
        }
        Op::SemClose(sm) => {
            n.sem[*sm].closed = true;
            n.sem[*sm].queue.clear();
            let a = n.sem[*sm].avail;
            done(n, Res::Exact(a.to_string()))
        }
        Op::SemStash(sm, k) => {
            if s.tasks[t].holding {
                n.tasks[t].holding = false;
                n.sem[*sm].release(*k);
                let a = n.sem[*sm].avail;
                return done(n, Res::Exact(format!("acquired:{}", a)));
            }
            if s.sem[*sm].stash.is_some() {
                return done(n, ex("skip"));
            }
            match n.sem[*sm].arrive(STASH_KEY, *k) {
                Some(true) => {
                    n.tasks[t].holding = true;
                    Some(vec![Out::Cont(n)])
                }
                Some(false) => {
                    let a = n.sem[*sm].avail;
                    done(n, Res::Exact(format!("err:{}", a)))
                }
                None => {
                    n.sem[*sm].stash = Some((t, *k));
                    let a = n.sem[*sm].avail;
                    done(n, Res::Exact(format!("stashed:{}", a)))
                }
            }
        }
        Op::SemTakeAwait(sm) => {
            if s.tasks[t].holding {
                n.tasks[t].holding = false;
                let k = s.tasks[t].seen_permits;
                n.sem[*sm].release(k);
                let a = n.sem[*sm].avail;
                return done(n, Res::Exact(format!("ok:{}", a)));
            }
            if j == 0 {
                let (_, k) = match s.sem[*sm].stash {
                    Some(x) => x,
                    None => return done(n, ex("skip")),
                };
                n.sem[*sm].stash = None;
                n.sem[*sm].stale_now = false;
                n.tasks[t].seen_permits = k;
                // the parked acquisition is taken over by this task
                let mut found = false;
                let semm = &mut n.sem[*sm];
                for e in semm.queue.iter_mut() {
                    if e.0 == STASH_KEY {
                        e.0 = t;
                        found = true;
                    }
                }
                for e in semm.granted.iter_mut() {
                    if e.0 == STASH_KEY {
                        e.0 = t;
                        found = true;
                    }
                }
                if !found && !n.sem[*sm].closed {
                    // it was discarded as stale: polling it again is a fresh arrival
                    match n.sem[*sm].arrive(t, k) {
                        Some(true) => {
                            n.tasks[t].holding = true;
                        }
                        Some(false) => {}
                        None => {}
                    }
                }
                return Some(vec![Out::Cont(n)]);
            }
            let k = s.tasks[t].seen_permits;
            match n.sem[*sm].repoll(t, k) {
                Some(true) => {
                    n.tasks[t].holding = true;
                    Some(vec![Out::Cont(n)])
                }
                Some(false) => {
                    let a = n.sem[*sm].avail;
                    done(n, Res::Exact(format!("err:{}", a)))
                }
                None => None,
            }
        }
        Op::SemCancel(sm, k, polls) => {
            // micro-ops: 0 = first poll; with two polls: 1 = scheduling point, 2 = second poll; last = drop.
            // A poll that completes the acquisition is followed by a separate release micro-op.
            // polls == 0: first poll, scheduling point, drop (no second poll)
            let last = if *polls >= 2 { 3 } else if *polls == 0 { 2 } else { 1 };
            if s.tasks[t].holding {
                n.tasks[t].holding = false;
                n.sem[*sm].release(*k);
                let a = n.sem[*sm].avail;
                return done(n, Res::Exact(format!("acquired:{}", a)));
            }
            let r = if j == 0 {
                Some(n.sem[*sm].arrive(t, *k))
            } else if j == last {
                n.sem[*sm].cancel(t);
                let a = n.sem[*sm].avail;
                return done(n, Res::Exact(format!("cancelled:{}", a)));
            } else if j == 1 {
                None
            } else {
                Some(n.sem[*sm].repoll(t, *k))
            };
            match r {
                Some(Some(true)) => {
                    n.tasks[t].holding = true;
                    Some(vec![Out::Cont(n)])
                }
                Some(Some(false)) => {
                    let a = n.sem[*sm].avail;
                    done(n, Res::Exact(format!("err:{}", a)))
                }
                _ => Some(vec![Out::Cont(n)]),
            }
        }
        Op::ResetSteps => done(n, ex("")),
        Op::LabelSet => {
            let old = s.tasks[t].vlabel.map(|v| v.to_string()).unwrap_or("none".into());
            n.tasks[t].vlabel = Some(uv);
            done(n, Res::Exact(old))
        }
        Op::LabelGet => done(n, Res::Exact(s.tasks[t].vlabel.map(|v| v.to_string()).unwrap_or("none".into()))),
        Op::TlsWith(_) => done(n, Res::Any),
        Op::ThreadInfo => {
            if t == 0 {
                done(n, Res::Prefix("true:".into()))
            } else if s.tasks[t].named {
                done(n, Res::Exact(format!("true:body{}", t)))
            } else {
                done(n, ex("true:<none>"))
            }
        }
        Op::Join(slot) => match s.tasks[t].handles.get(*slot) {
            Some((b, false)) => {
                if s.tasks[*b].st == TSt::Done {
                    n.tasks[t].handles[*slot].1 = true;
                    done(n, Res::Exact(format!("ok:{}", b)))
                } else {
                    None
                }
            }
            _ => done(n, ex("skip")),
        },
        Op::Lock(m) => {
            if s.mutex[*m].owner == Some(t) {
                return done(n, ex("skip"));
            }
            if s.mutex[*m].owner.is_some() {
                return None;
            }
            let r = format!("{}:{}", lock_tag(s.mutex[*m].poisoned), s.mutex[*m].val);
            n.mutex[*m].owner = Some(t);
            n.mutex[*m].val = uv;
            done(n, Res::Exact(r))
        }
        Op::TryLock(m) => {
            if s.mutex[*m].owner.is_some() {
                return done(n, ex("wouldblock"));
            }
            let r = format!("{}:{}", lock_tag(s.mutex[*m].poisoned), s.mutex[*m].val);
            n.mutex[*m].owner = Some(t);
            n.mutex[*m].val = uv;
            done(n, Res::Exact(r))
        }
        Op::Unlock(m) => {
            if s.mutex[*m].owner == Some(t) {
                n.mutex[*m].owner = None;
                done(n, ex("ok"))
            } else {
                done(n, ex("skip"))
            }
        }
        Op::Read(r) => {
            if s.rw[*r].readers.contains(&t) || s.rw[*r].writer == Some(t) {
                return done(n, ex("skip"));
            }
            if s.rw[*r].writer.is_some() {
                return None;
            }
            let res = format!("{}:{}", lock_tag(s.rw[*r].poisoned), s.rw[*r].val);
            n.rw[*r].readers.insert(t);
            done(n, Res::Exact(res))
        }
        Op::Write(r) => {
            if s.rw[*r].readers.contains(&t) || s.rw[*r].writer == Some(t) {
                return done(n, ex("skip"));
            }
            if s.rw[*r].writer.is_some() || !s.rw[*r].readers.is_empty() {
                return None;
            }
            let res = format!("{}:{}", lock_tag(s.rw[*r].poisoned), s.rw[*r].val);
            n.rw[*r].writer = Some(t);
            n.rw[*r].val = uv;
            done(n, Res::Exact(res))
        }
        Op::TryRead(r) => {
            if s.rw[*r].writer.is_some() || s.rw[*r].readers.contains(&t) {
                return done(n, ex("wouldblock"));
            }
            let res = format!("{}:{}", lock_tag(s.rw[*r].poisoned), s.rw[*r].val);
            n.rw[*r].readers.insert(t);
            done(n, Res::Exact(res))
        }
        Op::TryWrite(r) => {
            if s.rw[*r].writer.is_some() || !s.rw[*r].readers.is_empty() {
                return done(n, ex("wouldblock"));
            }
            let res = format!("{}:{}", lock_tag(s.rw[*r].poisoned), s.rw[*r].val);
            n.rw[*r].writer = Some(t);
            n.rw[*r].val = uv;
            done(n, Res::Exact(res))
        }
        Op::UnlockRead(r) => {
            if n.rw[*r].readers.remove(&t) {
                done(n, ex("ok"))
            } else {
                done(n, ex("skip"))
            }
        }
        Op::UnlockWrite(r) => {
            if s.rw[*r].writer == Some(t) {
                n.rw[*r].writer = None;
                done(n, ex("ok"))
            } else {
                done(n, ex("skip"))
            }
        }
        Op::Wait(cv, m) => match j {
            0 => {
                if s.mutex[*m].owner != Some(t) {
                    return done(n, ex("skip"));
                }
                n.mutex[*m].owner = None;
                n.cv[*cv].push((t, false));
                Some(vec![Out::Cont(n)])
            }
            1 => {
                let pos = s.cv[*cv].iter().position(|(w, _)| *w == t)?;
                if !s.cv[*cv][pos].1 {
                    return None;
                }
                n.cv[*cv].remove(pos);
                Some(vec![Out::Cont(n)])
            }
            _ => {
                if s.mutex[*m].owner.is_some() {
                    return None;
                }
                let r = format!("{}:{}", lock_tag(s.mutex[*m].poisoned), s.mutex[*m].val);
                n.mutex[*m].owner = Some(t);
                done(n, Res::Exact(r))
            }
        },
        Op::NotifyOne(cv) => {
            let cands: Vec<usize> = s.cv[*cv].iter().enumerate().filter(|(_, (_, nt))| !*nt).map(|(i, _)| i).collect();
            if cands.is_empty() {
                return done(n, ex(""));
            }
            let mut outs = vec![];
            for i in cands {
                let mut n2 = s.clone();
                n2.cv[*cv][i].1 = true;
                outs.push(Out::Done(n2, ex("")));
            }
            Some(outs)
        }
        Op::NotifyAll(cv) => {
            for w in n.cv[*cv].iter_mut() {
                w.1 = true;
            }
            done(n, ex(""))
        }
        Op::BarrierWait(b) => match j {
            0 => {
                n.bar[*b].arrived.push(t);
                if n.bar[*b].arrived.len() >= n.bar[*b].bound.max(1) {
                    let group = std::mem::take(&mut n.bar[*b].arrived);
                    n.bar[*b].generations += 1;
                    let mut outs = vec![];
                    for leader in &group {
                        let mut n2 = n.clone();
                        for g in &group {
                            n2.bar[*b].released.insert(*g, g == leader);
                        }
                        outs.push(Out::Cont(n2));
                    }
                    Some(outs)
                } else {
                    Some(vec![Out::Cont(n)])
                }
            }
            _ => {
                let l = n.bar[*b].released.remove(&t)?;
                done(n, ex(if l { "leader" } else { "follower" }))
            }
        },
        Op::CallOnce(..) | Op::StaticOnce(_) | Op::LazyGet(_) => {
            let o = &once_slot(s, op);
            match j {
                // entry (executed eagerly in the step that starts the operation): a completed cell returns at once
                0 => {
                    if s.once[*o].phase == 2 {
                        done(n, ex(""))
                    } else {
                        Some(vec![Out::Cont(n)])
                    }
                }
                // enter the cell's critical section
                1 => {
                    if s.once[*o].lock.is_some() {
                        return None;
                    }
                    n.once[*o].lock = Some(t);
                    if s.once[*o].phase == 0 {
                        n.once[*o].phase = 1;
                    }
                    Some(vec![Out::Cont(n)])
                }
                // micro 2 is the initialiser body: executed by the logged "J" event; skipped when
                // the cell was completed by another caller in the meantime
                2 => {
                    if s.once[*o].phase == 2 && s.once[*o].lock == Some(t) {
                        Some(vec![Out::Cont(n)])
                    } else {
                        None
                    }
                }
                _ => {
                    if s.once[*o].lock == Some(t) {
                        n.once[*o].lock = None;
                    }
                    done(n, ex(""))
                }
            }
        }
        Op::IsCompleted(o) => {
            let r = (s.once[*o].phase == 2).to_string();
            done(n, Res::Exact(r))
        }
        Op::ALoad(a) => {
            n.tasks[t].seen[*a] = s.atom[*a];
            done(n, Res::Exact(s.atom[*a].to_string()))
        }
        Op::AStore(a) => {
            n.atom[*a] = uv;
            n.tasks[t].seen[*a] = uv;
            done(n, ex(""))
        }
        Op::AAdd(a, k) => {
            let old = s.atom[*a];
            n.atom[*a] = old.wrapping_add(*k);
            n.tasks[t].seen[*a] = n.atom[*a];
            done(n, Res::Exact(old.to_string()))
        }
        Op::ASwap(a) => {
            let old = s.atom[*a];
            n.atom[*a] = uv;
            n.tasks[t].seen[*a] = uv;
            done(n, Res::Exact(old.to_string()))
        }
        Op::ACas(a) => {
            let old = s.atom[*a];
            if old == s.tasks[t].seen[*a] {
                n.atom[*a] = uv;
                n.tasks[t].seen[*a] = uv;
                done(n, Res::Exact(format!("ok:{}", old)))
            } else {
                n.tasks[t].seen[*a] = old;
                done(n, Res::Exact(format!("err:{}", old)))
            }
        }
        Op::Send(c) => {
            if !s.tasks[t].has_tx[*c] {
                return done(n, ex("skip"));
            }
            match j {
                0 => {
                    if !s.chan[*c].rx_alive {
                        return done(n, ex("err"));
                    }
                    if s.chan[*c].send_q.is_empty() && s.chan[*c].room() {
                        n.chan[*c].buf.push_back(uv);
                        return done(n, ex("ok"));
                    }
                    n.chan[*c].send_q.push(t);
                    Some(vec![Out::Cont(n)])
                }
                _ => {
                    if !s.chan[*c].rx_alive {
                        n.chan[*c].send_q.retain(|x| *x != t);
                        return done(n, ex("err"));
                    }
                    if s.chan[*c].send_q.first() == Some(&t) && s.chan[*c].room() {
                        n.chan[*c].send_q.remove(0);
                        n.chan[*c].buf.push_back(uv);
                        return done(n, ex("ok"));
                    }
                    None
                }
            }
        }
        Op::TrySend(c) => {
            if !s.tasks[t].has_tx[*c] {
                return done(n, ex("skip"));
            }
            if !s.chan[*c].rx_alive {
                return done(n, ex("disc"));
            }
            if s.chan[*c].send_q.is_empty() && s.chan[*c].room() {
                n.chan[*c].buf.push_back(uv);
                return done(n, ex("ok"));
            }
            done(n, ex("full"))
        }
        Op::Recv(c) | Op::TryRecv(c) => {
            if !s.tasks[t].has_rx[*c] {
                return done(n, ex("skip"));
            }
            let blocking = matches!(op, Op::Recv(_))
                || (s.chan[*c].cap == Some(0) && (!s.chan[*c].send_q.is_empty() || s.chan[*c].rx_waiting));
            match j {
                0 => {
                    if let Some(v) = n.chan[*c].buf.pop_front() {
                        return done(n, Res::Exact(v.to_string()));
                    }
                    if s.chan[*c].senders == 0 {
                        return done(n, ex("disc"));
                    }
                    if !blocking {
                        return done(n, ex("empty"));
                    }
                    n.chan[*c].rx_waiting = true;
                    Some(vec![Out::Cont(n)])
                }
                _ => {
                    if let Some(v) = n.chan[*c].buf.pop_front() {
                        n.chan[*c].rx_waiting = false;
                        return done(n, Res::Exact(v.to_string()));
                    }
                    if s.chan[*c].senders == 0 {
                        n.chan[*c].rx_waiting = false;
                        return done(n, ex("disc"));
                    }
                    None
                }
            }
        }
        Op::DropTx(c) => {
            if s.tasks[t].has_tx[*c] {
                n.tasks[t].has_tx[*c] = false;
                n.chan[*c].senders -= 1;
                done(n, ex("ok"))
            } else {
                done(n, ex("skip"))
            }
        }
        Op::DropRx(c) => {
            if s.tasks[t].has_rx[*c] {
                n.tasks[t].has_rx[*c] = false;
                n.chan[*c].rx_alive = false;
                n.chan[*c].buf.clear();
                done(n, ex("ok"))
            } else {
                done(n, ex("skip"))
            }
        }
        Op::Park => match j {
            0 => {
                if s.tasks[t].token {
                    n.tasks[t].token = false;
                    return done(n, ex(""));
                }
                n.tasks[t].parked = true;
                n.tasks[t].woken = false;
                Some(vec![Out::Cont(n)])
            }
            _ => {
                if !s.tasks[t].woken {
                    return None;
                }
                n.tasks[t].parked = false;
                n.tasks[t].woken = false;
                done(n, ex(""))
            }
        },
        Op::UnparkChild(slot) => match s.tasks[t].handles.get(*slot) {
            Some((b, false)) => {
                unpark(&mut n, *b);
                done(n, ex("ok"))
            }
            _ => done(n, ex("skip")),
        },
        Op::UnparkParent => match s.tasks[t].parent {
            Some(p) => {
                unpark(&mut n, p);
                done(n, ex("ok"))
            }
            None => done(n, ex("skip")),
        },
        Op::Yield | Op::Sleep | Op::Spin => done(n, ex("")),
        Op::Rand(b) => done(n, Res::Below((*b).max(1))),
        Op::Catch(_) | Op::Scope(..) | Op::Fail => done(n, Res::Any),
    }
}

/// model Once slot used by an operation: per-program cells first, then the static pool
pub fn once_slot(s: &MState, op: &Op) -> usize {
    let n = s.once.len() - STATIC_ONCE_SLOTS;
    match op {
        Op::CallOnce(o, _) => *o,
        Op::StaticOnce(i) => n + (i % 2),
        Op::LazyGet(i) => n + 2 + (i % 2),
        _ => 0,
    }
}

fn unpark(n: &mut MState, target: usize) {
    if n.tasks[target].parked && !n.tasks[target].woken {
        n.tasks[target].woken = true;
    } else if n.tasks[target].parked && n.tasks[target].woken {
        // already woken (by unpark or spuriously) but has not run yet: the runtime has cleared
        // blocked_in_park, so this unpark stores the token
        n.tasks[target].token = true;
    } else {
        n.tasks[target].token = true;
    }
}

/// Resolve a label to the operation it denotes for body `b` and the unique value it writes.
pub fn op_for_label(p: &Program, b: usize, label: &str) -> Option<(Op, u64)> {
    if let Some(m) = label.strip_prefix("xr") {
        return m.parse().ok().map(|m| (Op::UnlockRead(m), 0));
    }
    if let Some(m) = label.strip_prefix("xw") {
        return m.parse().ok().map(|m| (Op::UnlockWrite(m), 0));
    }
    if let Some(m) = label.strip_prefix('x') {
        return m.parse().ok().map(|m| (Op::Unlock(m), 0));
    }
    if let Some((a, rest)) = label.split_once('.') {
        let i: usize = a.parse().ok()?;
        let op = p.bodies[b].get(i)?;
        return match (op, rest) {
            (Op::Scope(bs, _), "end") => Some((Op::ScopeEnd(bs.clone()), 0)),
            (Op::Catch(_), "begin") => Some((Op::CatchBegin, 0)),
            (Op::Catch(_), "end") => Some((Op::CatchEnd, 0)),
            (Op::Scope(bs, inner), r) => {
                if let Some(k) = r.strip_prefix('b') {
                    let k: usize = k.parse().ok()?;
                    bs.get(k).map(|x| (Op::ScopedSpawn(*x), 0))
                } else {
                    let j: usize = r.parse().ok()?;
                    inner.get(j).map(|o| (o.clone(), inner_unique_val(b, i, j)))
                }
            }
            (Op::Catch(inner), r) => {
                let j: usize = r.parse().ok()?;
                inner.get(j).map(|o| (o.clone(), inner_unique_val(b, i, j)))
            }
            _ => None,
        };
    }
    let i: usize = label.parse().ok()?;
    match p.bodies[b].get(i) {
        Some(Op::Scope(..)) | Some(Op::Catch(..)) | None => None,
        Some(o) => Some((o.clone(), unique_val(b, i))),
    }
}

pub fn guard_of_current(p: &Program, s: &MState, t: usize) -> bool {
    match &s.tasks[t].st {
        TSt::Pending { micro: j, .. } => match op_for_label(p, t, &s.tasks[t].label) {
            Some((op, uv)) => micro(s, t, &op, *j, uv).is_some(),
            None => true,
        },
        _ => true,
    }
}

/// Operations whose blocking does NOT commute with the other operations on the same object (a
/// FIFO position or a rendezvous is taken by arriving): a choice point must precede their arrival,
/// so a task that has just started one must be offered at least until it has had a step of its own.
fn arrival_is_visible(s: &MState, t: usize, op: &Op) -> bool {
    match op {
        // (an operation on an endpoint the task does not own is skipped by the interpreter: purely local)
        Op::Recv(c) | Op::TryRecv(c) => s.tasks[t].has_rx[*c],
        Op::Send(c) | Op::TrySend(c) => s.tasks[t].has_tx[*c],
        Op::SemAcquire(sm, _) | Op::SemCancel(sm, _, _) => s.sem[*sm].fair,
        Op::SemStash(sm, _) => s.sem[*sm].fair && s.sem[*sm].stash.is_none(),
        _ => false,
    }
}

/// Must task `t` be offered as runnable in `s`?
pub fn enabled(p: &Program, s: &MState, t: usize) -> bool {
    match &s.tasks[t].st {
        TSt::NotSpawned | TSt::Done => false,
        TSt::Idle | TSt::Exiting => true,
        TSt::Pending { micro, tries } => {
            if *micro == 0 && *tries == 0 {
                if let Some((op, _)) = op_for_label(p, t, &s.tasks[t].label) {
                    if arrival_is_visible(s, t, &op) {
                        return true;
                    }
                }
            }
            guard_of_current(p, s, t)
        }
    }
}

/// May task `t` be offered as runnable in `s`?
pub fn may_run(p: &Program, s: &MState, t: usize) -> bool {
    match &s.tasks[t].st {
        TSt::NotSpawned | TSt::Done => false,
        TSt::Idle | TSt::Exiting => true,
        TSt::Pending { tries, .. } => *tries < 2 || guard_of_current(p, s, t),
    }
}

/// Is task `t` parked waiting for a token (may be offered while blocked)?
pub fn parked_waiting(s: &MState, t: usize) -> bool {
    matches!(s.tasks[t].st, TSt::Pending { micro: 1, .. }) && s.tasks[t].parked && !s.tasks[t].woken
}

#[derive(Clone, Debug)]
pub struct Mismatch {
    pub class: String,
    pub detail: String,
    pub step: usize,
}

#[derive(Clone, Debug, Default)]
pub struct LockstepStats {
    /// operation kinds that completed without any scheduling decision between their start and
    /// their completion (kind -> (count, example))
    pub same_step: BTreeMap<String, (u64, String)>,
    pub max_states: usize,
    pub steps: usize,
    pub multi_effect_steps: u64,
    pub probes: BTreeMap<String, u64>,
    pub final_states: usize,
}

const MAX_STATES: usize = 4000;

/// Advance one state by the events of one step of task `t`. Returns all successor states.
fn advance_one(p: &Program, s0: &MState, t: usize, evs: &[&Event], out: &mut BTreeSet<MState>, probes: &mut BTreeMap<String, u64>) {
    // depth-first over (state, event index)
    let mut stack: Vec<(MState, usize, bool)> = vec![(s0.clone(), 0, false)]; // (state, next event, started_in_this_step)
    let mut seen: BTreeSet<(MState, usize, bool)> = BTreeSet::new();
    while let Some((s, ei, started_here)) = stack.pop() {
        if !seen.insert((s.clone(), ei, started_here)) {
            continue;
        }
        if seen.len() > 20000 {
            return;
        }
        let task = &s.tasks[t];
        match &task.st {
            TSt::NotSpawned | TSt::Done => {
                // a task that is not alive cannot log or run
                continue;
            }
            TSt::Exiting => {
                // only destructor / extra events may follow
                if ei < evs.len() {
                    let e = evs[ei];
                    if matches!(e.kind.as_str(), "D" | "Y" | "T" | "DA" | "LD" | "SD" | "C" | "CI" | "CD") {
                        stack.push((s.clone(), ei + 1, started_here));
                    }
                    continue;
                }
                out.insert(s.clone());
                let mut d = s.clone();
                d.tasks[t].st = TSt::Done;
                out.insert(d);
            }
            TSt::Idle => {
                if ei >= evs.len() {
                    // nothing logged: legal only for a freshly spawned task that has not begun
                    out.insert(s.clone());
                    continue;
                }
                let e = evs[ei];
                match e.kind.as_str() {
                    "B" => {
                        if task.pc == 0 {
                            stack.push((s.clone(), ei + 1, started_here));
                        }
                    }
                    "C" => stack.push((s.clone(), ei + 1, started_here)),
                    "S" => {
                        // the label must denote the next operation of the body
                        let labels = p.labels(t);
                        let expected_ok = if task.pc < labels.len() {
                            labels[task.pc] == e.op
                        } else {
                            // implicit tail unlocks come after all body operations
                            e.op.starts_with('x') && op_for_label(p, t, &e.op).is_some()
                        };
                        if !expected_ok {
                            continue;
                        }
                        let mut n = s.clone();
                        n.tasks[t].st = TSt::Pending { micro: 0, tries: 0 };
                        n.tasks[t].label = e.op.clone();
                        stack.push((n, ei + 1, true));
                    }
                    "X" => {
                        if task.pc >= p.labels(t).len() {
                            let mut n = s.clone();
                            n.tasks[t].st = TSt::Exiting;
                            stack.push((n, ei + 1, started_here));
                        }
                    }
                    _ => {}
                }
            }
            TSt::Pending { micro: j, tries } => {
                let (op, uv) = match op_for_label(p, t, &task.label) {
                    Some(x) => x,
                    None => continue,
                };
                let next = evs.get(ei).copied();
                // extra events inside an operation
                if let Some(e) = next {
                    match e.kind.as_str() {
                        "I" => {
                            // initialiser of a Once started: this task must be the one Running
                            if matches!(op, Op::CallOnce(..) | Op::StaticOnce(_) | Op::LazyGet(_)) {
                                let o = &once_slot(&s, &op);
                                if *j == 2 && s.once[*o].phase == 1 && s.once[*o].lock == Some(t) {
                                    *probes.entry("once_init_run".into()).or_insert(0) += 1;
                                    stack.push((s.clone(), ei + 1, started_here));
                                    continue;
                                } else if *j < 2 {
                                    // entry micro-ops must run first: handled below
                                } else {
                                    continue;
                                }
                            } else {
                                continue;
                            }
                        }
                        "J" => {
                            // initialiser returned: the Once becomes complete here (before call_once returns)
                            if matches!(op, Op::CallOnce(..) | Op::StaticOnce(_) | Op::LazyGet(_)) {
                                let o = &once_slot(&s, &op);
                                if *j == 2 && s.once[*o].phase == 1 && s.once[*o].lock == Some(t) {
                                    let mut n = s.clone();
                                    n.once[*o].phase = 2;
                                    n.tasks[t].st = TSt::Pending { micro: 3, tries: *tries };
                                    stack.push((n, ei + 1, started_here));
                                }
                            }
                            continue;
                        }
                        "Y" | "P" | "F" | "T" | "D" | "DA" | "LD" | "SD" | "C" | "CI" | "CD" => {
                            stack.push((s.clone(), ei + 1, started_here));
                            continue;
                        }
                        _ => {}
                    }
                }
                // option: stop here (only when all events are consumed)
                let eager0 = matches!(op, Op::CallOnce(..) | Op::StaticOnce(_) | Op::LazyGet(_)) && *j == 0;
                if ei >= evs.len() && !eager0 {
                    let mut b = s.clone();
                    let nt = if started_here { 0 } else { (*tries + 1).min(2) };
                    b.tasks[t].st = TSt::Pending { micro: *j, tries: nt };
                    out.insert(b);
                }
                // an operation whose arrival is visible to other tasks has its choice point first: nothing
                // of it may take effect in the step that merely started it
                if started_here && *j == 0 && arrival_is_visible(&s, t, &op) {
                    continue;
                }
                // option: execute the next micro-op
                if let Some(outs) = micro(&s, t, &op, *j, uv) {
                    for o in outs {
                        match o {
                            Out::Cont(mut n) => {
                                n.tasks[t].st = TSt::Pending { micro: *j + 1, tries: *tries };
                                stack.push((n, ei, started_here));
                            }
                            Out::Done(mut n, res) => {
                                // completion must be the next event
                                if let Some(e) = next {
                                    if e.kind == "E" && e.op == task.label && res.matches(&e.val) {
                                        if let Op::Spawn(_) = &op {
                                            // nothing: tid mapping handled by the caller
                                        }
                                        n.tasks[t].st = TSt::Idle;
                                        if !task.label.starts_with('x') {
                                            n.tasks[t].pc = task.pc + 1;
                                        }
                                        n.tasks[t].label.clear();
                                        stack.push((n, ei + 1, started_here));
                                    }
                                }
                            }
                        }
                    }
                }
            }
        }
    }
}

pub fn parse_deadlock_tasks(msg: &str) -> Option<Vec<u32>> {
    let rest = msg.strip_prefix("deadlock! blocked tasks: [")?;
    let mut ids = vec![];
    let mut i = 0;
    let b = rest.as_bytes();
    while let Some(pos) = rest[i..].find("(task ") {
        let start = i + pos + 6;
        // read until the matching ')': the id is the last run of digits before it
        let mut depth = 1;
        let mut k = start;
        let mut last_num: Option<u32> = None;
        let mut cur: Option<u32> = None;
        while k < b.len() && depth > 0 {
            let c = b[k] as char;
            if c == '(' {
                depth += 1;
                cur = None;
            } else if c == ')' {
                depth -= 1;
                if let Some(v) = cur.take() {
                    last_num = Some(v);
                }
            } else if c.is_ascii_digit() {
                cur = Some(cur.unwrap_or(0) * 10 + (c as u32 - '0' as u32));
            } else {
                if c == ',' {
                    if let Some(v) = cur.take() {
                        last_num = Some(v);
                    }
                } else {
                    cur = None;
                }
            }
            k += 1;
        }
        ids.push(last_num?);
        i = k;
    }
    Some(ids)
}

/// The lockstep check of one execution. `ending`: None = passed, Some(msg) = panic payload.
/// `stopped`: the scheduler answered None (no verdict to check).
pub fn lockstep(p: &Program, ex: &ExecTrace, ending: Option<&str>) -> Result<LockstepStats, Mismatch> {
    let mut stats = LockstepStats::default();
    let decisions: Vec<&Decision> = ex.decisions().collect();
    // events per step
    let mut by_step: BTreeMap<u32, Vec<&Event>> = BTreeMap::new();
    for e in &ex.events {
        by_step.entry(e.step).or_default().push(e);
    }
    let mut tid_of: BTreeMap<usize, u32> = BTreeMap::new(); // body -> tid
    let mut body_of: BTreeMap<u32, usize> = BTreeMap::new();
    tid_of.insert(0, 0);
    body_of.insert(0, 0);
    let mut set: BTreeSet<MState> = BTreeSet::new();
    set.insert(init_state(p));
    let mm = |class: &str, detail: String, step: usize| Mismatch { class: class.to_string(), detail, step };

    let mut prev_step_last: Option<(usize, Event)> = None; // (body, last event of the previous step)
    for (k, d) in decisions.iter().enumerate() {
        // ---- the yielding flag is set exactly for the decision following an explicit yield request ----
        if k > 0 {
            let expect = match &prev_step_last {
                Some((b, e)) => match e.kind.as_str() {
                    "S" => matches!(op_for_label(p, *b, &e.op), Some((Op::Yield, _)) | Some((Op::Spin, _)) | Some((Op::Park, _))),
                    "I" => e.op == "L1" || {
                        // initialiser of a per-program Once whose body yields
                        let t = &p.bodies[*b];
                        e.op.parse::<usize>().is_ok()
                            && t.iter().chain(t.iter().flat_map(|o| match o {
                                Op::Scope(_, inner) | Op::Catch(inner) => inner.iter(),
                                _ => [].iter(),
                            })).any(|o| matches!(o, Op::CallOnce(x, true) if x.to_string() == e.op))
                            && {
                                // the op in progress must be that CallOnce(_, true)
                                true
                            }
                    },
                    "D" => e.op == "1",
                    _ => false,
                },
                None => false,
            };
            // an "I" of a CallOnce(o, false) by a body that also has CallOnce(o, true) elsewhere is
            // ambiguous by label alone; resolve through the pending operation of the task
            let expect = match &prev_step_last {
                Some((b, e)) if e.kind == "I" && e.op.parse::<usize>().is_ok() => {
                    set.iter().next().map(|s| match op_for_label(p, *b, &s.tasks[*b].label) {
                        Some((Op::CallOnce(_, yi), _)) => yi,
                        _ => expect,
                    }).unwrap_or(expect)
                }
                _ => expect,
            };
            if d.yielding != expect {
                return Err(mm(
                    "yield-flag",
                    format!("decision {}: is_yielding={} but the previous step ended with {:?}", k, d.yielding, prev_step_last.as_ref().map(|(b, e)| format!("body {} {}{}={}", b, e.kind, e.op, e.val))),
                    k,
                ));
            }
            if d.yielding {
                *stats.probes.entry("yield_flag_true".into()).or_insert(0) += 1;
            }
        }
        // ---- compare the offered set with the model ----
        let mut offered_bodies: BTreeSet<usize> = BTreeSet::new();
        let mut blocked_bodies: BTreeSet<usize> = BTreeSet::new();
        for tid in &d.offered {
            match body_of.get(tid) {
                Some(b) => {
                    if d.blocked.contains(tid) {
                        blocked_bodies.insert(*b);
                    } else {
                        offered_bodies.insert(*b);
                    }
                }
                None => {
                    return Err(mm("offered-unknown-task", format!("decision {} offers task {} that no Spawn reported", k, tid), k));
                }
            }
        }
        if offered_bodies.is_empty() && !blocked_bodies.is_empty() {
            // tasks that merely wait for a possible spurious wake-up do not count as able to progress:
            // with nothing else runnable the execution is over (deadlock), not a scheduling decision
            return Err(mm(
                "only-spuriously-wakeable-tasks-offered",
                format!("decision {}: every offered task ({:?}) is blocked and only spuriously wakeable; the runtime should have ended the execution", k, blocked_bodies),
                k,
            ));
        }
        let nb = p.bodies.len();
        let mut keep: BTreeSet<MState> = BTreeSet::new();
        let mut union_en: BTreeSet<usize> = BTreeSet::new();
        for s in &set {
            let en: BTreeSet<usize> = (0..nb).filter(|t| enabled(p, s, *t) && !parked_waiting(s, *t)).collect();
            let pk: BTreeSet<usize> = (0..nb).filter(|t| parked_waiting(s, *t)).collect();
            if en.is_subset(&offered_bodies) && blocked_bodies.is_subset(&pk) {
                union_en.extend((0..nb).filter(|t| may_run(p, s, *t) && !parked_waiting(s, *t)));
                keep.insert(s.clone());
            }
        }
        if keep.is_empty() {
            // classify: which tasks are enabled in every state but not offered?
            let mut always: BTreeSet<usize> = (0..nb).collect();
            for s in &set {
                let en: BTreeSet<usize> = (0..nb).filter(|t| enabled(p, s, *t) && !parked_waiting(s, *t)).collect();
                always = always.intersection(&en).cloned().collect();
            }
            let missing: Vec<usize> = always.difference(&offered_bodies).cloned().collect();
            return Err(mm(
                if missing.is_empty() { "offered-set-inconsistent" } else { "enabled-task-not-offered" },
                format!(
                    "decision {}: runtime offers bodies {:?} (blocked-offered {:?}); model ({} states) requires {:?}; e.g. state {:?}",
                    k,
                    offered_bodies,
                    blocked_bodies,
                    set.len(),
                    missing,
                    set.iter().next().map(brief)
                ),
                k,
            ));
        }
        let extra: Vec<usize> = offered_bodies.difference(&union_en).cloned().collect();
        if !extra.is_empty() {
            return Err(mm(
                "disabled-task-offered",
                format!(
                    "decision {}: runtime offers bodies {:?} but no model state has {:?} enabled; e.g. state {:?}",
                    k,
                    offered_bodies,
                    extra,
                    keep.iter().next().map(brief)
                ),
                k,
            ));
        }
        set = keep;
        let chosen = match d.chosen {
            Some(c) => c,
            None => {
                stats.steps = k;
                return Ok(stats);
            }
        };
        let t = match body_of.get(&chosen) {
            Some(b) => *b,
            None => return Err(mm("chosen-unknown-task", format!("decision {} chose unknown task {}", k, chosen), k)),
        };
        if d.blocked.contains(&chosen) {
            // spurious wake-up taken by the scheduler
            *stats.probes.entry("spurious_wake_taken".into()).or_insert(0) += 1;
            let mut ns = BTreeSet::new();
            for mut s in std::mem::take(&mut set) {
                s.tasks[t].woken = true;
                ns.insert(s);
            }
            set = ns;
        }
        let evs: Vec<&Event> = by_step.get(&((k + 1) as u32)).cloned().unwrap_or_default();
        let evs_t: Vec<&Event> = evs.iter().filter(|e| e.task == chosen).cloned().collect();
        prev_step_last = evs_t.last().map(|e| (t, (*e).clone()));
        // operations that started and completed within this step (no choice point in between)
        for (i, e) in evs_t.iter().enumerate() {
            if e.kind == "E" && e.val != "skip" {
                if let Some(sidx) = evs_t[..i].iter().rposition(|x| x.kind == "S" && x.op == e.op) {
                    // the first S of a task's very first step is preceded by the choice that started the task
                    let first_of_task = sidx > 0 && evs_t[sidx - 1].kind == "B";
                    if !first_of_task {
                        if let Some((op, _)) = op_for_label(p, t, &e.op) {
                            let kind = format!("{:?}", op).split('(').next().unwrap_or("").to_string();
                            let ent = stats.same_step.entry(kind).or_insert((0, format!("body {} {}={}", t, e.op, e.val)));
                            ent.0 += 1;
                        }
                    }
                }
            }
        }
        let completions = evs_t.iter().filter(|e| e.kind == "E").count();
        if completions >= 2 {
            stats.multi_effect_steps += 1;
        }
        let mut next: BTreeSet<MState> = BTreeSet::new();
        for s in &set {
            advance_one(p, s, t, &evs_t, &mut next, &mut stats.probes);
            if next.len() > MAX_STATES {
                break;
            }
        }
        if next.is_empty() {
            return Err(mm(
                "step-not-explained",
                format!(
                    "step {} of body {} (task {}): events {:?} cannot be produced by any of {} model states; e.g. {:?}",
                    k + 1,
                    t,
                    chosen,
                    evs_t.iter().map(|e| format!("{}{}={}", e.kind, e.op, e.val)).collect::<Vec<_>>(),
                    set.len(),
                    set.iter().next().map(brief)
                ),
                k + 1,
            ));
        }
        // learn task ids of spawned children from Spawn completions
        for e in &evs_t {
            if e.kind == "E" {
                if let Some((Op::Spawn(b), _)) | Some((Op::ScopedSpawn(b), _)) = op_for_label(p, t, &e.op) {
                    if let Ok(tid) = e.val.parse::<u32>() {
                        if let Some(prev) = body_of.get(&tid) {
                            if *prev != b {
                                return Err(mm("task-id-reused", format!("task id {} given to bodies {} and {}", tid, prev, b), k + 1));
                            }
                        }
                        tid_of.insert(b, tid);
                        body_of.insert(tid, b);
                    }
                }
            }
        }
        if next.len() > MAX_STATES {
            // too many states: give up on this execution (counted, never an alarm)
            *stats.probes.entry("state_cap_hit".into()).or_insert(0) += 1;
            stats.steps = k + 1;
            return Ok(stats);
        }
        stats.max_states = stats.max_states.max(next.len());
        set = next;
        stats.steps = k + 1;
    }

    // ---- final verdict ----
    stats.final_states = set.len();
    let nb = p.bodies.len();
    if ex.stopped {
        return Ok(stats);
    }
    match ending {
        None => {
            let ok = set.iter().any(|s| (0..nb).all(|t| matches!(s.tasks[t].st, TSt::Done | TSt::NotSpawned | TSt::Exiting)) && (0..nb).all(|t| s.tasks[t].st != TSt::NotSpawned || true));
            if !ok {
                return Err(mm(
                    "ended-early",
                    format!("execution ended normally but in every model state some task is unfinished; e.g. {:?}", set.iter().next().map(brief)),
                    stats.steps,
                ));
            }
        }
        Some(msg) => {
            if let Some(ids) = parse_deadlock_tasks(msg) {
                let reported: BTreeSet<usize> = ids.iter().filter_map(|i| body_of.get(i).cloned()).collect();
                if reported.len() != ids.len() {
                    return Err(mm("deadlock-report-unknown-task", format!("deadlock report {:?} names unknown tasks", msg), stats.steps));
                }
                let mut any_quiescent = false;
                let mut any_match = false;
                for s in &set {
                    let en: Vec<usize> = (0..nb).filter(|t| enabled(p, s, *t) && !parked_waiting(s, *t)).collect();
                    if en.is_empty() {
                        any_quiescent = true;
                        let unfinished: BTreeSet<usize> = (0..nb)
                            .filter(|t| !matches!(s.tasks[*t].st, TSt::Done | TSt::NotSpawned))
                            .collect();
                        if unfinished == reported && !unfinished.is_empty() {
                            any_match = true;
                        }
                    }
                }
                if !any_quiescent {
                    return Err(mm(
                        "false-deadlock",
                        format!(
                            "runtime reports {:?} but in every model state some task can run; e.g. {:?}",
                            msg,
                            set.iter().next().map(brief)
                        ),
                        stats.steps,
                    ));
                }
                if !any_match {
                    return Err(mm(
                        "deadlock-report-wrong-tasks",
                        format!("runtime reports {:?} (bodies {:?}) but the unfinished tasks of the model differ; e.g. {:?}", msg, reported, set.iter().next().map(brief)),
                        stats.steps,
                    ));
                }
                *stats.probes.entry("deadlock_verdict_checked".into()).or_insert(0) += 1;
            }
        }
    }
    Ok(stats)
}

pub fn brief(s: &MState) -> String {
    let ts: Vec<String> = s
        .tasks
        .iter()
        .enumerate()
        .map(|(i, t)| format!("b{}:{:?}@{}{}", i, t.st, t.label, if t.parked { "(parked)" } else { "" }))
        .collect();
    format!(
        "tasks[{}] mutex{:?} rw{:?} cv{:?} chan{:?} once{:?} sem{:?}",
        ts.join(" "),
        s.mutex.iter().map(|m| m.owner).collect::<Vec<_>>(),
        s.rw.iter().map(|r| (r.readers.len(), r.writer)).collect::<Vec<_>>(),
        s.cv,
        s.chan.iter().map(|c| (c.buf.len(), c.senders, c.rx_alive, c.send_q.clone(), c.rx_waiting)).collect::<Vec<_>>(),
        s.once,
        s.sem
    )
}

// ------------------------------------------------------------------------------------------------
// Outcome enumeration for tiny programs (oracle E of DESIGN.md): all outcomes that some
// interleaving of the model's micro-operations allows. This computes the *oracle* for C02; the
// runtime side is explored by seeded / scripted schedules.
// ------------------------------------------------------------------------------------------------

#[derive(Clone, Debug, PartialEq, Eq, PartialOrd, Ord, Hash)]
pub struct Outcome {
    /// per body: results of its completed operations, in order ("*" where the model predicts nothing)
    pub results: Vec<Vec<String>>,
    /// None = every task finished; Some(set) = deadlock with these bodies unfinished
    pub deadlock: Option<Vec<usize>>,
}

/// normalise a result for outcome comparison (values the model does not predict become "*")
pub fn norm_result(op: &Op, val: &str) -> String {
    match op {
        Op::Spawn(_) | Op::ScopedSpawn(_) | Op::TlsWith(_) | Op::Rand(_) => "*".into(),
        // which member of a released group is the leader is an implementation choice
        Op::BarrierWait(_) => "ret".into(),
        Op::ThreadInfo => "*".into(),
        _ => val.to_string(),
    }
}

fn micro_enum(s: &MState, t: usize, op: &Op, j: u8, uv: u64) -> Option<Vec<Out>> {
    if matches!(op, Op::CallOnce(..) | Op::StaticOnce(_) | Op::LazyGet(_)) && j == 2 {
        let o = once_slot(s, op);
        if s.once[o].phase == 1 && s.once[o].lock == Some(t) {
            let mut n = s.clone();
            n.once[o].phase = 2;
            return Some(vec![Out::Cont(n)]);
        }
    }
    micro(s, t, op, j, uv)
}

/// `spurious`: allow parked tasks to wake spuriously (the *allowed* outcome set); without it the
/// result is the set of outcomes that need no spurious wake-up (the *required* set).
pub fn enumerate_outcomes(p: &Program, cap: usize, spurious_ok: bool) -> Option<BTreeSet<Outcome>> {
    type Node = (MState, Vec<Vec<String>>);
    let nb = p.bodies.len();
    let labels: Vec<Vec<String>> = (0..nb).map(|b| p.labels(b)).collect();
    let mut seen: BTreeSet<Node> = BTreeSet::new();
    let mut stack: Vec<Node> = vec![(init_state(p), vec![vec![]; nb])];
    let mut outcomes = BTreeSet::new();
    while let Some((s, res)) = stack.pop() {
        if !seen.insert((s.clone(), res.clone())) {
            continue;
        }
        if seen.len() > cap {
            return None;
        }
        let mut succ: Vec<Node> = vec![];
        let mut real_moves = 0usize; // successors that do not rely on a spurious wake-up
        for t in 0..nb {
            let before = succ.len();
            let mut spurious = false;
            match &s.tasks[t].st {
                TSt::NotSpawned | TSt::Done => {}
                TSt::Exiting => {
                    let mut n = s.clone();
                    n.tasks[t].st = TSt::Done;
                    succ.push((n, res.clone()));
                }
                TSt::Idle => {
                    let mut n = s.clone();
                    if s.tasks[t].pc < labels[t].len() {
                        n.tasks[t].st = TSt::Pending { micro: 0, tries: 0 };
                        n.tasks[t].label = labels[t][s.tasks[t].pc].clone();
                    } else {
                        // implicit release of the guards still held, one at a time and in the interpreter's
                        // order (each release is a separate visible operation with its own choice point)
                        let mut released = false;
                        for m in 0..n.mutex.len() {
                            if n.mutex[m].owner == Some(t) {
                                n.mutex[m].owner = None;
                                released = true;
                                break;
                            }
                        }
                        if !released {
                            for r in 0..n.rw.len() {
                                if n.rw[r].readers.remove(&t) {
                                    released = true;
                                    break;
                                }
                                if n.rw[r].writer == Some(t) {
                                    n.rw[r].writer = None;
                                    released = true;
                                    break;
                                }
                            }
                        }
                        if !released {
                            n.tasks[t].st = TSt::Exiting;
                        }
                    }
                    succ.push((n, res.clone()));
                }
                TSt::Pending { micro: j, .. } => {
                    let (op, uv) = match op_for_label(p, t, &s.tasks[t].label) {
                        Some(x) => x,
                        None => continue,
                    };
                    if matches!(op, Op::Fail) {
                        continue;
                    }
                    // a parked task may always wake spuriously
                    let s2 = if spurious_ok && matches!(op, Op::Park) && *j == 1 && !s.tasks[t].woken {
                        let mut w = s.clone();
                        w.tasks[t].woken = true;
                        spurious = true;
                        w
                    } else {
                        s.clone()
                    };
                    if let Some(outs) = micro_enum(&s2, t, &op, *j, uv) {
                        for o in outs {
                            match o {
                                Out::Cont(mut n) => {
                                    n.tasks[t].st = TSt::Pending { micro: *j + 1, tries: 0 };
                                    succ.push((n, res.clone()));
                                }
                                Out::Done(mut n, r) => {
                                    n.tasks[t].st = TSt::Idle;
                                    n.tasks[t].pc = s.tasks[t].pc + 1;
                                    n.tasks[t].label.clear();
                                    let mut res2 = res.clone();
                                    let val = match &r {
                                        Res::Exact(v) => norm_result(&op, v),
                                        _ => "*".into(),
                                    };
                                    res2[t].push(val);
                                    succ.push((n, res2));
                                }
                            }
                        }
                    }
                }
            }
            if !spurious {
                real_moves += succ.len() - before;
            }
        }
        if real_moves == 0 {
            let unfinished: Vec<usize> = (0..nb).filter(|t| !matches!(s.tasks[*t].st, TSt::Done | TSt::NotSpawned)).collect();
            outcomes.insert(Outcome { results: res.clone(), deadlock: if unfinished.is_empty() { None } else { Some(unfinished) } });
            // spurious wake-ups are permitted, never required: when nothing else can run the
            // runtime reports the deadlock and does not offer them
            continue;
        }
        stack.extend(succ);
    }
    Some(outcomes)
}
