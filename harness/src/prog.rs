//! Program DSL over the real shuttle std-level primitives, its seeded generator and the
//! interpreter that executes a program inside a Shuttle execution while logging Start / End
//! events (with results) to the simulator's event log.
//!
//! Every operation is total: an operation whose precondition does not hold (unlock of a lock
//! that is not held, wait without the mutex, ...) is skipped with result "skip", identically in
//! the interpreter and in the reference model, so any sub-sequence of a program is a program
//! (which is what makes shrinking trivial).

use crate::sim::{log, Rng};
use serde::{Deserialize, Serialize};
use shuttle::sync::atomic::{AtomicU64, Ordering};
use shuttle::sync::mpsc;
use shuttle::sync::{Barrier, Condvar, Mutex, MutexGuard, Once, RwLock, RwLockReadGuard, RwLockWriteGuard};
use shuttle::thread;
use std::sync::Arc;
use std::sync::Mutex as StdMutex;

#[derive(Clone, Debug, PartialEq, Eq, Serialize, Deserialize, PartialOrd, Ord, Hash)]
pub enum Op {
    Spawn(usize),
    Join(usize),
    Lock(usize),
    TryLock(usize),
    Unlock(usize),
    Read(usize),
    Write(usize),
    TryRead(usize),
    TryWrite(usize),
    UnlockRead(usize),
    UnlockWrite(usize),
    Wait(usize, usize),
    NotifyOne(usize),
    NotifyAll(usize),
    BarrierWait(usize),
    CallOnce(usize, bool),
    IsCompleted(usize),
    ALoad(usize),
    AStore(usize),
    AAdd(usize, u64),
    ASwap(usize),
    ACas(usize),
    Send(usize),
    TrySend(usize),
    Recv(usize),
    TryRecv(usize),
    DropTx(usize),
    DropRx(usize),
    Park,
    UnparkChild(usize),
    UnparkParent,
    Yield,
    Sleep,
    Spin,
    Rand(u64),
    /// caught panic while holding the locks acquired by the inner ops (poisoning)
    Catch(Vec<Op>),
    /// uncaught panic
    Fail,
}

#[derive(Clone, Debug, PartialEq, Eq, Serialize, Deserialize, Default)]
pub struct Resources {
    pub mutexes: usize,
    pub rwlocks: usize,
    pub condvars: usize,
    /// barrier bounds
    pub barriers: Vec<usize>,
    pub onces: usize,
    pub atomics: usize,
    /// channel capacities: None = unbounded
    pub chans: Vec<Option<usize>>,
    /// body that owns the receiver of channel i
    pub rx_owner: Vec<usize>,
}

#[derive(Clone, Debug, PartialEq, Eq, Serialize, Deserialize, Default)]
pub struct Program {
    pub res: Resources,
    /// bodies[0] is the main thread; every other body is spawned by exactly one Spawn op
    pub bodies: Vec<Vec<Op>>,
}

impl Program {
    pub fn op_count(&self) -> usize {
        self.bodies.iter().map(|b| b.len()).sum()
    }
    /// bodies that mention Send/TrySend/DropTx on channel c
    pub fn senders_of(&self, c: usize) -> Vec<usize> {
        fn mentions(ops: &[Op], c: usize) -> bool {
            ops.iter().any(|o| match o {
                Op::Send(x) | Op::TrySend(x) | Op::DropTx(x) => *x == c,
                Op::Catch(inner) => mentions(inner, c),
                _ => false,
            })
        }
        (0..self.bodies.len()).filter(|b| mentions(&self.bodies[*b], c)).collect()
    }
    pub fn parent_of(&self, body: usize) -> Option<usize> {
        for (b, ops) in self.bodies.iter().enumerate() {
            if ops.iter().any(|o| matches!(o, Op::Spawn(x) if *x == body)) {
                return Some(b);
            }
        }
        None
    }
    /// a program is well formed if every non-main body is spawned exactly once, by a body with a
    /// smaller index (so the spawn relation is a tree)
    pub fn well_formed(&self) -> bool {
        let mut count = vec![0; self.bodies.len()];
        for (b, ops) in self.bodies.iter().enumerate() {
            for o in ops {
                if let Op::Spawn(x) = o {
                    if *x >= self.bodies.len() || *x <= b {
                        return false;
                    }
                    count[*x] += 1;
                }
            }
        }
        count.iter().skip(1).all(|c| *c <= 1)
    }
}

pub fn unique_val(body: usize, idx: usize) -> u64 {
    (body as u64 + 1) * 1000 + idx as u64
}

// ---------------------------------------------------------------------------------------------
// Interpreter
// ---------------------------------------------------------------------------------------------

enum Tx {
    Unbounded(mpsc::Sender<u64>),
    Bounded(mpsc::SyncSender<u64>),
}

pub struct Ctx {
    prog: Arc<Program>,
    mutexes: Vec<Mutex<u64>>,
    rwlocks: Vec<RwLock<u64>>,
    condvars: Vec<Condvar>,
    barriers: Vec<Barrier>,
    onces: Vec<Once>,
    atomics: Vec<AtomicU64>,
    tx: Vec<Vec<StdMutex<Option<Tx>>>>,
    rx: Vec<StdMutex<Option<mpsc::Receiver<u64>>>>,
    parent_thread: Vec<StdMutex<Option<thread::Thread>>>,
    /// direct monitors (interpreter-level, model independent)
    pub mon: StdMutex<Monitors>,
}

#[derive(Default, Debug, Clone)]
pub struct Monitors {
    pub mutex_holders: Vec<i32>,
    pub rw_readers: Vec<i32>,
    pub rw_writers: Vec<i32>,
    pub once_inits: Vec<u32>,
    pub violations: Vec<String>,
}

thread_local! {
    static LAST_MONITORS: std::cell::RefCell<Monitors> = std::cell::RefCell::new(Monitors::default());
}

pub fn take_monitor_violations() -> Vec<String> {
    LAST_MONITORS.with(|m| std::mem::take(&mut m.borrow_mut().violations))
}

fn mon_violation(s: String) {
    LAST_MONITORS.with(|m| m.borrow_mut().violations.push(s));
}

struct Local {
    // guards first: dropped before ctx
    mguards: Vec<Option<MutexGuard<'static, u64>>>,
    rguards: Vec<Option<RwLockReadGuard<'static, u64>>>,
    wguards: Vec<Option<RwLockWriteGuard<'static, u64>>>,
    handles: Vec<Option<thread::JoinHandle<usize>>>,
    tx: Vec<Option<Tx>>,
    rx: Vec<Option<mpsc::Receiver<u64>>>,
    seen: Vec<u64>,
    body: usize,
    ctx: Arc<Ctx>,
}

impl Ctx {
    fn new(prog: Arc<Program>) -> Arc<Ctx> {
        let r = &prog.res;
        let nb = prog.bodies.len();
        let mut tx = vec![];
        let mut rx = vec![];
        for (c, cap) in r.chans.iter().enumerate() {
            let senders = prog.senders_of(c);
            let mut slots: Vec<StdMutex<Option<Tx>>> = (0..nb).map(|_| StdMutex::new(None)).collect();
            match cap {
                None => {
                    let (t, rcv) = mpsc::channel::<u64>();
                    for b in &senders {
                        slots[*b] = StdMutex::new(Some(Tx::Unbounded(t.clone())));
                    }
                    drop(t);
                    rx.push(StdMutex::new(Some(rcv)));
                }
                Some(k) => {
                    let (t, rcv) = mpsc::sync_channel::<u64>(*k);
                    for b in &senders {
                        slots[*b] = StdMutex::new(Some(Tx::Bounded(t.clone())));
                    }
                    drop(t);
                    rx.push(StdMutex::new(Some(rcv)));
                }
            }
            tx.push(slots);
        }
        Arc::new(Ctx {
            mutexes: (0..r.mutexes).map(|_| Mutex::new(0)).collect(),
            rwlocks: (0..r.rwlocks).map(|_| RwLock::new(0)).collect(),
            condvars: (0..r.condvars).map(|_| Condvar::new()).collect(),
            barriers: r.barriers.iter().map(|n| Barrier::new(*n)).collect(),
            onces: (0..r.onces).map(|_| Once::new()).collect(),
            atomics: (0..r.atomics).map(|_| AtomicU64::new(0)).collect(),
            tx,
            rx,
            parent_thread: (0..nb).map(|_| StdMutex::new(None)).collect(),
            mon: StdMutex::new(Monitors {
                mutex_holders: vec![0; r.mutexes],
                rw_readers: vec![0; r.rwlocks],
                rw_writers: vec![0; r.rwlocks],
                once_inits: vec![0; r.onces],
                violations: vec![],
            }),
            prog,
        })
    }
}

/// Execute `prog` as the body of a Shuttle execution (call from inside `Runner::run`).
pub fn run_program(prog: &Arc<Program>) {
    let ctx = Ctx::new(prog.clone());
    run_body(ctx, 0);
}

fn run_body(ctx: Arc<Ctx>, body: usize) -> usize {
    let prog = ctx.prog.clone();
    let r = &prog.res;
    let mut l = Local {
        mguards: (0..r.mutexes).map(|_| None).collect(),
        rguards: (0..r.rwlocks).map(|_| None).collect(),
        wguards: (0..r.rwlocks).map(|_| None).collect(),
        handles: vec![],
        tx: (0..r.chans.len()).map(|c| ctx.tx[c][body].lock().unwrap().take()).collect(),
        rx: (0..r.chans.len())
            .map(|c| if r.rx_owner[c] == body { ctx.rx[c].lock().unwrap().take() } else { None })
            .collect(),
        seen: vec![0; r.atomics],
        body,
        ctx: ctx.clone(),
    };
    log("B", body.to_string(), "");
    let ops = &prog.bodies[body];
    for (i, op) in ops.iter().enumerate() {
        exec_op(&mut l, &i.to_string(), i, op);
    }
    // Anything still held is parked in the context so that the end of the body has no effect that
    // the log does not show (the context lives until the execution is torn down).
    for (c, t) in l.tx.iter_mut().enumerate() {
        if let Some(t) = t.take() {
            *ctx.tx[c][body].lock().unwrap() = Some(t);
        }
    }
    for (c, rcv) in l.rx.iter_mut().enumerate() {
        if let Some(rcv) = rcv.take() {
            *ctx.rx[c].lock().unwrap() = Some(rcv);
        }
    }
    // guards still held are released here, visibly: logged as implicit unlock operations
    for m in 0..l.mguards.len() {
        if l.mguards[m].is_some() {
            exec_op(&mut l, &format!("x{}", m), usize::MAX, &Op::Unlock(m));
        }
    }
    for m in 0..l.rguards.len() {
        if l.rguards[m].is_some() {
            exec_op(&mut l, &format!("xr{}", m), usize::MAX, &Op::UnlockRead(m));
        }
        if l.wguards[m].is_some() {
            exec_op(&mut l, &format!("xw{}", m), usize::MAX, &Op::UnlockWrite(m));
        }
    }
    log("X", body.to_string(), "");
    body
}

fn holds_any(l: &Local, m: usize) -> bool {
    l.mguards[m].is_some()
}

fn mon_mutex(ctx: &Ctx, m: usize, delta: i32) {
    let mut mon = ctx.mon.lock().unwrap();
    mon.mutex_holders[m] += delta;
    if mon.mutex_holders[m] > 1 || mon.mutex_holders[m] < 0 {
        mon_violation(format!("mutex {} has {} holders", m, mon.mutex_holders[m]));
    }
}

fn mon_rw(ctx: &Ctx, r: usize, dr: i32, dw: i32) {
    let mut mon = ctx.mon.lock().unwrap();
    mon.rw_readers[r] += dr;
    mon.rw_writers[r] += dw;
    let (nr, nw) = (mon.rw_readers[r], mon.rw_writers[r]);
    if nw > 1 || nw < 0 || nr < 0 || (nw == 1 && nr > 0) {
        mon_violation(format!("rwlock {} has {} readers and {} writers", r, nr, nw));
    }
}

unsafe fn ext_m<'a>(g: MutexGuard<'a, u64>) -> MutexGuard<'static, u64> {
    std::mem::transmute(g)
}
unsafe fn ext_r<'a>(g: RwLockReadGuard<'a, u64>) -> RwLockReadGuard<'static, u64> {
    std::mem::transmute(g)
}
unsafe fn ext_w<'a>(g: RwLockWriteGuard<'a, u64>) -> RwLockWriteGuard<'static, u64> {
    std::mem::transmute(g)
}

/// Releases, while unwinding, the guards acquired inside a `Catch` block (this is what poisons).
struct CatchScope<'a> {
    l: &'a mut Local,
    m_before: Vec<bool>,
    w_before: Vec<bool>,
    r_before: Vec<bool>,
}

impl Drop for CatchScope<'_> {
    fn drop(&mut self) {
        for m in 0..self.l.mguards.len() {
            if self.l.mguards[m].is_some() && !self.m_before[m] {
                mon_mutex(&self.l.ctx, m, -1);
                self.l.mguards[m] = None;
            }
        }
        for r in 0..self.l.wguards.len() {
            if self.l.wguards[r].is_some() && !self.w_before[r] {
                mon_rw(&self.l.ctx, r, 0, -1);
                self.l.wguards[r] = None;
            }
            if self.l.rguards[r].is_some() && !self.r_before[r] {
                mon_rw(&self.l.ctx, r, -1, 0);
                self.l.rguards[r] = None;
            }
        }
    }
}

fn exec_op(l: &mut Local, label: &str, idx: usize, op: &Op) {
    let ctx = l.ctx.clone();
    let body = l.body;
    let uv = if idx == usize::MAX { 0 } else { unique_val(body, idx) };
    log("S", label, "");
    let res: String = match op {
        Op::Spawn(b) => {
            let b = *b;
            *ctx.parent_thread[b].lock().unwrap() = Some(thread::current());
            let c2 = ctx.clone();
            let h = thread::spawn(move || run_body(c2, b));
            let tid: usize = h.thread().id().into();
            l.handles.push(Some(h));
            tid.to_string()
        }
        Op::Join(slot) => match l.handles.get_mut(*slot).and_then(|h| h.take()) {
            Some(h) => match h.join() {
                Ok(v) => format!("ok:{}", v),
                Err(_) => "panicked".to_string(),
            },
            None => "skip".into(),
        },
        Op::Lock(m) => {
            if holds_any(l, *m) {
                "skip".into()
            } else {
                let (mut g, tag) = match ctx.mutexes[*m].lock() {
                    Ok(g) => (g, "ok"),
                    Err(e) => (e.into_inner(), "poison"),
                };
                mon_mutex(&ctx, *m, 1);
                let v = *g;
                *g = uv;
                l.mguards[*m] = Some(unsafe { ext_m(g) });
                format!("{}:{}", tag, v)
            }
        }
        Op::TryLock(m) => match ctx.mutexes[*m].try_lock() {
            Ok(mut g) => {
                mon_mutex(&ctx, *m, 1);
                let v = *g;
                *g = uv;
                if l.mguards[*m].is_some() {
                    mon_violation(format!("try_lock of mutex {} succeeded while the caller holds it", m));
                }
                l.mguards[*m] = Some(unsafe { ext_m(g) });
                format!("ok:{}", v)
            }
            Err(std::sync::TryLockError::Poisoned(e)) => {
                let mut g = e.into_inner();
                mon_mutex(&ctx, *m, 1);
                let v = *g;
                *g = uv;
                l.mguards[*m] = Some(unsafe { ext_m(g) });
                format!("poison:{}", v)
            }
            Err(std::sync::TryLockError::WouldBlock) => "wouldblock".into(),
        },
        Op::Unlock(m) => {
            if l.mguards[*m].is_some() {
                mon_mutex(&ctx, *m, -1);
                l.mguards[*m] = None;
                "ok".into()
            } else {
                "skip".into()
            }
        }
        Op::Read(r) => {
            if l.rguards[*r].is_some() || l.wguards[*r].is_some() {
                "skip".into()
            } else {
                let (g, tag) = match ctx.rwlocks[*r].read() {
                    Ok(g) => (g, "ok"),
                    Err(e) => (e.into_inner(), "poison"),
                };
                mon_rw(&ctx, *r, 1, 0);
                let v = *g;
                l.rguards[*r] = Some(unsafe { ext_r(g) });
                format!("{}:{}", tag, v)
            }
        }
        Op::Write(r) => {
            if l.rguards[*r].is_some() || l.wguards[*r].is_some() {
                "skip".into()
            } else {
                let (mut g, tag) = match ctx.rwlocks[*r].write() {
                    Ok(g) => (g, "ok"),
                    Err(e) => (e.into_inner(), "poison"),
                };
                mon_rw(&ctx, *r, 0, 1);
                let v = *g;
                *g = uv;
                l.wguards[*r] = Some(unsafe { ext_w(g) });
                format!("{}:{}", tag, v)
            }
        }
        Op::TryRead(r) => match ctx.rwlocks[*r].try_read() {
            Ok(g) => {
                mon_rw(&ctx, *r, 1, 0);
                let v = *g;
                if l.rguards[*r].is_some() {
                    // a second shared guard of the same task: keep the first, drop this one visibly later
                    mon_violation(format!("re-entrant try_read of rwlock {} succeeded", r));
                }
                l.rguards[*r] = Some(unsafe { ext_r(g) });
                format!("ok:{}", v)
            }
            Err(std::sync::TryLockError::Poisoned(e)) => {
                let g = e.into_inner();
                mon_rw(&ctx, *r, 1, 0);
                let v = *g;
                l.rguards[*r] = Some(unsafe { ext_r(g) });
                format!("poison:{}", v)
            }
            Err(std::sync::TryLockError::WouldBlock) => "wouldblock".into(),
        },
        Op::TryWrite(r) => match ctx.rwlocks[*r].try_write() {
            Ok(mut g) => {
                mon_rw(&ctx, *r, 0, 1);
                let v = *g;
                *g = uv;
                l.wguards[*r] = Some(unsafe { ext_w(g) });
                format!("ok:{}", v)
            }
            Err(std::sync::TryLockError::Poisoned(e)) => {
                let mut g = e.into_inner();
                mon_rw(&ctx, *r, 0, 1);
                let v = *g;
                *g = uv;
                l.wguards[*r] = Some(unsafe { ext_w(g) });
                format!("poison:{}", v)
            }
            Err(std::sync::TryLockError::WouldBlock) => "wouldblock".into(),
        },
        Op::UnlockRead(r) => {
            if l.rguards[*r].is_some() {
                mon_rw(&ctx, *r, -1, 0);
                l.rguards[*r] = None;
                "ok".into()
            } else {
                "skip".into()
            }
        }
        Op::UnlockWrite(r) => {
            if l.wguards[*r].is_some() {
                mon_rw(&ctx, *r, 0, -1);
                l.wguards[*r] = None;
                "ok".into()
            } else {
                "skip".into()
            }
        }
        Op::Wait(cv, m) => match l.mguards[*m].take() {
            Some(g) => {
                mon_mutex(&ctx, *m, -1);
                let (g, tag) = match ctx.condvars[*cv].wait(g) {
                    Ok(g) => (g, "ok"),
                    Err(e) => (e.into_inner(), "poison"),
                };
                mon_mutex(&ctx, *m, 1);
                let v = *g;
                l.mguards[*m] = Some(g);
                format!("{}:{}", tag, v)
            }
            None => "skip".into(),
        },
        Op::NotifyOne(cv) => {
            ctx.condvars[*cv].notify_one();
            "".into()
        }
        Op::NotifyAll(cv) => {
            ctx.condvars[*cv].notify_all();
            "".into()
        }
        Op::BarrierWait(b) => {
            if ctx.barriers[*b].wait().is_leader() {
                "leader".into()
            } else {
                "follower".into()
            }
        }
        Op::CallOnce(o, yield_inside) => {
            let o = *o;
            let yi = *yield_inside;
            let c2 = ctx.clone();
            ctx.onces[o].call_once(move || {
                {
                    let mut mon = c2.mon.lock().unwrap();
                    mon.once_inits[o] += 1;
                    if mon.once_inits[o] > 1 {
                        mon_violation(format!("once {} initialiser ran {} times", o, mon.once_inits[o]));
                    }
                }
                log("I", o.to_string(), body.to_string());
                if yi {
                    thread::yield_now();
                    log("Y", "", "");
                }
                log("J", o.to_string(), body.to_string());
            });
            "".into()
        }
        Op::IsCompleted(o) => ctx.onces[*o].is_completed().to_string(),
        Op::ALoad(a) => {
            let v = ctx.atomics[*a].load(Ordering::SeqCst);
            l.seen[*a] = v;
            v.to_string()
        }
        Op::AStore(a) => {
            ctx.atomics[*a].store(uv, Ordering::SeqCst);
            l.seen[*a] = uv;
            "".into()
        }
        Op::AAdd(a, n) => {
            let v = ctx.atomics[*a].fetch_add(*n, Ordering::SeqCst);
            l.seen[*a] = v.wrapping_add(*n);
            v.to_string()
        }
        Op::ASwap(a) => {
            let v = ctx.atomics[*a].swap(uv, Ordering::SeqCst);
            l.seen[*a] = uv;
            v.to_string()
        }
        Op::ACas(a) => match ctx.atomics[*a].compare_exchange(l.seen[*a], uv, Ordering::SeqCst, Ordering::SeqCst) {
            Ok(v) => {
                l.seen[*a] = uv;
                format!("ok:{}", v)
            }
            Err(v) => {
                l.seen[*a] = v;
                format!("err:{}", v)
            }
        },
        Op::Send(c) => match &l.tx[*c] {
            Some(Tx::Unbounded(t)) => if t.send(uv).is_ok() { "ok".into() } else { "err".into() },
            Some(Tx::Bounded(t)) => if t.send(uv).is_ok() { "ok".into() } else { "err".into() },
            None => "skip".into(),
        },
        Op::TrySend(c) => match &l.tx[*c] {
            Some(Tx::Unbounded(t)) => if t.send(uv).is_ok() { "ok".into() } else { "disc".into() },
            Some(Tx::Bounded(t)) => match t.try_send(uv) {
                Ok(()) => "ok".into(),
                Err(mpsc::TrySendError::Full(_)) => "full".into(),
                Err(mpsc::TrySendError::Disconnected(_)) => "disc".into(),
            },
            None => "skip".into(),
        },
        Op::Recv(c) => match &l.rx[*c] {
            Some(r) => match r.recv() {
                Ok(v) => v.to_string(),
                Err(_) => "disc".into(),
            },
            None => "skip".into(),
        },
        Op::TryRecv(c) => match &l.rx[*c] {
            Some(r) => match r.try_recv() {
                Ok(v) => v.to_string(),
                Err(mpsc::TryRecvError::Empty) => "empty".into(),
                Err(mpsc::TryRecvError::Disconnected) => "disc".into(),
            },
            None => "skip".into(),
        },
        Op::DropTx(c) => {
            if l.tx[*c].take().is_some() {
                "ok".into()
            } else {
                "skip".into()
            }
        }
        Op::DropRx(c) => {
            if l.rx[*c].take().is_some() {
                "ok".into()
            } else {
                "skip".into()
            }
        }
        Op::Park => {
            thread::park();
            "".into()
        }
        Op::UnparkChild(slot) => match l.handles.get(*slot).and_then(|h| h.as_ref()) {
            Some(h) => {
                h.thread().unpark();
                "ok".into()
            }
            None => "skip".into(),
        },
        Op::UnparkParent => {
            let t = ctx.parent_thread[body].lock().unwrap().clone();
            match t {
                Some(t) => {
                    t.unpark();
                    "ok".into()
                }
                None => "skip".into(),
            }
        }
        Op::Yield => {
            thread::yield_now();
            "".into()
        }
        Op::Sleep => {
            thread::sleep(std::time::Duration::from_millis(1));
            "".into()
        }
        Op::Spin => {
            shuttle::hint::spin_loop();
            "".into()
        }
        Op::Rand(bound) => {
            use shuttle::rand::RngCore;
            let v = shuttle::rand::thread_rng().next_u64();
            (v % (*bound).max(1)).to_string()
        }
        Op::Catch(inner) => {
            let m_before: Vec<bool> = l.mguards.iter().map(|g| g.is_some()).collect();
            let w_before: Vec<bool> = l.wguards.iter().map(|g| g.is_some()).collect();
            let r_before: Vec<bool> = l.rguards.iter().map(|g| g.is_some()).collect();
            let inner = inner.clone();
            let label = label.to_string();
            let r = std::panic::catch_unwind(std::panic::AssertUnwindSafe(|| {
                let scope = CatchScope { l, m_before, w_before, r_before };
                for (j, op) in inner.iter().enumerate() {
                    exec_op(scope.l, &format!("{}.{}", label, j), idx * 100 + j, op);
                }
                log("P", label.clone(), "");
                panic!("caught-panic");
            }));
            match r {
                Err(p) => {
                    let s = crate::sim::payload_to_string(&*p);
                    if s == "caught-panic" {
                        "caught".into()
                    } else {
                        // not ours: a panic raised inside Shuttle; re-raise
                        std::panic::resume_unwind(p)
                    }
                }
                Ok(()) => unreachable!(),
            }
        }
        Op::Fail => {
            log("F", label, "");
            panic!("fail:{}:{}", body, label);
        }
    };
    log("E", label, res);
}

// ---------------------------------------------------------------------------------------------
// Generator (swarm style: each program enables a random subset of primitive families)
// ---------------------------------------------------------------------------------------------

#[derive(Clone, Debug, Serialize, Deserialize)]
pub struct GenCfg {
    pub max_bodies: usize,
    pub max_ops: usize,
    pub mutex: bool,
    pub rwlock: bool,
    pub condvar: bool,
    pub barrier: bool,
    pub once: bool,
    pub atomic: bool,
    pub chan: bool,
    pub park: bool,
    pub yields: bool,
    pub rand: bool,
    pub trylock: bool,
    pub catch: bool,
    pub fail: bool,
    pub join_prob: u32, // of 8
}

impl GenCfg {
    pub fn all() -> Self {
        GenCfg {
            max_bodies: 4,
            max_ops: 5,
            mutex: true,
            rwlock: true,
            condvar: true,
            barrier: true,
            once: true,
            atomic: true,
            chan: true,
            park: true,
            yields: true,
            rand: true,
            trylock: true,
            catch: false,
            fail: false,
            join_prob: 6,
        }
    }
    pub fn none() -> Self {
        GenCfg {
            max_bodies: 3,
            max_ops: 4,
            mutex: false,
            rwlock: false,
            condvar: false,
            barrier: false,
            once: false,
            atomic: false,
            chan: false,
            park: false,
            yields: false,
            rand: false,
            trylock: false,
            catch: false,
            fail: false,
            join_prob: 6,
        }
    }
    /// swarm: enable each family with probability 1/2 (at least one)
    pub fn swarm(rng: &mut Rng) -> Self {
        let mut c = GenCfg::all();
        loop {
            c.mutex = rng.chance(1, 2);
            c.rwlock = rng.chance(1, 3);
            c.condvar = rng.chance(1, 3);
            c.barrier = rng.chance(1, 4);
            c.once = rng.chance(1, 4);
            c.atomic = rng.chance(1, 2);
            c.chan = rng.chance(1, 3);
            c.park = rng.chance(1, 5);
            c.yields = rng.chance(1, 3);
            c.rand = rng.chance(1, 4);
            c.trylock = rng.chance(1, 2);
            if c.mutex || c.rwlock || c.atomic || c.chan || c.barrier || c.once || c.park {
                break;
            }
        }
        if c.condvar {
            c.mutex = true;
        }
        c.max_bodies = rng.range(2, 4);
        c.max_ops = rng.range(2, 6);
        c
    }
}

pub fn gen_program(rng: &mut Rng, cfg: &GenCfg) -> Program {
    let nb = rng.range(2, cfg.max_bodies.max(2));
    let mut res = Resources::default();
    if cfg.mutex {
        res.mutexes = rng.range(1, 2);
    }
    if cfg.rwlock {
        res.rwlocks = 1;
    }
    if cfg.condvar {
        res.condvars = 1;
    }
    if cfg.barrier {
        res.barriers = vec![rng.range(1, nb.min(3))];
    }
    if cfg.once {
        res.onces = 1;
    }
    if cfg.atomic {
        res.atomics = rng.range(1, 2);
    }
    if cfg.chan {
        let n = 1;
        for _ in 0..n {
            let cap = match rng.below(4) {
                0 => None,
                1 => Some(0),
                2 => Some(1),
                _ => Some(2),
            };
            res.chans.push(cap);
            res.rx_owner.push(rng.below(nb));
        }
    }
    let mut bodies: Vec<Vec<Op>> = vec![vec![]; nb];
    // spawn tree: body b>0 gets a parent < b
    let mut parent = vec![0usize; nb];
    for b in 1..nb {
        parent[b] = rng.below(b);
    }
    for b in 0..nb {
        let n = rng.range(1, cfg.max_ops.max(1));
        let mut ops = vec![];
        let mut held_m: Vec<bool> = vec![false; res.mutexes];
        let mut held_r: Vec<u8> = vec![0; res.rwlocks]; // 1 = read, 2 = write
        for _ in 0..n {
            gen_op(rng, cfg, &res, b, nb, &mut held_m, &mut held_r, &mut ops);
        }
        // release what is still held (mostly)
        for m in 0..res.mutexes {
            if held_m[m] && rng.chance(7, 8) {
                ops.push(Op::Unlock(m));
            }
        }
        for r in 0..res.rwlocks {
            if held_r[r] == 1 && rng.chance(7, 8) {
                ops.push(Op::UnlockRead(r));
            }
            if held_r[r] == 2 && rng.chance(7, 8) {
                ops.push(Op::UnlockWrite(r));
            }
        }
        bodies[b] = ops;
    }
    // insert spawns (and joins) into parents
    for b in (1..nb).rev() {
        let p = parent[b];
        let pos = rng.below(bodies[p].len() + 1);
        bodies[p].insert(pos, Op::Spawn(b));
    }
    // joins: slot k of a body = its k-th Spawn in program order
    for p in 0..nb {
        let nspawn = bodies[p].iter().filter(|o| matches!(o, Op::Spawn(_))).count();
        let mut order: Vec<usize> = (0..nspawn).collect();
        rng.shuffle(&mut order);
        for slot in order {
            if rng.chance(cfg.join_prob, 8) {
                // position after the slot-th spawn
                let mut seen = 0;
                let mut after = 0;
                for (i, o) in bodies[p].iter().enumerate() {
                    if matches!(o, Op::Spawn(_)) {
                        if seen == slot {
                            after = i + 1;
                            break;
                        }
                        seen += 1;
                    }
                }
                let pos = rng.range(after, bodies[p].len());
                bodies[p].insert(pos, Op::Join(slot));
            }
        }
    }
    // channel endpoint drops at the end of bodies (mostly)
    for c in 0..res.chans.len() {
        let prog_tmp = Program { res: res.clone(), bodies: bodies.clone() };
        for b in prog_tmp.senders_of(c) {
            if rng.chance(6, 8) && !bodies[b].iter().any(|o| matches!(o, Op::DropTx(x) if *x == c)) {
                bodies[b].push(Op::DropTx(c));
            }
        }
        if rng.chance(1, 3) {
            let o = res.rx_owner[c];
            let pos = rng.below(bodies[o].len() + 1);
            bodies[o].insert(pos, Op::DropRx(c));
        }
    }
    if cfg.fail && rng.chance(1, 2) {
        let b = rng.below(nb);
        let pos = rng.below(bodies[b].len() + 1);
        bodies[b].insert(pos, Op::Fail);
    }
    Program { res, bodies }
}

#[allow(clippy::too_many_arguments)]
fn gen_op(
    rng: &mut Rng,
    cfg: &GenCfg,
    res: &Resources,
    body: usize,
    _nb: usize,
    held_m: &mut [bool],
    held_r: &mut [u8],
    ops: &mut Vec<Op>,
) {
    let mut kinds: Vec<u32> = vec![];
    if res.mutexes > 0 {
        kinds.extend([0, 0, 0]);
        if cfg.trylock {
            kinds.push(1);
        }
    }
    if res.rwlocks > 0 {
        kinds.extend([2, 2]);
        if cfg.trylock {
            kinds.push(3);
        }
    }
    if res.condvars > 0 {
        kinds.extend([4, 4, 5]);
    }
    if !res.barriers.is_empty() {
        kinds.push(6);
    }
    if res.onces > 0 {
        kinds.extend([7, 8]);
    }
    if res.atomics > 0 {
        kinds.extend([9, 9, 9]);
    }
    if !res.chans.is_empty() {
        kinds.extend([10, 10, 10]);
    }
    if cfg.park {
        kinds.extend([11]);
    }
    if cfg.yields {
        kinds.push(12);
    }
    if cfg.rand {
        kinds.push(13);
    }
    if cfg.catch && (res.mutexes > 0 || res.rwlocks > 0) {
        kinds.push(14);
    }
    if kinds.is_empty() {
        ops.push(Op::Yield);
        return;
    }
    match *rng.pick(&kinds) {
        0 => {
            let m = rng.below(res.mutexes);
            if held_m[m] {
                ops.push(Op::Unlock(m));
                held_m[m] = false;
            } else {
                ops.push(Op::Lock(m));
                held_m[m] = true;
            }
        }
        1 => {
            let m = rng.below(res.mutexes);
            ops.push(Op::TryLock(m));
            // whether it is held afterwards is dynamic; pair it with an unlock most of the time
            if !held_m[m] && rng.chance(3, 4) {
                ops.push(Op::Unlock(m));
            }
        }
        2 => {
            let r = rng.below(res.rwlocks);
            match held_r[r] {
                1 => {
                    ops.push(Op::UnlockRead(r));
                    held_r[r] = 0;
                }
                2 => {
                    ops.push(Op::UnlockWrite(r));
                    held_r[r] = 0;
                }
                _ => {
                    if rng.chance(1, 2) {
                        ops.push(Op::Read(r));
                        held_r[r] = 1;
                    } else {
                        ops.push(Op::Write(r));
                        held_r[r] = 2;
                    }
                }
            }
        }
        3 => {
            let r = rng.below(res.rwlocks);
            if rng.chance(1, 2) {
                ops.push(Op::TryRead(r));
                if held_r[r] == 0 && rng.chance(3, 4) {
                    ops.push(Op::UnlockRead(r));
                }
            } else {
                ops.push(Op::TryWrite(r));
                if held_r[r] == 0 && rng.chance(3, 4) {
                    ops.push(Op::UnlockWrite(r));
                }
            }
        }
        4 => {
            // wait needs a held mutex
            let cv = rng.below(res.condvars);
            let m = 0;
            if !held_m[m] {
                ops.push(Op::Lock(m));
                held_m[m] = true;
            }
            ops.push(Op::Wait(cv, m));
        }
        5 => {
            let cv = rng.below(res.condvars);
            if rng.chance(1, 2) {
                ops.push(Op::NotifyOne(cv));
            } else {
                ops.push(Op::NotifyAll(cv));
            }
        }
        6 => ops.push(Op::BarrierWait(rng.below(res.barriers.len()))),
        7 => ops.push(Op::CallOnce(rng.below(res.onces), rng.chance(1, 2))),
        8 => ops.push(Op::IsCompleted(rng.below(res.onces))),
        9 => {
            let a = rng.below(res.atomics);
            ops.push(match rng.below(5) {
                0 => Op::ALoad(a),
                1 => Op::AStore(a),
                2 => Op::AAdd(a, 1 + rng.below(3) as u64),
                3 => Op::ASwap(a),
                _ => Op::ACas(a),
            });
        }
        10 => {
            let c = rng.below(res.chans.len());
            if res.rx_owner[c] == body && rng.chance(2, 3) {
                ops.push(if rng.chance(2, 3) { Op::Recv(c) } else { Op::TryRecv(c) });
            } else {
                ops.push(if rng.chance(3, 4) { Op::Send(c) } else { Op::TrySend(c) });
            }
        }
        11 => {
            ops.push(match rng.below(3) {
                0 => Op::Park,
                1 => Op::UnparkParent,
                _ => Op::UnparkChild(0),
            });
        }
        12 => ops.push(match rng.below(3) {
            0 => Op::Yield,
            1 => Op::Sleep,
            _ => Op::Spin,
        }),
        13 => ops.push(Op::Rand(2 + rng.below(5) as u64)),
        14 => {
            let mut inner = vec![];
            if res.mutexes > 0 && (res.rwlocks == 0 || rng.chance(1, 2)) {
                let m = rng.below(res.mutexes);
                if !held_m[m] {
                    inner.push(Op::Lock(m));
                }
            } else if res.rwlocks > 0 {
                let r = rng.below(res.rwlocks);
                if held_r[r] == 0 {
                    inner.push(Op::Write(r));
                }
            }
            ops.push(Op::Catch(inner));
        }
        _ => unreachable!(),
    }
}

/// Candidate smaller programs for minimisation: drop one op, drop one leaf body.
pub fn shrink_candidates(p: &Program) -> Vec<Program> {
    let mut out = vec![];
    // drop a leaf body (a body that spawns nothing) together with its Spawn op; later bodies shift down
    for b in (1..p.bodies.len()).rev() {
        if p.bodies[b].iter().any(|o| matches!(o, Op::Spawn(_))) {
            continue;
        }
        let mut q = p.clone();
        q.bodies.remove(b);
        // fix references
        let mut ok = true;
        for (bi, ops) in q.bodies.iter_mut().enumerate() {
            // remove Spawn(b) and renumber joins of the remaining slots
            let mut new_ops = vec![];
            let mut slot = 0usize;
            let mut removed_slot: Option<usize> = None;
            for o in ops.iter() {
                match o {
                    Op::Spawn(x) if *x == b => {
                        removed_slot = Some(slot);
                        slot += 1;
                    }
                    Op::Spawn(x) => {
                        new_ops.push(Op::Spawn(if *x > b { *x - 1 } else { *x }));
                        slot += 1;
                    }
                    other => new_ops.push(other.clone()),
                }
            }
            if let Some(rs) = removed_slot {
                new_ops = new_ops
                    .into_iter()
                    .filter_map(|o| match o {
                        Op::Join(s) if s == rs => None,
                        Op::Join(s) if s > rs => Some(Op::Join(s - 1)),
                        Op::UnparkChild(s) if s == rs => None,
                        Op::UnparkChild(s) if s > rs => Some(Op::UnparkChild(s - 1)),
                        o => Some(o),
                    })
                    .collect();
            }
            let _ = bi;
            *ops = new_ops;
        }
        for o in q.res.rx_owner.iter_mut() {
            if *o == b {
                ok = false;
            } else if *o > b {
                *o -= 1;
            }
        }
        if ok && q.well_formed() {
            out.push(q);
        }
    }
    for b in 0..p.bodies.len() {
        for i in 0..p.bodies[b].len() {
            if matches!(p.bodies[b][i], Op::Spawn(_)) {
                continue;
            }
            let mut q = p.clone();
            let removed = q.bodies[b].remove(i);
            let _ = removed;
            out.push(q);
        }
    }
    out
}
