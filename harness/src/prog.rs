//! Program DSL over the real shuttle std-level primitives, its seeded generator and the
//! interpreter that executes a program inside a Shuttle execution while logging Start / End
//! events (with results) to the simulator's event log.
//!
//! Every operation is total: an operation whose precondition does not hold (unlock of a lock
//! that is not held, wait without the mutex, ...) is skipped with result "skip", identically in
//! the interpreter and in the reference model, so any sub-sequence of a program is a program
//! (which is what makes shrinking trivial).

use crate::sim::{log, Rng};
use serde::{Deserialize, Serialize};
use shuttle::sync::atomic::{AtomicU64, Ordering};
use shuttle::sync::mpsc;
use shuttle_engine::future::batch_semaphore::{BatchSemaphore, Fairness, TryAcquireError};
use shuttle::sync::{Barrier, Condvar, Mutex, MutexGuard, Once, RwLock, RwLockReadGuard, RwLockWriteGuard};
use shuttle::thread;
use std::sync::Arc;
use std::sync::Mutex as StdMutex;

#[derive(Clone, Debug, PartialEq, Eq, Serialize, Deserialize, PartialOrd, Ord, Hash)]
pub enum Op {
    Spawn(usize),
    Join(usize),
    Lock(usize),
    TryLock(usize),
    Unlock(usize),
    Read(usize),
    Write(usize),
    TryRead(usize),
    TryWrite(usize),
    UnlockRead(usize),
    UnlockWrite(usize),
    Wait(usize, usize),
    NotifyOne(usize),
    NotifyAll(usize),
    BarrierWait(usize),
    CallOnce(usize, bool),
    IsCompleted(usize),
    ALoad(usize),
    AStore(usize),
    AAdd(usize, u64),
    ASwap(usize),
    ACas(usize),
    Send(usize),
    TrySend(usize),
    Recv(usize),
    TryRecv(usize),
    DropTx(usize),
    DropRx(usize),
    Park,
    UnparkChild(usize),
    UnparkParent,
    Yield,
    Sleep,
    Spin,
    Rand(u64),
    /// BatchSemaphore (engine level): blocking acquire of n permits
    SemAcquire(usize, usize),
    SemTry(usize, usize),
    SemRelease(usize, usize),
    SemClose(usize),
    /// create an Acquire future for n permits, poll it `polls` (1 or 2) times with a scheduling
    /// point in between, then drop it unfinished (cancellation); if it completes it is released
    SemCancel(usize, usize, usize),
    /// create an Acquire future for n permits, poll it once and, if it is pending, park it in the
    /// semaphore's stash slot (the future outlives this operation and may outlive the task)
    SemStash(usize, usize),
    /// take the stashed Acquire future (created and first polled by another task) and await it
    SemTakeAwait(usize),
    ResetSteps,
    /// access thread-local key k (0..3) of the static pool
    TlsWith(usize),
    /// force lazy static i (0..2) of the static pool
    LazyGet(usize),
    /// call_once on static Once i (0..2) of the static pool
    StaticOnce(usize),
    /// thread::current() id / name check
    ThreadInfo,
    /// set a custom label on the current task (returns the previous one) / read it
    LabelSet,
    LabelGet,
    /// thread::scope: spawn the listed bodies as scoped threads, run the inner ops in the
    /// owner inside the scope closure, leave the scope (waits for all scoped threads).
    /// Flattened labels: "i.b0".."i.bN" (spawns), "i.0".. (inner ops), "i.end".
    Scope(Vec<usize>, Vec<Op>),
    /// caught panic while holding the locks acquired by the inner ops (poisoning).
    /// Flattened labels: "i.begin", "i.0".. (inner ops), "i.end" (the panic + catch).
    Catch(Vec<Op>),
    /// uncaught panic
    Fail,
    // ---- internal pseudo-operations (produced by label flattening, never generated) ----
    ScopedSpawn(usize),
    ScopeEnd(Vec<usize>),
    CatchBegin,
    CatchEnd,
}

#[derive(Clone, Debug, PartialEq, Eq, Serialize, Deserialize, Default)]
pub struct Resources {
    pub mutexes: usize,
    pub rwlocks: usize,
    pub condvars: usize,
    /// barrier bounds
    pub barriers: Vec<usize>,
    pub onces: usize,
    pub atomics: usize,
    /// channel capacities: None = unbounded
    pub chans: Vec<Option<usize>>,
    /// body that owns the receiver of channel i
    pub rx_owner: Vec<usize>,
    /// engine-level BatchSemaphores: (initial permits, strictly fair?)
    #[serde(default)]
    pub sems: Vec<(usize, bool)>,
    /// Once initialisers perform an atomic load of atomic 0 (event IL): an initialiser that
    /// synchronises, used by C15
    #[serde(default)]
    pub once_init_load: bool,
}

#[derive(Clone, Debug, PartialEq, Eq, Serialize, Deserialize, Default)]
pub struct Program {
    pub res: Resources,
    /// bodies[0] is the main thread; every other body is spawned by exactly one Spawn op
    pub bodies: Vec<Vec<Op>>,
}

impl Program {
    pub fn op_count(&self) -> usize {
        self.bodies.iter().map(|b| b.len()).sum()
    }
    /// bodies that mention Send/TrySend/DropTx on channel c
    pub fn senders_of(&self, c: usize) -> Vec<usize> {
        fn mentions(ops: &[Op], c: usize) -> bool {
            ops.iter().any(|o| match o {
                Op::Send(x) | Op::TrySend(x) | Op::DropTx(x) => *x == c,
                Op::Catch(inner) | Op::Scope(_, inner) => mentions(inner, c),
                _ => false,
            })
        }
        (0..self.bodies.len()).filter(|b| mentions(&self.bodies[*b], c)).collect()
    }
    pub fn parent_of(&self, body: usize) -> Option<usize> {
        for (b, ops) in self.bodies.iter().enumerate() {
            if ops.iter().any(|o| match o {
                Op::Spawn(x) => *x == body,
                Op::Scope(bs, _) => bs.contains(&body),
                _ => false,
            }) {
                return Some(b);
            }
        }
        None
    }
    /// The flattened sequence of operation labels of a body (composite operations expand into
    /// pseudo-operations), in the order the interpreter logs them.
    pub fn labels(&self, body: usize) -> Vec<String> {
        let mut v = vec![];
        for (i, op) in self.bodies[body].iter().enumerate() {
            match op {
                Op::Scope(bs, inner) => {
                    for k in 0..bs.len() {
                        v.push(format!("{}.b{}", i, k));
                    }
                    for j in 0..inner.len() {
                        v.push(format!("{}.{}", i, j));
                    }
                    v.push(format!("{}.end", i));
                }
                Op::Catch(inner) => {
                    v.push(format!("{}.begin", i));
                    for j in 0..inner.len() {
                        v.push(format!("{}.{}", i, j));
                    }
                    v.push(format!("{}.end", i));
                }
                _ => v.push(i.to_string()),
            }
        }
        v
    }
    /// a program is well formed if every non-main body is spawned exactly once, by a body with a
    /// smaller index (so the spawn relation is a tree)
    pub fn well_formed(&self) -> bool {
        let mut count = vec![0; self.bodies.len()];
        for (b, ops) in self.bodies.iter().enumerate() {
            for o in ops {
                let spawned: Vec<usize> = match o {
                    Op::Spawn(x) => vec![*x],
                    Op::Scope(bs, _) => bs.clone(),
                    _ => vec![],
                };
                for x in spawned {
                    if x >= self.bodies.len() || x <= b {
                        return false;
                    }
                    count[x] += 1;
                }
            }
        }
        count.iter().skip(1).all(|c| *c <= 1)
    }
}

pub fn unique_val(body: usize, idx: usize) -> u64 {
    (body as u64 + 1) * 1000 + idx as u64
}

// ---------------------------------------------------------------------------------------------
// Interpreter
// ---------------------------------------------------------------------------------------------

enum Tx {
    Unbounded(mpsc::Sender<u64>),
    Bounded(mpsc::SyncSender<u64>),
}

pub struct Ctx {
    prog: Arc<Program>,
    mutexes: Vec<Mutex<u64>>,
    rwlocks: Vec<RwLock<u64>>,
    condvars: Vec<Condvar>,
    barriers: Vec<Barrier>,
    onces: Vec<Once>,
    atomics: Vec<AtomicU64>,
    /// parked Acquire futures (borrowing `sems`; declared first so that they are dropped first)
    stash: Vec<StdMutex<Option<(std::pin::Pin<Box<shuttle_engine::future::batch_semaphore::Acquire<'static>>>, usize)>>>,
    sems: Vec<BatchSemaphore>,
    tx: Vec<Vec<StdMutex<Option<Tx>>>>,
    rx: Vec<StdMutex<Option<mpsc::Receiver<u64>>>>,
    parent_thread: Vec<StdMutex<Option<thread::Thread>>>,
    /// direct monitors (interpreter-level, model independent)
    pub mon: StdMutex<Monitors>,
}

#[derive(Default, Debug, Clone)]
pub struct Monitors {
    pub mutex_holders: Vec<i32>,
    pub rw_readers: Vec<i32>,
    pub rw_writers: Vec<i32>,
    pub once_inits: Vec<u32>,
    pub violations: Vec<String>,
}

/// when set, the interpreter samples shuttle::current::clock() after every operation ("C" events)
/// (process-wide: runs execute on their own threads)
pub static SAMPLE_CLOCKS: std::sync::atomic::AtomicBool = std::sync::atomic::AtomicBool::new(false);

fn sample_clock(label: &str) {
    if SAMPLE_CLOCKS.load(std::sync::atomic::Ordering::SeqCst) {
        let c = shuttle::current::clock();
        let v: Vec<String> = c.iter().map(|x| x.to_string()).collect();
        log("C", label, v.join(","));
    }
}

/// monitor violations of the run(s) since the last take (process-wide: runs execute on their own
/// threads, one at a time)
static LAST_MONITORS: StdMutex<Vec<String>> = StdMutex::new(Vec::new());

pub fn take_monitor_violations() -> Vec<String> {
    std::mem::take(&mut *LAST_MONITORS.lock().unwrap_or_else(|e| e.into_inner()))
}

fn mon_violation(s: String) {
    LAST_MONITORS.lock().unwrap_or_else(|e| e.into_inner()).push(s);
}

struct Local {
    // guards first: dropped before ctx
    mguards: Vec<Option<MutexGuard<'static, u64>>>,
    rguards: Vec<Option<RwLockReadGuard<'static, u64>>>,
    wguards: Vec<Option<RwLockWriteGuard<'static, u64>>>,
    handles: Vec<Option<thread::JoinHandle<usize>>>,
    tx: Vec<Option<Tx>>,
    rx: Vec<Option<mpsc::Receiver<u64>>>,
    seen: Vec<u64>,
    body: usize,
    ctx: Arc<Ctx>,
}

impl Ctx {
    fn new(prog: Arc<Program>) -> Arc<Ctx> {
        let r = &prog.res;
        let nb = prog.bodies.len();
        let mut tx = vec![];
        let mut rx = vec![];
        for (c, cap) in r.chans.iter().enumerate() {
            let senders = prog.senders_of(c);
            let mut slots: Vec<StdMutex<Option<Tx>>> = (0..nb).map(|_| StdMutex::new(None)).collect();
            match cap {
                None => {
                    let (t, rcv) = mpsc::channel::<u64>();
                    for b in &senders {
                        slots[*b] = StdMutex::new(Some(Tx::Unbounded(t.clone())));
                    }
                    drop(t);
                    rx.push(StdMutex::new(Some(rcv)));
                }
                Some(k) => {
                    let (t, rcv) = mpsc::sync_channel::<u64>(*k);
                    for b in &senders {
                        slots[*b] = StdMutex::new(Some(Tx::Bounded(t.clone())));
                    }
                    drop(t);
                    rx.push(StdMutex::new(Some(rcv)));
                }
            }
            tx.push(slots);
        }
        Arc::new(Ctx {
            mutexes: (0..r.mutexes).map(|_| Mutex::new(0)).collect(),
            rwlocks: (0..r.rwlocks).map(|_| RwLock::new(0)).collect(),
            condvars: (0..r.condvars).map(|_| Condvar::new()).collect(),
            barriers: r.barriers.iter().map(|n| Barrier::new(*n)).collect(),
            onces: (0..r.onces).map(|_| Once::new()).collect(),
            atomics: (0..r.atomics).map(|_| AtomicU64::new(0)).collect(),
            stash: r.sems.iter().map(|_| StdMutex::new(None)).collect(),
            sems: r.sems.iter().map(|(n, fair)| BatchSemaphore::new(*n, if *fair { Fairness::StrictlyFair } else { Fairness::Unfair })).collect(),
            tx,
            rx,
            parent_thread: (0..nb).map(|_| StdMutex::new(None)).collect(),
            mon: StdMutex::new(Monitors {
                mutex_holders: vec![0; r.mutexes],
                rw_readers: vec![0; r.rwlocks],
                rw_writers: vec![0; r.rwlocks],
                once_inits: vec![0; r.onces],
                violations: vec![],
            }),
            prog,
        })
    }
}

/// Execute `prog` as the body of a Shuttle execution (call from inside `Runner::run`).
pub fn run_program(prog: &Arc<Program>) {
    let ctx = Ctx::new(prog.clone());
    run_body(ctx, 0);
}

fn run_body(ctx: Arc<Ctx>, body: usize) -> usize {
    let prog = ctx.prog.clone();
    let r = &prog.res;
    let mut l = Local {
        mguards: (0..r.mutexes).map(|_| None).collect(),
        rguards: (0..r.rwlocks).map(|_| None).collect(),
        wguards: (0..r.rwlocks).map(|_| None).collect(),
        handles: vec![],
        tx: (0..r.chans.len()).map(|c| ctx.tx[c][body].lock().unwrap().take()).collect(),
        rx: (0..r.chans.len())
            .map(|c| if r.rx_owner[c] == body { ctx.rx[c].lock().unwrap().take() } else { None })
            .collect(),
        seen: vec![0; r.atomics],
        body,
        ctx: ctx.clone(),
    };
    // first-event snapshot of the world as this task sees it (compared across iterations by C14)
    let snap = {
        let t = thread::current();
        format!(
            "clock={:?} sched_len={} switches={} name={:?} label={:?}",
            shuttle::current::clock(),
            shuttle_engine::runtime::execution::CurrentSchedule::len(),
            shuttle::current::context_switches(),
            t.name(),
            shuttle::current::get_name_for_task(shuttle::current::me()),
        )
    };
    log("B", body.to_string(), snap);
    let _stack_val = StackVal(body);
    let ops = &prog.bodies[body];
    for (i, op) in ops.iter().enumerate() {
        match op {
            Op::Scope(bs, inner) => exec_scope(&mut l, i, bs, inner),
            Op::Catch(inner) => exec_catch(&mut l, i, inner),
            _ => exec_op(&mut l, &i.to_string(), unique_val(body, i), op),
        }
    }
    // Anything still held is parked in the context so that the end of the body has no effect that
    // the log does not show (the context lives until the execution is torn down).
    for (c, t) in l.tx.iter_mut().enumerate() {
        if let Some(t) = t.take() {
            *ctx.tx[c][body].lock().unwrap() = Some(t);
        }
    }
    for (c, rcv) in l.rx.iter_mut().enumerate() {
        if let Some(rcv) = rcv.take() {
            *ctx.rx[c].lock().unwrap() = Some(rcv);
        }
    }
    // guards still held are released here, visibly: logged as implicit unlock operations
    for m in 0..l.mguards.len() {
        if l.mguards[m].is_some() {
            exec_op(&mut l, &format!("x{}", m), 0, &Op::Unlock(m));
        }
    }
    for m in 0..l.rguards.len() {
        if l.rguards[m].is_some() {
            exec_op(&mut l, &format!("xr{}", m), 0, &Op::UnlockRead(m));
        }
        if l.wguards[m].is_some() {
            exec_op(&mut l, &format!("xw{}", m), 0, &Op::UnlockWrite(m));
        }
    }
    log("X", body.to_string(), "");
    body
}

fn holds_any(l: &Local, m: usize) -> bool {
    l.mguards[m].is_some()
}

fn mon_mutex(ctx: &Ctx, m: usize, delta: i32) {
    let mut mon = ctx.mon.lock().unwrap();
    mon.mutex_holders[m] += delta;
    if mon.mutex_holders[m] > 1 || mon.mutex_holders[m] < 0 {
        mon_violation(format!("mutex {} has {} holders", m, mon.mutex_holders[m]));
    }
}

fn mon_rw(ctx: &Ctx, r: usize, dr: i32, dw: i32) {
    let mut mon = ctx.mon.lock().unwrap();
    mon.rw_readers[r] += dr;
    mon.rw_writers[r] += dw;
    let (nr, nw) = (mon.rw_readers[r], mon.rw_writers[r]);
    if nw > 1 || nw < 0 || nr < 0 || (nw == 1 && nr > 0) {
        mon_violation(format!("rwlock {} has {} readers and {} writers", r, nr, nw));
    }
}

unsafe fn ext_m<'a>(g: MutexGuard<'a, u64>) -> MutexGuard<'static, u64> {
    std::mem::transmute(g)
}
unsafe fn ext_r<'a>(g: RwLockReadGuard<'a, u64>) -> RwLockReadGuard<'static, u64> {
    std::mem::transmute(g)
}
unsafe fn ext_w<'a>(g: RwLockWriteGuard<'a, u64>) -> RwLockWriteGuard<'static, u64> {
    std::mem::transmute(g)
}

/// Releases, while unwinding, the guards acquired inside a `Catch` block (this is what poisons).
struct CatchScope<'a> {
    l: &'a mut Local,
    m_before: Vec<bool>,
    w_before: Vec<bool>,
    r_before: Vec<bool>,
}

impl Drop for CatchScope<'_> {
    fn drop(&mut self) {
        for m in 0..self.l.mguards.len() {
            if self.l.mguards[m].is_some() && !self.m_before[m] {
                mon_mutex(&self.l.ctx, m, -1);
                self.l.mguards[m] = None;
            }
        }
        for r in 0..self.l.wguards.len() {
            if self.l.wguards[r].is_some() && !self.w_before[r] {
                mon_rw(&self.l.ctx, r, 0, -1);
                self.l.wguards[r] = None;
            }
            if self.l.rguards[r].is_some() && !self.r_before[r] {
                mon_rw(&self.l.ctx, r, -1, 0);
                self.l.rguards[r] = None;
            }
        }
    }
}

/// unique value written by the inner operation j of composite operation i
pub fn inner_unique_val(body: usize, i: usize, j: usize) -> u64 {
    unique_val(body, 100 + i * 10 + j)
}

fn exec_scope(l: &mut Local, i: usize, bs: &[usize], inner: &[Op]) {
    let ctx = l.ctx.clone();
    let body = l.body;
    thread::scope(|s| {
        for (k, b) in bs.iter().enumerate() {
            let label = format!("{}.b{}", i, k);
            log("S", label.clone(), "");
            let b = *b;
            *ctx.parent_thread[b].lock().unwrap() = Some(thread::current());
            let c2 = ctx.clone();
            let h = s.spawn(move || run_body(c2, b));
            let tid: usize = h.thread().id().into();
            log("E", label, tid.to_string());
        }
        for (j, op) in inner.iter().enumerate() {
            exec_op(l, &format!("{}.{}", i, j), inner_unique_val(body, i, j), op);
        }
        log("S", format!("{}.end", i), "");
    });
    log("E", format!("{}.end", i), "");
}

fn exec_catch(l: &mut Local, i: usize, inner: &[Op]) {
    let body = l.body;
    log("S", format!("{}.begin", i), "");
    log("E", format!("{}.begin", i), "");
    let m_before: Vec<bool> = l.mguards.iter().map(|g| g.is_some()).collect();
    let w_before: Vec<bool> = l.wguards.iter().map(|g| g.is_some()).collect();
    let r_before: Vec<bool> = l.rguards.iter().map(|g| g.is_some()).collect();
    let r = std::panic::catch_unwind(std::panic::AssertUnwindSafe(|| {
        let scope = CatchScope { l, m_before, w_before, r_before };
        for (j, op) in inner.iter().enumerate() {
            exec_op(scope.l, &format!("{}.{}", i, j), inner_unique_val(body, i, j), op);
        }
        log("S", format!("{}.end", i), "");
        panic!("caught-panic");
    }));
    match r {
        Err(p) => {
            let s = crate::sim::payload_to_string(&*p);
            if s != "caught-panic" {
                // not ours: a panic raised inside Shuttle; re-raise
                std::panic::resume_unwind(p)
            }
        }
        Ok(()) => unreachable!(),
    }
    log("E", format!("{}.end", i), "caught");
}

/// a value living on the task's stack for the whole body: dropped at the end of the body, or when
/// the stack of an abandoned task is unwound at the end of the execution
/// custom task label used by LabelSet / LabelGet
#[derive(Clone, Debug, PartialEq)]
pub struct VLabel(pub u64);

pub struct StackVal(usize);

/// a value captured by a spawned thread's closure (events CI / CD)
pub struct CapVal(usize);

impl CapVal {
    fn new(b: usize) -> Self {
        log("CI", b.to_string(), "");
        CapVal(b)
    }
}

impl Drop for CapVal {
    fn drop(&mut self) {
        log("CD", self.0.to_string(), "");
    }
}

impl Drop for StackVal {
    fn drop(&mut self) {
        log("SD", self.0.to_string(), "");
    }
}

pub struct TlsVal {
    key: usize,
}

impl TlsVal {
    fn new(key: usize) -> Self {
        log("T", key.to_string(), "");
        TlsVal { key }
    }
}

impl Drop for TlsVal {
    fn drop(&mut self) {
        log("D", self.key.to_string(), "");
        // Destructors that synchronise are only exercised while a current task exists: the
        // destructors of an *abandoned* execution run during cleanup without one (known finding F17).
        if crate::sim::current_task_u32() == u32::MAX {
            return;
        }
        match self.key {
            0 => {
                // touches another key: initialises it late, or finds it alive / destroyed
                let r = TLS1.try_with(|v| v.key).is_ok();
                log("DA", "1", r.to_string());
            }
            1 => {
                thread::yield_now();
                log("Y", "", "");
            }
            _ => {}
        }
    }
}

/// Initialise the calling task's thread-local `k` (0: destructor touches key 1; 1: destructor
/// yields; 2: plain). Used by the async DSL of C17.
pub fn tls_touch(k: usize) -> bool {
    match k % 3 {
        0 => TLS0.try_with(|v| v.key).is_ok(),
        1 => TLS1.try_with(|v| v.key).is_ok(),
        _ => TLS2.try_with(|v| v.key).is_ok(),
    }
}

/// Thread-local whose destructor synchronises unconditionally. Only the pinned witness of known
/// finding F17 uses it (key 3).
pub struct TlsSyncVal;

impl Drop for TlsSyncVal {
    fn drop(&mut self) {
        log("D", "3", "");
        thread::yield_now();
    }
}

shuttle::thread_local! {
    static TLS0: TlsVal = TlsVal::new(0);
    static TLS1: TlsVal = TlsVal::new(1);
    static TLS2: TlsVal = TlsVal::new(2);
    static TLS3: TlsSyncVal = TlsSyncVal;
}

pub struct LazyVal {
    pub slot: usize,
}

impl LazyVal {
    fn new(i: usize) -> Self {
        log("I", format!("L{}", i), "");
        if i == 1 {
            thread::yield_now();
            log("Y", "", "");
        }
        log("J", format!("L{}", i), "");
        LazyVal { slot: i }
    }
}

impl Drop for LazyVal {
    fn drop(&mut self) {
        log("LD", format!("L{}", self.slot), "");
    }
}

/// number of Once slots in the model reserved for the static pool (2 static Onces, 2 lazies)
pub const STATIC_ONCE_SLOTS: usize = 4;

shuttle::lazy_static! {
    static ref LAZY0: LazyVal = LazyVal::new(0);
    static ref LAZY1: LazyVal = LazyVal::new(1);
}

static SONCE0: Once = Once::new();
static SONCE1: Once = Once::new();

fn exec_op(l: &mut Local, label: &str, uv: u64, op: &Op) {
    let ctx = l.ctx.clone();
    let body = l.body;
    log("S", label, "");
    let res: String = match op {
        Op::Spawn(b) => {
            let b = *b;
            *ctx.parent_thread[b].lock().unwrap() = Some(thread::current());
            let c2 = ctx.clone();
            // a value captured by the thread's closure: dropped by the child when its closure ends,
            // or with the never-started closure when the execution is over
            let cap = CapVal::new(b);
            let h = thread::Builder::new()
                .name(format!("body{}", b))
                .spawn(move || {
                    let _cap = cap;
                    run_body(c2, b)
                })
                .unwrap();
            let tid: usize = h.thread().id().into();
            l.handles.push(Some(h));
            tid.to_string()
        }
        Op::Join(slot) => match l.handles.get_mut(*slot).and_then(|h| h.take()) {
            Some(h) => match h.join() {
                Ok(v) => format!("ok:{}", v),
                Err(_) => "panicked".to_string(),
            },
            None => "skip".into(),
        },
        Op::Lock(m) => {
            if holds_any(l, *m) {
                "skip".into()
            } else {
                let (mut g, tag) = match ctx.mutexes[*m].lock() {
                    Ok(g) => (g, "ok"),
                    Err(e) => (e.into_inner(), "poison"),
                };
                mon_mutex(&ctx, *m, 1);
                let v = *g;
                *g = uv;
                l.mguards[*m] = Some(unsafe { ext_m(g) });
                format!("{}:{}", tag, v)
            }
        }
        Op::TryLock(m) => match ctx.mutexes[*m].try_lock() {
            Ok(mut g) => {
                mon_mutex(&ctx, *m, 1);
                let v = *g;
                *g = uv;
                if l.mguards[*m].is_some() {
                    mon_violation(format!("try_lock of mutex {} succeeded while the caller holds it", m));
                }
                l.mguards[*m] = Some(unsafe { ext_m(g) });
                format!("ok:{}", v)
            }
            Err(std::sync::TryLockError::Poisoned(e)) => {
                let mut g = e.into_inner();
                mon_mutex(&ctx, *m, 1);
                let v = *g;
                *g = uv;
                l.mguards[*m] = Some(unsafe { ext_m(g) });
                format!("poison:{}", v)
            }
            Err(std::sync::TryLockError::WouldBlock) => "wouldblock".into(),
        },
        Op::Unlock(m) => {
            if l.mguards[*m].is_some() {
                mon_mutex(&ctx, *m, -1);
                l.mguards[*m] = None;
                "ok".into()
            } else {
                "skip".into()
            }
        }
        Op::Read(r) => {
            if l.rguards[*r].is_some() || l.wguards[*r].is_some() {
                "skip".into()
            } else {
                let (g, tag) = match ctx.rwlocks[*r].read() {
                    Ok(g) => (g, "ok"),
                    Err(e) => (e.into_inner(), "poison"),
                };
                mon_rw(&ctx, *r, 1, 0);
                let v = *g;
                l.rguards[*r] = Some(unsafe { ext_r(g) });
                format!("{}:{}", tag, v)
            }
        }
        Op::Write(r) => {
            if l.rguards[*r].is_some() || l.wguards[*r].is_some() {
                "skip".into()
            } else {
                let (mut g, tag) = match ctx.rwlocks[*r].write() {
                    Ok(g) => (g, "ok"),
                    Err(e) => (e.into_inner(), "poison"),
                };
                mon_rw(&ctx, *r, 0, 1);
                let v = *g;
                *g = uv;
                l.wguards[*r] = Some(unsafe { ext_w(g) });
                format!("{}:{}", tag, v)
            }
        }
        Op::TryRead(r) => match ctx.rwlocks[*r].try_read() {
            Ok(g) => {
                mon_rw(&ctx, *r, 1, 0);
                let v = *g;
                if l.rguards[*r].is_some() {
                    // a second shared guard of the same task: keep the first, drop this one visibly later
                    mon_violation(format!("re-entrant try_read of rwlock {} succeeded", r));
                }
                l.rguards[*r] = Some(unsafe { ext_r(g) });
                format!("ok:{}", v)
            }
            Err(std::sync::TryLockError::Poisoned(e)) => {
                let g = e.into_inner();
                mon_rw(&ctx, *r, 1, 0);
                let v = *g;
                l.rguards[*r] = Some(unsafe { ext_r(g) });
                format!("poison:{}", v)
            }
            Err(std::sync::TryLockError::WouldBlock) => "wouldblock".into(),
        },
        Op::TryWrite(r) => match ctx.rwlocks[*r].try_write() {
            Ok(mut g) => {
                mon_rw(&ctx, *r, 0, 1);
                let v = *g;
                *g = uv;
                l.wguards[*r] = Some(unsafe { ext_w(g) });
                format!("ok:{}", v)
            }
            Err(std::sync::TryLockError::Poisoned(e)) => {
                let mut g = e.into_inner();
                mon_rw(&ctx, *r, 0, 1);
                let v = *g;
                *g = uv;
                l.wguards[*r] = Some(unsafe { ext_w(g) });
                format!("poison:{}", v)
            }
            Err(std::sync::TryLockError::WouldBlock) => "wouldblock".into(),
        },
        Op::UnlockRead(r) => {
            if l.rguards[*r].is_some() {
                mon_rw(&ctx, *r, -1, 0);
                l.rguards[*r] = None;
                "ok".into()
            } else {
                "skip".into()
            }
        }
        Op::UnlockWrite(r) => {
            if l.wguards[*r].is_some() {
                mon_rw(&ctx, *r, 0, -1);
                l.wguards[*r] = None;
                "ok".into()
            } else {
                "skip".into()
            }
        }
        Op::Wait(cv, m) => match l.mguards[*m].take() {
            Some(g) => {
                mon_mutex(&ctx, *m, -1);
                let (g, tag) = match ctx.condvars[*cv].wait(g) {
                    Ok(g) => (g, "ok"),
                    Err(e) => (e.into_inner(), "poison"),
                };
                mon_mutex(&ctx, *m, 1);
                let v = *g;
                l.mguards[*m] = Some(g);
                format!("{}:{}", tag, v)
            }
            None => "skip".into(),
        },
        Op::NotifyOne(cv) => {
            ctx.condvars[*cv].notify_one();
            "".into()
        }
        Op::NotifyAll(cv) => {
            ctx.condvars[*cv].notify_all();
            "".into()
        }
        Op::BarrierWait(b) => {
            if ctx.barriers[*b].wait().is_leader() {
                "leader".into()
            } else {
                "follower".into()
            }
        }
        Op::CallOnce(o, yield_inside) => {
            let o = *o;
            let yi = *yield_inside;
            let c2 = ctx.clone();
            ctx.onces[o].call_once(move || {
                {
                    let mut mon = c2.mon.lock().unwrap();
                    mon.once_inits[o] += 1;
                    if mon.once_inits[o] > 1 {
                        mon_violation(format!("once {} initialiser ran {} times", o, mon.once_inits[o]));
                    }
                }
                log("I", o.to_string(), body.to_string());
                if c2.prog.res.once_init_load && !c2.atomics.is_empty() {
                    let v = c2.atomics[0].load(Ordering::SeqCst);
                    log("IL", o.to_string(), v.to_string());
                }
                if yi {
                    thread::yield_now();
                    log("Y", "", "");
                }
                log("J", o.to_string(), body.to_string());
            });
            "".into()
        }
        Op::IsCompleted(o) => ctx.onces[*o].is_completed().to_string(),
        Op::ALoad(a) => {
            let v = ctx.atomics[*a].load(Ordering::SeqCst);
            l.seen[*a] = v;
            v.to_string()
        }
        Op::AStore(a) => {
            ctx.atomics[*a].store(uv, Ordering::SeqCst);
            l.seen[*a] = uv;
            "".into()
        }
        Op::AAdd(a, n) => {
            let v = ctx.atomics[*a].fetch_add(*n, Ordering::SeqCst);
            l.seen[*a] = v.wrapping_add(*n);
            v.to_string()
        }
        Op::ASwap(a) => {
            let v = ctx.atomics[*a].swap(uv, Ordering::SeqCst);
            l.seen[*a] = uv;
            v.to_string()
        }
        Op::ACas(a) => match ctx.atomics[*a].compare_exchange(l.seen[*a], uv, Ordering::SeqCst, Ordering::SeqCst) {
            Ok(v) => {
                l.seen[*a] = uv;
                format!("ok:{}", v)
            }
            Err(v) => {
                l.seen[*a] = v;
                format!("err:{}", v)
            }
        },
        Op::Send(c) => match &l.tx[*c] {
            Some(Tx::Unbounded(t)) => if t.send(uv).is_ok() { "ok".into() } else { "err".into() },
            Some(Tx::Bounded(t)) => if t.send(uv).is_ok() { "ok".into() } else { "err".into() },
            None => "skip".into(),
        },
        Op::TrySend(c) => match &l.tx[*c] {
            Some(Tx::Unbounded(t)) => if t.send(uv).is_ok() { "ok".into() } else { "disc".into() },
            Some(Tx::Bounded(t)) => match t.try_send(uv) {
                Ok(()) => "ok".into(),
                Err(mpsc::TrySendError::Full(_)) => "full".into(),
                Err(mpsc::TrySendError::Disconnected(_)) => "disc".into(),
            },
            None => "skip".into(),
        },
        Op::Recv(c) => match &l.rx[*c] {
            Some(r) => match r.recv() {
                Ok(v) => v.to_string(),
                Err(_) => "disc".into(),
            },
            None => "skip".into(),
        },
        Op::TryRecv(c) => match &l.rx[*c] {
            Some(r) => match r.try_recv() {
                Ok(v) => v.to_string(),
                Err(mpsc::TryRecvError::Empty) => "empty".into(),
                Err(mpsc::TryRecvError::Disconnected) => "disc".into(),
            },
            None => "skip".into(),
        },
        Op::DropTx(c) => {
            if l.tx[*c].take().is_some() {
                "ok".into()
            } else {
                "skip".into()
            }
        }
        Op::DropRx(c) => {
            if l.rx[*c].take().is_some() {
                "ok".into()
            } else {
                "skip".into()
            }
        }
        Op::Park => {
            thread::park();
            "".into()
        }
        Op::UnparkChild(slot) => match l.handles.get(*slot).and_then(|h| h.as_ref()) {
            Some(h) => {
                h.thread().unpark();
                "ok".into()
            }
            None => "skip".into(),
        },
        Op::UnparkParent => {
            let t = ctx.parent_thread[body].lock().unwrap().clone();
            match t {
                Some(t) => {
                    t.unpark();
                    "ok".into()
                }
                None => "skip".into(),
            }
        }
        Op::Yield => {
            thread::yield_now();
            "".into()
        }
        Op::Sleep => {
            thread::sleep(std::time::Duration::from_millis(1));
            "".into()
        }
        Op::Spin => {
            shuttle::hint::spin_loop();
            "".into()
        }
        Op::Rand(bound) => {
            use shuttle::rand::RngCore;
            // every flavour is exactly one scheduler draw; which one is a function of the operand
            let mut r = shuttle::rand::thread_rng();
            let v = match *bound % 3 {
                0 => r.next_u32() as u64,
                1 => r.next_u64(),
                _ => {
                    let mut buf = [0u8; 4];
                    r.fill_bytes(&mut buf);
                    u32::from_le_bytes(buf) as u64
                }
            };
            (v % (*bound).max(1)).to_string()
        }
        Op::SemAcquire(sm, n) => {
            let r = ctx.sems[*sm].acquire_blocking(*n);
            format!("{}:{}", if r.is_ok() { "ok" } else { "err" }, ctx.sems[*sm].available_permits())
        }
        Op::SemTry(sm, n) => {
            let r = ctx.sems[*sm].try_acquire(*n);
            let tag = match r {
                Ok(()) => "ok",
                Err(TryAcquireError::NoPermits) => "nopermits",
                Err(TryAcquireError::Closed) => "closed",
            };
            format!("{}:{}", tag, ctx.sems[*sm].available_permits())
        }
        Op::SemRelease(sm, n) => {
            ctx.sems[*sm].release(*n);
            ctx.sems[*sm].available_permits().to_string()
        }
        Op::SemClose(sm) => {
            ctx.sems[*sm].close();
            ctx.sems[*sm].available_permits().to_string()
        }
        Op::SemCancel(sm, n, polls) => {
            use std::future::Future;
            use std::task::{Context, Poll};
            let sem = &ctx.sems[*sm];
            let mut fut = Box::pin(sem.acquire(*n));
            let waker = futures::task::noop_waker();
            let mut cx = Context::from_waker(&waker);
            let mut outcome: Option<bool> = None;
            // polls == 0: poll once, pass a scheduling point, then drop WITHOUT polling again (a grant that
            // arrives in between is never observed: the drop must give the permits back)
            for k in 0..(*polls).max(1) {
                if k > 0 {
                    // a scheduling point without a yield request
                    thread::sleep(std::time::Duration::from_millis(1));
                }
                match fut.as_mut().poll(&mut cx) {
                    Poll::Ready(Ok(())) => {
                        outcome = Some(true);
                        break;
                    }
                    Poll::Ready(Err(_)) => {
                        outcome = Some(false);
                        break;
                    }
                    Poll::Pending => {}
                }
            }
            if outcome.is_none() && *polls == 0 {
                thread::sleep(std::time::Duration::from_millis(1));
            }
            match outcome {
                Some(true) => {
                    drop(fut);
                    sem.release(*n);
                    format!("acquired:{}", sem.available_permits())
                }
                Some(false) => {
                    drop(fut);
                    format!("err:{}", sem.available_permits())
                }
                None => {
                    drop(fut);
                    format!("cancelled:{}", sem.available_permits())
                }
            }
        }
        Op::SemStash(sm, n) => {
            use std::future::Future;
            use std::task::{Context, Poll};
            if ctx.stash[*sm].lock().unwrap().is_some() {
                "skip".into()
            } else {
                let sem = &ctx.sems[*sm];
                let fut = sem.acquire(*n);
                // the future borrows a semaphore that lives in the same context as the stash slot
                let fut: shuttle_engine::future::batch_semaphore::Acquire<'static> = unsafe { std::mem::transmute(fut) };
                let mut fut = Box::pin(fut);
                let waker = futures::task::noop_waker();
                let mut cx = Context::from_waker(&waker);
                match fut.as_mut().poll(&mut cx) {
                    Poll::Ready(Ok(())) => {
                        drop(fut);
                        sem.release(*n);
                        format!("acquired:{}", sem.available_permits())
                    }
                    Poll::Ready(Err(_)) => {
                        drop(fut);
                        format!("err:{}", sem.available_permits())
                    }
                    Poll::Pending => {
                        *ctx.stash[*sm].lock().unwrap() = Some((fut, *n));
                        format!("stashed:{}", sem.available_permits())
                    }
                }
            }
        }
        Op::SemTakeAwait(sm) => {
            let taken = ctx.stash[*sm].lock().unwrap().take();
            match taken {
                None => "skip".into(),
                Some((fut, n)) => {
                    let sem = &ctx.sems[*sm];
                    match shuttle::future::block_on(fut) {
                        Ok(()) => {
                            sem.release(n);
                            format!("ok:{}", sem.available_permits())
                        }
                        Err(_) => format!("err:{}", sem.available_permits()),
                    }
                }
            }
        }
        Op::ResetSteps => {
            shuttle::current::reset_step_count();
            "".into()
        }
        Op::TlsWith(k) => {
            let r = match k % 4 {
                0 => TLS0.try_with(|v| v.key),
                1 => TLS1.try_with(|v| v.key),
                2 => TLS2.try_with(|v| v.key),
                _ => TLS3.try_with(|_| 3),
            };
            match r {
                Ok(_) => "ok".into(),
                Err(_) => "destroyed".into(),
            }
        }
        Op::LazyGet(i) => {
            // the static initialisers log with fixed slot markers; translate below
            let v: &LazyVal = if i % 2 == 0 { &LAZY0 } else { &LAZY1 };
            let _ = v.slot;
            "".into()
        }
        Op::StaticOnce(i) => {
            let slot = format!("S{}", i % 2);
            let once = if i % 2 == 0 { &SONCE0 } else { &SONCE1 };
            once.call_once(|| {
                log("I", slot.clone(), "");
                log("J", slot.clone(), "");
            });
            "".into()
        }
        Op::LabelSet => {
            let old = shuttle::current::set_label_for_task(shuttle::current::me(), VLabel(uv));
            match old {
                Some(VLabel(v)) => v.to_string(),
                None => "none".into(),
            }
        }
        Op::LabelGet => match shuttle::current::get_label_for_task::<VLabel>(shuttle::current::me()) {
            Some(VLabel(v)) => v.to_string(),
            None => "none".into(),
        },
        Op::ThreadInfo => {
            let t = thread::current();
            let id: usize = t.id().into();
            let me = crate::sim::current_task_u32() as usize;
            format!("{}:{}", id == me, t.name().unwrap_or("<none>"))
        }
        Op::Scope(..) | Op::Catch(..) | Op::ScopedSpawn(_) | Op::ScopeEnd(_) | Op::CatchBegin | Op::CatchEnd => {
            unreachable!("composite operations are expanded by run_body")
        }
        Op::Fail => {
            log("F", label, "");
            panic!("fail:{}:{}", body, label);
        }
    };
    log("E", label, res);
    sample_clock(label);
}

// ---------------------------------------------------------------------------------------------
// Generator (swarm style: each program enables a random subset of primitive families)
// ---------------------------------------------------------------------------------------------

#[derive(Clone, Debug, Serialize, Deserialize)]
pub struct GenCfg {
    pub max_bodies: usize,
    pub max_ops: usize,
    pub mutex: bool,
    pub rwlock: bool,
    pub condvar: bool,
    pub barrier: bool,
    pub once: bool,
    pub atomic: bool,
    pub chan: bool,
    pub park: bool,
    pub yields: bool,
    pub rand: bool,
    pub trylock: bool,
    pub catch: bool,
    pub fail: bool,
    pub join_prob: u32, // of 8
    #[serde(default)]
    pub tls: bool,
    #[serde(default)]
    pub statics: bool,
    #[serde(default)]
    pub scope: bool,
    #[serde(default)]
    pub info: bool,
    #[serde(default)]
    pub reset: bool,
    #[serde(default)]
    pub sem: bool,
}

impl GenCfg {
    pub fn all() -> Self {
        GenCfg {
            max_bodies: 4,
            max_ops: 5,
            mutex: true,
            rwlock: true,
            condvar: true,
            barrier: true,
            once: true,
            atomic: true,
            chan: true,
            park: true,
            yields: true,
            rand: true,
            trylock: true,
            catch: false,
            fail: false,
            join_prob: 6,
            tls: false,
            statics: false,
            scope: false,
            info: false,
            reset: false,
            sem: false,
        }
    }
    pub fn none() -> Self {
        GenCfg {
            max_bodies: 3,
            max_ops: 4,
            mutex: false,
            rwlock: false,
            condvar: false,
            barrier: false,
            once: false,
            atomic: false,
            chan: false,
            park: false,
            yields: false,
            rand: false,
            trylock: false,
            catch: false,
            fail: false,
            join_prob: 6,
            tls: false,
            statics: false,
            scope: false,
            info: false,
            reset: false,
            sem: false,
        }
    }
    /// swarm: enable each family with probability 1/2 (at least one)
    pub fn swarm(rng: &mut Rng) -> Self {
        let mut c = GenCfg::all();
        loop {
            c.mutex = rng.chance(1, 2);
            c.rwlock = rng.chance(1, 3);
            c.condvar = rng.chance(1, 3);
            c.barrier = rng.chance(1, 4);
            c.once = rng.chance(1, 4);
            c.atomic = rng.chance(1, 2);
            c.chan = rng.chance(1, 3);
            c.park = rng.chance(1, 5);
            c.yields = rng.chance(1, 3);
            c.rand = rng.chance(1, 4);
            c.trylock = rng.chance(1, 2);
            c.tls = rng.chance(1, 5);
            c.statics = rng.chance(1, 5);
            c.scope = rng.chance(1, 5);
            c.info = rng.chance(1, 8);
            if c.mutex || c.rwlock || c.atomic || c.chan || c.barrier || c.once || c.park {
                break;
            }
        }
        if c.condvar {
            c.mutex = true;
        }
        c.max_bodies = rng.range(2, 4);
        c.max_ops = rng.range(2, 6);
        c
    }
}

pub fn gen_program(rng: &mut Rng, cfg: &GenCfg) -> Program {
    let nb = rng.range(2, cfg.max_bodies.max(2));
    let mut res = Resources::default();
    if cfg.mutex {
        res.mutexes = rng.range(1, 2);
    }
    if cfg.rwlock {
        res.rwlocks = 1;
    }
    if cfg.condvar {
        res.condvars = 1;
    }
    if cfg.barrier {
        res.barriers = vec![rng.range(1, nb.min(3))];
    }
    if cfg.once {
        res.onces = 1;
    }
    if cfg.atomic {
        res.atomics = rng.range(1, 2);
    }
    if cfg.sem {
        res.sems.push((rng.below(4), rng.chance(1, 2)));
        if rng.chance(1, 4) {
            res.sems.push((rng.below(3), rng.chance(1, 2)));
        }
    }
    if cfg.chan {
        let n = 1;
        for _ in 0..n {
            let cap = match rng.below(4) {
                0 => None,
                1 => Some(0),
                2 => Some(1),
                _ => Some(2),
            };
            res.chans.push(cap);
            res.rx_owner.push(rng.below(nb));
        }
    }
    let mut bodies: Vec<Vec<Op>> = vec![vec![]; nb];
    // spawn tree: body b>0 gets a parent < b
    let mut parent = vec![0usize; nb];
    for b in 1..nb {
        parent[b] = rng.below(b);
    }
    for b in 0..nb {
        let n = rng.range(1, cfg.max_ops.max(1));
        let mut ops = vec![];
        let mut held_m: Vec<bool> = vec![false; res.mutexes];
        let mut held_r: Vec<u8> = vec![0; res.rwlocks]; // 1 = read, 2 = write
        for _ in 0..n {
            gen_op(rng, cfg, &res, b, nb, &mut held_m, &mut held_r, &mut ops);
        }
        // release what is still held (mostly)
        for m in 0..res.mutexes {
            if held_m[m] && rng.chance(7, 8) {
                ops.push(Op::Unlock(m));
            }
        }
        for r in 0..res.rwlocks {
            if held_r[r] == 1 && rng.chance(7, 8) {
                ops.push(Op::UnlockRead(r));
            }
            if held_r[r] == 2 && rng.chance(7, 8) {
                ops.push(Op::UnlockWrite(r));
            }
        }
        bodies[b] = ops;
    }
    // insert spawns (and joins) into parents; with `scope`, some children become scoped threads
    let mut scoped: Vec<bool> = vec![false; nb];
    if cfg.scope {
        for p in 0..nb {
            let children: Vec<usize> = (1..nb).filter(|b| parent[*b] == p).collect();
            if children.is_empty() || !rng.chance(2, 3) {
                continue;
            }
            let k = rng.range(1, children.len().min(3));
            let mut cs = children.clone();
            rng.shuffle(&mut cs);
            let mut chosen: Vec<usize> = cs.into_iter().take(k).collect();
            chosen.sort();
            let mut inner = vec![];
            let mut hm = vec![false; res.mutexes];
            let mut hr = vec![0u8; res.rwlocks];
            for _ in 0..rng.below(4) {
                gen_op(rng, cfg, &res, p, nb, &mut hm, &mut hr, &mut inner);
            }
            for c in &chosen {
                scoped[*c] = true;
            }
            let pos = rng.below(bodies[p].len() + 1);
            bodies[p].insert(pos, Op::Scope(chosen, inner));
        }
    }
    for b in (1..nb).rev() {
        if scoped[b] {
            continue;
        }
        let p = parent[b];
        let pos = rng.below(bodies[p].len() + 1);
        bodies[p].insert(pos, Op::Spawn(b));
    }
    // joins: slot k of a body = its k-th Spawn in program order
    for p in 0..nb {
        let nspawn = bodies[p].iter().filter(|o| matches!(o, Op::Spawn(_))).count();
        let mut order: Vec<usize> = (0..nspawn).collect();
        rng.shuffle(&mut order);
        for slot in order {
            if rng.chance(cfg.join_prob, 8) {
                // position after the slot-th spawn
                let mut seen = 0;
                let mut after = 0;
                for (i, o) in bodies[p].iter().enumerate() {
                    if matches!(o, Op::Spawn(_)) {
                        if seen == slot {
                            after = i + 1;
                            break;
                        }
                        seen += 1;
                    }
                }
                let pos = rng.range(after, bodies[p].len());
                bodies[p].insert(pos, Op::Join(slot));
            }
        }
    }
    // channel endpoint drops at the end of bodies (mostly)
    for c in 0..res.chans.len() {
        let prog_tmp = Program { res: res.clone(), bodies: bodies.clone() };
        for b in prog_tmp.senders_of(c) {
            if rng.chance(6, 8) && !bodies[b].iter().any(|o| matches!(o, Op::DropTx(x) if *x == c)) {
                bodies[b].push(Op::DropTx(c));
            }
        }
        if rng.chance(1, 3) {
            let o = res.rx_owner[c];
            let pos = rng.below(bodies[o].len() + 1);
            bodies[o].insert(pos, Op::DropRx(c));
        }
    }
    if cfg.fail && rng.chance(1, 2) {
        let b = rng.below(nb);
        let pos = rng.below(bodies[b].len() + 1);
        bodies[b].insert(pos, Op::Fail);
    }
    // Exclusion for known finding F9 (pinned witness in C18's batch `known`): on an UNFAIR semaphore
    // a task that keeps a queued Acquire alive across a scheduling point without awaiting it may be
    // blocked by another task's acquisition (reblock_if_unfair). Cancellations that do so (0 or 2
    // polls) are generated for fair semaphores only, in every family.
    for ops in bodies.iter_mut() {
        exclude_f9(ops, &res);
    }
    Program { res, bodies }
}

fn exclude_f9(ops: &mut [Op], res: &Resources) {
    for o in ops.iter_mut() {
        match o {
            Op::SemCancel(sm, _, polls) => {
                if !res.sems[*sm].1 {
                    *polls = 1;
                }
            }
            Op::Scope(_, inner) | Op::Catch(inner) => exclude_f9(inner, res),
            _ => {}
        }
    }
}

#[allow(clippy::too_many_arguments)]
fn gen_op(
    rng: &mut Rng,
    cfg: &GenCfg,
    res: &Resources,
    body: usize,
    _nb: usize,
    held_m: &mut [bool],
    held_r: &mut [u8],
    ops: &mut Vec<Op>,
) {
    let mut kinds: Vec<u32> = vec![];
    if res.mutexes > 0 {
        kinds.extend([0, 0, 0]);
        if cfg.trylock {
            kinds.push(1);
        }
    }
    if res.rwlocks > 0 {
        kinds.extend([2, 2]);
        if cfg.trylock {
            kinds.push(3);
        }
    }
    if res.condvars > 0 {
        kinds.extend([4, 4, 5]);
    }
    if !res.barriers.is_empty() {
        kinds.push(6);
    }
    if res.onces > 0 {
        kinds.extend([7, 8]);
    }
    if res.atomics > 0 {
        kinds.extend([9, 9, 9]);
    }
    if !res.chans.is_empty() {
        kinds.extend([10, 10, 10]);
    }
    if cfg.park {
        kinds.extend([11]);
    }
    if cfg.yields {
        kinds.push(12);
    }
    if cfg.rand {
        kinds.push(13);
    }
    if !res.sems.is_empty() {
        kinds.extend([19, 19, 19, 19]);
    }
    if cfg.tls {
        kinds.extend([15, 15]);
    }
    if cfg.statics {
        kinds.extend([16, 16]);
    }
    if cfg.info {
        kinds.push(17);
    }
    if cfg.reset {
        kinds.push(18);
    }
    if kinds.is_empty() {
        ops.push(Op::Yield);
        return;
    }
    match *rng.pick(&kinds) {
        0 => {
            let m = rng.below(res.mutexes);
            if held_m[m] {
                ops.push(Op::Unlock(m));
                held_m[m] = false;
            } else {
                ops.push(Op::Lock(m));
                held_m[m] = true;
            }
        }
        1 => {
            let m = rng.below(res.mutexes);
            ops.push(Op::TryLock(m));
            // whether it is held afterwards is dynamic; pair it with an unlock most of the time
            if !held_m[m] && rng.chance(3, 4) {
                ops.push(Op::Unlock(m));
            }
        }
        2 => {
            let r = rng.below(res.rwlocks);
            match held_r[r] {
                1 => {
                    ops.push(Op::UnlockRead(r));
                    held_r[r] = 0;
                }
                2 => {
                    ops.push(Op::UnlockWrite(r));
                    held_r[r] = 0;
                }
                _ => {
                    if rng.chance(1, 2) {
                        ops.push(Op::Read(r));
                        held_r[r] = 1;
                    } else {
                        ops.push(Op::Write(r));
                        held_r[r] = 2;
                    }
                }
            }
        }
        3 => {
            let r = rng.below(res.rwlocks);
            if rng.chance(1, 2) {
                ops.push(Op::TryRead(r));
                if held_r[r] == 0 && rng.chance(3, 4) {
                    ops.push(Op::UnlockRead(r));
                }
            } else {
                ops.push(Op::TryWrite(r));
                if held_r[r] == 0 && rng.chance(3, 4) {
                    ops.push(Op::UnlockWrite(r));
                }
            }
        }
        4 => {
            // wait needs a held mutex
            let cv = rng.below(res.condvars);
            let m = 0;
            if !held_m[m] {
                ops.push(Op::Lock(m));
                held_m[m] = true;
            }
            ops.push(Op::Wait(cv, m));
        }
        5 => {
            let cv = rng.below(res.condvars);
            if rng.chance(1, 2) {
                ops.push(Op::NotifyOne(cv));
            } else {
                ops.push(Op::NotifyAll(cv));
            }
        }
        6 => ops.push(Op::BarrierWait(rng.below(res.barriers.len()))),
        7 => ops.push(Op::CallOnce(rng.below(res.onces), rng.chance(1, 2))),
        8 => ops.push(Op::IsCompleted(rng.below(res.onces))),
        9 => {
            let a = rng.below(res.atomics);
            ops.push(match rng.below(5) {
                0 => Op::ALoad(a),
                1 => Op::AStore(a),
                2 => Op::AAdd(a, 1 + rng.below(3) as u64),
                3 => Op::ASwap(a),
                _ => Op::ACas(a),
            });
        }
        10 => {
            let c = rng.below(res.chans.len());
            if res.rx_owner[c] == body && rng.chance(2, 3) {
                ops.push(if rng.chance(2, 3) { Op::Recv(c) } else { Op::TryRecv(c) });
            } else {
                ops.push(if rng.chance(3, 4) { Op::Send(c) } else { Op::TrySend(c) });
            }
        }
        11 => {
            ops.push(match rng.below(3) {
                0 => Op::Park,
                1 => Op::UnparkParent,
                _ => Op::UnparkChild(0),
            });
        }
        12 => ops.push(match rng.below(3) {
            0 => Op::Yield,
            1 => Op::Sleep,
            _ => Op::Spin,
        }),
        13 => ops.push(Op::Rand(2 + rng.below(5) as u64)),
        15 => ops.push(Op::TlsWith(rng.below(3))),
        16 => ops.push(if rng.chance(1, 2) { Op::LazyGet(rng.below(2)) } else { Op::StaticOnce(rng.below(2)) }),
        17 => ops.push(match rng.below(3) {
            0 => Op::ThreadInfo,
            1 => Op::LabelSet,
            _ => Op::LabelGet,
        }),
        18 => ops.push(Op::ResetSteps),
        19 => {
            let sm = rng.below(res.sems.len());
            let n = 1 + rng.below(3);
            ops.push(match rng.below(12) {
                0 | 1 | 2 | 3 => Op::SemAcquire(sm, n),
                4 | 5 => Op::SemTry(sm, n),
                6 | 7 | 8 => Op::SemRelease(sm, n),
                9 | 10 => Op::SemCancel(sm, n, rng.below(3)),
                _ => {
                    if rng.chance(1, 3) {
                        Op::SemClose(sm)
                    } else {
                        Op::SemRelease(sm, n)
                    }
                }
            });
        }
        _ => unreachable!(),
    }
}

/// Candidate smaller programs for minimisation: drop one op, drop one leaf body.
pub fn shrink_candidates(p: &Program) -> Vec<Program> {
    let mut out = vec![];
    // drop a leaf body (a body that spawns nothing) together with its Spawn op; later bodies shift down
    for b in (1..p.bodies.len()).rev() {
        if p.bodies[b].iter().any(|o| matches!(o, Op::Spawn(_) | Op::Scope(..))) {
            continue;
        }
        if !p.bodies.iter().any(|ops| ops.iter().any(|o| matches!(o, Op::Spawn(x) if *x == b))) {
            continue; // scoped child: keep
        }
        let mut q = p.clone();
        q.bodies.remove(b);
        // fix references
        let mut ok = true;
        for (bi, ops) in q.bodies.iter_mut().enumerate() {
            // remove Spawn(b) and renumber joins of the remaining slots
            let mut new_ops = vec![];
            let mut slot = 0usize;
            let mut removed_slot: Option<usize> = None;
            for o in ops.iter() {
                match o {
                    Op::Spawn(x) if *x == b => {
                        removed_slot = Some(slot);
                        slot += 1;
                    }
                    Op::Spawn(x) => {
                        new_ops.push(Op::Spawn(if *x > b { *x - 1 } else { *x }));
                        slot += 1;
                    }
                    Op::Scope(bs, inner) => {
                        new_ops.push(Op::Scope(bs.iter().map(|x| if *x > b { *x - 1 } else { *x }).collect(), inner.clone()));
                    }
                    other => new_ops.push(other.clone()),
                }
            }
            if let Some(rs) = removed_slot {
                new_ops = new_ops
                    .into_iter()
                    .filter_map(|o| match o {
                        Op::Join(s) if s == rs => None,
                        Op::Join(s) if s > rs => Some(Op::Join(s - 1)),
                        Op::UnparkChild(s) if s == rs => None,
                        Op::UnparkChild(s) if s > rs => Some(Op::UnparkChild(s - 1)),
                        o => Some(o),
                    })
                    .collect();
            }
            let _ = bi;
            *ops = new_ops;
        }
        for o in q.res.rx_owner.iter_mut() {
            if *o == b {
                ok = false;
            } else if *o > b {
                *o -= 1;
            }
        }
        if ok && q.well_formed() {
            out.push(q);
        }
    }
    for b in 0..p.bodies.len() {
        for i in 0..p.bodies[b].len() {
            if matches!(p.bodies[b][i], Op::Spawn(_)) {
                continue;
            }
            if let Op::Scope(bs, inner) = &p.bodies[b][i] {
                // shrink the inner operations of a scope
                for j in 0..inner.len() {
                    let mut q = p.clone();
                    let mut inn = inner.clone();
                    inn.remove(j);
                    q.bodies[b][i] = Op::Scope(bs.clone(), inn);
                    out.push(q);
                }
                continue;
            }
            let mut q = p.clone();
            let removed = q.bodies[b].remove(i);
            let _ = removed;
            out.push(q);
        }
    }
    out
}
