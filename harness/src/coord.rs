//! Coordinator / worker machinery, evidence writer, known-findings matcher, replay files.
//!
//! `vcheck <Cxx> [--tier quick|thorough]`             coordinator (spawns workers = re-exec of itself)
//! `vcheck --worker <Cxx> <tier> <seed> <batch> <from> <to>`  worker: runs [from,to) of a batch
//! `vcheck <Cxx> --replay <file>`                     replays one replay file in this process
//!
//! Exit codes: 0 property held on everything explored, 1 violation (a `VIOLATION property=..
//! replay=..` line was printed), 2 harness error.

use crate::sim::derive;
use serde::{Deserialize, Serialize};
use serde_json::{json, Value};
use std::collections::{BTreeMap, BTreeSet};
use std::io::Write;
use std::path::PathBuf;
use std::process::{Command, Stdio};
use std::sync::{Arc, Mutex};
use std::time::{Duration, Instant};

#[derive(Clone, Copy, Debug, PartialEq, Eq)]
pub enum Tier {
    Quick,
    Thorough,
}

impl Tier {
    pub fn name(&self) -> &'static str {
        match self {
            Tier::Quick => "quick",
            Tier::Thorough => "thorough",
        }
    }
    pub fn pick(&self, q: u64, t: u64) -> u64 {
        match self {
            Tier::Quick => q,
            Tier::Thorough => t,
        }
    }
}

#[derive(Clone, Debug)]
pub struct Batch {
    pub name: &'static str,
    pub runs: u64,
    /// runs per worker chunk
    pub chunk: u64,
    /// true: every run of this batch needs a fresh process (chunk is forced to 1)
    pub fresh_process: bool,
}

impl Batch {
    pub fn new(name: &'static str, runs: u64, chunk: u64) -> Self {
        Batch { name, runs, chunk: chunk.max(1), fresh_process: false }
    }
}

#[derive(Clone, Debug, Default, Serialize, Deserialize)]
pub struct Violation {
    /// stable class key, used for de-duplication and for matching known findings
    pub key: String,
    pub detail: String,
    /// replayable case (check-specific JSON); Null = replay by re-running the run index
    pub case: Value,
}

#[derive(Clone, Debug, Default, Serialize, Deserialize)]
pub struct RunOut {
    pub counters: BTreeMap<String, u64>,
    /// hashes of distinct non-trivial cases explored by this run
    pub distinct: Vec<u64>,
    /// number of simulated executions performed by this run
    pub evals: u64,
    /// scheduler decisions ("simulated time")
    pub decisions: u64,
    pub sample: Option<Value>,
    pub violations: Vec<Violation>,
}

impl RunOut {
    pub fn count(&mut self, k: &str, n: u64) {
        *self.counters.entry(k.to_string()).or_insert(0) += n;
    }
    pub fn violation(&mut self, key: impl Into<String>, detail: impl Into<String>, case: Value) {
        self.violations.push(Violation { key: key.into(), detail: detail.into(), case });
    }
    pub fn merge(&mut self, o: RunOut) {
        for (k, v) in o.counters {
            *self.counters.entry(k).or_insert(0) += v;
        }
        self.distinct.extend(o.distinct);
        self.evals += o.evals;
        self.decisions += o.decisions;
        if self.sample.is_none() {
            self.sample = o.sample;
        }
        self.violations.extend(o.violations);
    }
}

pub struct Check {
    pub id: &'static str,
    pub level: &'static str,
    pub rule: &'static str,
    pub assumptions: &'static [&'static str],
    pub real_components: &'static str,
    pub batches: fn(Tier) -> Vec<Batch>,
    /// run one simulated run
    pub run: fn(batch: &str, idx: u64, seed: u64, tier: Tier) -> RunOut,
    /// replay a stored case; returns the violations it reproduces
    pub replay: fn(case: &Value) -> RunOut,
    /// probes that should be non-zero in a healthy batch (reach probes)
    pub probes: &'static [&'static str],
}

#[derive(Clone, Debug, Serialize, Deserialize)]
pub struct KnownFinding {
    pub property: String,
    /// prefix of the violation key this finding covers
    pub key: String,
    pub what: String,
    #[serde(default)]
    pub status: String, // "known" | "fixed"
    #[serde(default)]
    pub commit: String,
}

pub fn verif_root() -> PathBuf {
    if let Ok(p) = std::env::var("VERIF_ROOT") {
        return PathBuf::from(p);
    }
    // harness/target/release/vcheck -> /verif
    let exe = std::env::current_exe().unwrap();
    let mut p = exe.clone();
    for _ in 0..4 {
        p.pop();
    }
    if p.join("properties.jsonl").exists() {
        p
    } else {
        PathBuf::from("/verif")
    }
}

pub fn load_known() -> Vec<KnownFinding> {
    let p = verif_root().join("known_findings.json");
    match std::fs::read_to_string(&p) {
        Ok(s) => {
            let v: Value = serde_json::from_str(&s).expect("known_findings.json is not valid JSON");
            let arr = v.get("findings").cloned().unwrap_or(Value::Array(vec![]));
            serde_json::from_value(arr).expect("known_findings.json: bad entry")
        }
        Err(_) => vec![],
    }
}

pub fn verif_seed() -> u64 {
    std::env::var("VERIF_SEED")
        .ok()
        .and_then(|s| s.trim().parse::<u64>().ok())
        .unwrap_or(20260922)
}

fn scratch_dir() -> PathBuf {
    let d = verif_root().join("harness").join("target").join("vtmp");
    let _ = std::fs::create_dir_all(&d);
    d
}

pub fn scrub_env(cmd: &mut Command) {
    for k in [
        "SHUTTLE_RANDOM_SEED",
        "SHUTTLE_ALWAYS_PERSIST_SEED",
        "SHUTTLE_CAPTURE_BACKTRACE",
        "SHUTTLE_SILENCE_WARNINGS",
        "SHUTTLE_ANNOTATION_FILE",
        "RUST_BACKTRACE",
        "RUST_LOG",
    ] {
        cmd.env_remove(k);
    }
    cmd.env("RUST_BACKTRACE", "0");
}

struct Chunk {
    batch: String,
    from: u64,
    to: u64,
}

struct ChunkResult {
    out: RunOut,
    crashed: Option<(u64, String)>,
}

fn run_chunk(id: &str, tier: Tier, seed: u64, c: &Chunk, timeout: Duration) -> ChunkResult {
    let exe = std::env::current_exe().unwrap();
    let tmp = scratch_dir().join(format!("w-{}-{}-{}-{}.out", id, c.batch, c.from, std::process::id()));
    let f = std::fs::File::create(&tmp).expect("scratch file");
    let mut cmd = Command::new(exe);
    cmd.arg("--worker")
        .arg(id)
        .arg(tier.name())
        .arg(seed.to_string())
        .arg(&c.batch)
        .arg(c.from.to_string())
        .arg(c.to.to_string())
        .stdin(Stdio::null())
        .stdout(Stdio::from(f))
        .stderr(Stdio::null());
    scrub_env(&mut cmd);
    let mut child = cmd.spawn().expect("spawn worker");
    let start = Instant::now();
    let status = loop {
        match child.try_wait().expect("wait") {
            Some(st) => break Some(st),
            None => {
                if start.elapsed() > timeout {
                    let _ = child.kill();
                    let _ = child.wait();
                    break None;
                }
                std::thread::sleep(Duration::from_millis(5));
            }
        }
    };
    let text = std::fs::read_to_string(&tmp).unwrap_or_default();
    let _ = std::fs::remove_file(&tmp);
    let mut out = RunOut::default();
    let mut last_at: Option<u64> = None;
    let mut done = false;
    for line in text.lines() {
        if let Some(r) = line.strip_prefix("@ ") {
            last_at = r.trim().parse().ok();
        } else if let Some(r) = line.strip_prefix("OUT ") {
            if let Ok(o) = serde_json::from_str::<RunOut>(r) {
                out.merge(o);
            }
        } else if line == "DONE" {
            done = true;
        }
    }
    let crashed = if done && status.map(|s| s.success()).unwrap_or(false) {
        None
    } else {
        let why = match status {
            None => format!("worker hung for more than {:?} (killed)", timeout),
            Some(st) => format!("worker exited abnormally: {:?}", st),
        };
        Some((last_at.unwrap_or(c.from), why))
    };
    ChunkResult { out, crashed }
}

pub fn worker_main(check: &Check, tier: Tier, seed: u64, batch: &str, from: u64, to: u64) -> i32 {
    crate::sim::silence_panics();
    let stdout = std::io::stdout();
    let mut acc = RunOut::default();
    for idx in from..to {
        {
            let mut l = stdout.lock();
            let _ = writeln!(l, "@ {}", idx);
            let _ = l.flush();
        }
        let run_seed = derive(seed, &format!("{}:{}", check.id, batch), idx);
        let mut o = (check.run)(batch, idx, run_seed, tier);
        for v in o.violations.iter_mut() {
            if v.case.is_null() {
                v.case = json!({"rerun": {"batch": batch, "idx": idx}});
            }
        }
        // keep the accumulated output bounded
        if acc.sample.is_some() {
            o.sample = None;
        }
        acc.merge(o);
        if acc.violations.len() > 50 {
            acc.violations.truncate(50);
        }
    }
    let mut l = stdout.lock();
    let _ = writeln!(l, "OUT {}", serde_json::to_string(&acc).unwrap());
    let _ = writeln!(l, "DONE");
    let _ = l.flush();
    0
}

pub fn replay_main(check: &Check, path: &str) -> i32 {
    crate::sim::silence_panics();
    let text = match std::fs::read_to_string(path) {
        Ok(t) => t,
        Err(e) => {
            eprintln!("cannot read replay file {}: {}", path, e);
            return 2;
        }
    };
    let v: Value = match serde_json::from_str(&text) {
        Ok(v) => v,
        Err(e) => {
            eprintln!("replay file is not JSON: {}", e);
            return 2;
        }
    };
    let case = v.get("case").cloned().unwrap_or(Value::Null);
    let seed = v.get("verif_seed").and_then(|s| s.as_u64()).unwrap_or_else(verif_seed);
    let out = if let Some(r) = case.get("rerun") {
        let batch = r["batch"].as_str().unwrap_or("").to_string();
        let idx = r["idx"].as_u64().unwrap_or(0);
        let tier = if v.get("tier").and_then(|t| t.as_str()) == Some("thorough") { Tier::Thorough } else { Tier::Quick };
        let run_seed = derive(seed, &format!("{}:{}", check.id, batch), idx);
        (check.run)(&batch, idx, run_seed, tier)
    } else {
        (check.replay)(&case)
    };
    let want = v.get("key").and_then(|k| k.as_str()).unwrap_or("");
    let mut hit = false;
    for viol in &out.violations {
        println!("replayed violation: {} :: {}", viol.key, viol.detail);
        if want.is_empty() || viol.key == want {
            hit = true;
        }
    }
    if hit {
        println!("VIOLATION property={} replay={}", check.id, path);
        1
    } else {
        println!("replay of {} did not reproduce violation '{}'", path, want);
        0
    }
}

pub fn coordinator_main(check: &Check, tier: Tier) -> i32 {
    let seed = verif_seed();
    let t0 = Instant::now();
    println!("vcheck {} tier={} VERIF_SEED={}", check.id, tier.name(), seed);
    let known: Vec<KnownFinding> = load_known().into_iter().filter(|k| k.property == check.id).collect();
    let batches = (check.batches)(tier);
    let mut chunks: Vec<Chunk> = vec![];
    for b in &batches {
        let step = if b.fresh_process { 1 } else { b.chunk };
        let mut from = 0;
        while from < b.runs {
            let to = (from + step).min(b.runs);
            chunks.push(Chunk { batch: b.name.to_string(), from, to });
            from = to;
        }
    }
    // Interleave the batches (each chunk is ordered by the fraction of its batch that precedes it),
    // so that a wall-clock cap trims every batch proportionally instead of dropping the last ones.
    {
        let runs_of: BTreeMap<String, u64> = batches.iter().map(|b| (b.name.to_string(), b.runs.max(1))).collect();
        let order: BTreeMap<String, usize> = batches.iter().enumerate().map(|(i, b)| (b.name.to_string(), i)).collect();
        chunks.sort_by(|x, y| {
            let fx = (x.from as u128 * 1_000_000 / runs_of[&x.batch] as u128, order[&x.batch]);
            let fy = (y.from as u128 * 1_000_000 / runs_of[&y.batch] as u128, order[&y.batch]);
            fx.cmp(&fy)
        });
    }
    let total_runs: u64 = batches.iter().map(|b| b.runs).sum();
    let workers = std::env::var("VERIF_WORKERS")
        .ok()
        .and_then(|s| s.parse::<usize>().ok())
        .unwrap_or_else(|| std::thread::available_parallelism().map(|n| n.get()).unwrap_or(4).min(16));
    let queue = Arc::new(Mutex::new(chunks.into_iter().collect::<std::collections::VecDeque<_>>()));
    let results: Arc<Mutex<Vec<(String, u64, ChunkResult)>>> = Arc::new(Mutex::new(vec![]));
    let wall_cap = Duration::from_secs(
        std::env::var("VERIF_WALL_CAP").ok().and_then(|s| s.parse().ok()).unwrap_or(match tier {
            Tier::Quick => 100,
            Tier::Thorough => 1500,
        }),
    );
    // hang detection is by wall clock and must not fire on a merely overloaded machine
    let chunk_timeout = Duration::from_secs(match tier {
        Tier::Quick => 600,
        Tier::Thorough => 1800,
    });
    let id = check.id.to_string();
    let capped = Arc::new(Mutex::new(0u64));
    let mut handles = vec![];
    for _ in 0..workers {
        let queue = queue.clone();
        let results = results.clone();
        let id = id.clone();
        let capped = capped.clone();
        handles.push(std::thread::spawn(move || loop {
            let c = {
                let mut q = queue.lock().unwrap();
                q.pop_front()
            };
            let c = match c {
                Some(c) => c,
                None => break,
            };
            if t0.elapsed() > wall_cap {
                *capped.lock().unwrap() += c.to - c.from;
                continue;
            }
            let r = run_chunk(&id, tier, seed, &c, chunk_timeout);
            results.lock().unwrap().push((c.batch.clone(), c.from, r));
        }));
    }
    for h in handles {
        let _ = h.join();
    }
    let mut res = std::mem::take(&mut *results.lock().unwrap());
    // aggregate in a deterministic order (independent of worker count / arrival order)
    res.sort_by(|a, b| (a.0.as_str(), a.1).cmp(&(b.0.as_str(), b.1)));
    let mut total = RunOut::default();
    let mut per_batch: BTreeMap<String, u64> = BTreeMap::new();
    let mut samples: Vec<Value> = vec![];
    let mut crashes: Vec<(String, u64, String)> = vec![];
    for (b, _from, r) in res {
        *per_batch.entry(b.clone()).or_insert(0) += r.out.evals;
        if let Some(s) = &r.out.sample {
            if samples.len() < 6 && !samples.iter().any(|x| x.get("batch") == Some(&json!(b))) {
                samples.push(json!({"batch": b, "case": s}));
            }
        }
        if let Some((idx, why)) = r.crashed {
            crashes.push((b.clone(), idx, why));
        }
        total.merge(r.out);
    }
    for (b, idx, why) in crashes {
        total.violations.push(Violation {
            key: format!("{}:worker-abort", check.id),
            detail: format!("batch {} run {}: {}", b, idx, why),
            case: json!({"rerun": {"batch": b, "idx": idx}}),
        });
    }
    let distinct: BTreeSet<u64> = total.distinct.iter().cloned().collect();
    if samples.is_empty() {
        samples.push(json!({"batch": batches.first().map(|b| b.name).unwrap_or(""), "case": "no run of this batch recorded a sample (all runs were skipped by the wall cap or ended before sampling)"}));
    }

    // triage violations against the known-findings file
    let replay_dir = verif_root().join("replays");
    let _ = std::fs::create_dir_all(&replay_dir);
    let mut seen_keys: BTreeSet<String> = BTreeSet::new();
    let mut known_hit: BTreeMap<String, u64> = BTreeMap::new();
    let mut new_violations: Vec<(Violation, PathBuf)> = vec![];
    for v in &total.violations {
        if let Some(k) = known.iter().find(|k| k.status != "fixed" && v.key.starts_with(&k.key)) {
            *known_hit.entry(k.key.clone()).or_insert(0) += 1;
            if std::env::var("VERIF_DUMP_KNOWN").is_ok() {
                eprintln!("known-hit {} :: {} :: {}", v.key, v.detail, v.case);
            }
            continue;
        }
        if !seen_keys.insert(v.key.clone()) {
            continue;
        }
        let n = new_violations.len();
        let path = replay_dir.join(format!("{}-{}-{}.json", check.id, seed, n));
        let body = json!({
            "property": check.id,
            "verif_seed": seed,
            "tier": tier.name(),
            "key": v.key,
            "detail": v.detail,
            "case": v.case,
        });
        let _ = std::fs::write(&path, serde_json::to_string_pretty(&body).unwrap());
        new_violations.push((v.clone(), path));
    }
    for k in &known {
        if k.status == "fixed" {
            continue;
        }
        if known_hit.get(&k.key).cloned().unwrap_or(0) > 0 {
            println!("KNOWN-FINDING: property={} {} [{} occurrences, key {}]", check.id, k.what, known_hit[&k.key], k.key);
        }
    }
    for (v, p) in &new_violations {
        println!("violation: {} :: {}", v.key, v.detail.lines().next().unwrap_or(""));
        println!("VIOLATION property={} replay={}", check.id, p.display());
    }
    let wall = t0.elapsed().as_secs_f64();
    let mut zero_probes = vec![];
    for p in check.probes {
        if total.counters.get(*p).cloned().unwrap_or(0) == 0 {
            zero_probes.push(p.to_string());
        }
    }
    if !zero_probes.is_empty() {
        println!("warning: reach probes at zero: {:?}", zero_probes);
    }
    let capped_runs = *capped.lock().unwrap();
    let evals = total.evals.max(1);
    let evidence = json!({
        "property_id": check.id,
        "tier": tier.name(),
        "seed": seed,
        "level": check.level,
        "coverage": {
            "evaluations": evals,
            "distinct_nontrivial": distinct.len(),
            "rule": check.rule,
            "samples": samples,
            "simulated_runs": total_runs - capped_runs,
            "runs_skipped_by_wall_cap": capped_runs,
            "executions_per_batch": per_batch,
            "simulated_time_decisions": total.decisions,
            "runs_per_hour": (evals as f64 / wall.max(0.001) * 3600.0) as u64,
            "counters_and_probes": total.counters,
            "probes_at_zero": zero_probes,
            "known_findings_hit": known_hit,
            "real_vs_stub": check.real_components,
            "workers": workers,
        },
        "assumptions": check.assumptions,
        "wall_s": wall,
        "violations": new_violations.len(),
    });
    let ev_dir = verif_root().join("evidence");
    let _ = std::fs::create_dir_all(&ev_dir);
    if let Err(e) = std::fs::write(ev_dir.join(format!("{}.json", check.id)), serde_json::to_string_pretty(&evidence).unwrap()) {
        eprintln!("cannot write evidence: {}", e);
        return 2;
    }
    println!(
        "{}: {} runs, {} executions, {} distinct non-trivial, {} decisions, {:.1}s, {} violations ({} known-finding hits)",
        check.id,
        total_runs - capped_runs,
        total.evals,
        distinct.len(),
        total.decisions,
        wall,
        new_violations.len(),
        known_hit.values().sum::<u64>()
    );
    if new_violations.is_empty() {
        0
    } else {
        1
    }
}
