//! C19 — micro-operations, part B: oneshot, watch, Notify, timeouts; the dispatcher, the effect of
//! cancelling an operation in flight, and the two enabledness predicates.

use super::c19_micro_a::micro_a;
use super::c19_model::*;
use super::c19_prog::{Op, TProgram};

fn done(n: MState, r: Res) -> Option<Vec<Out>> {
    Some(vec![Out::Done(n, r)])
}
fn cont(n: MState, j: u8) -> Option<Vec<Out>> {
    Some(vec![Out::Cont(n, j)])
}
fn skip(n: MState) -> Option<Vec<Out>> {
    done(n, ex("skip"))
}

/// pseudo micro-operation: the operation's future is being dropped (its cancellation effect has
/// happened, the End / Cancel event is still ahead)
pub const DROPPING: u8 = 200;

const R_FALSE: u64 = 0;
const R_TRUE: u64 = 1;
const R_ERR: u64 = 2;

/// Execute micro-operation `j` of `op` (never a Cancel / Timeout wrapper) for task `t`.
/// None = guard false.
pub fn micro(p: &TProgram, h: &Hyp, s: &MState, t: usize, op: &Op, j: u8, uv: u64) -> Option<Vec<Out>> {
    if j == DROPPING {
        return None;
    }
    if let Some(r) = micro_a(p, h, s, t, op, j, uv) {
        return r;
    }
    let mut n = s.clone();
    match op {
        // ------------------------------------------------------------------ oneshot
        Op::OsSend(o) => {
            if !s.tasks[t].ostx[*o] {
                return skip(n);
            }
            n.tasks[t].ostx[*o] = false;
            if !s.ones[*o].rx_alive || s.ones[*o].rx_closed {
                n.ones[*o].tx = 2;
                done(n, ex("err"))
            } else {
                n.ones[*o].val = Some(uv);
                n.ones[*o].tx = 1;
                done(n, ex("ok"))
            }
        }
        Op::OsRecv(o) => {
            let o = *o;
            if !s.tasks[t].osrx[o] || s.tasks[t].os_taken[o] {
                return skip(n);
            }
            match j {
                0 => {
                    if let Some(v) = s.ones[o].val {
                        n.ones[o].val = None;
                        n.tasks[t].tmp = v;
                        cont(n, 1)
                    } else if s.ones[o].tx == 2 || s.ones[o].rx_closed {
                        n.tasks[t].tmp = u64::MAX;
                        cont(n, 1)
                    } else {
                        None
                    }
                }
                _ => {
                    // a completed receive consumes the receiver
                    n.tasks[t].osrx[o] = false;
                    n.ones[o].rx_alive = false;
                    if s.tasks[t].tmp == u64::MAX {
                        done(n, ex("err"))
                    } else {
                        done(n, ex(format!("ok:{}", s.tasks[t].tmp)))
                    }
                }
            }
        }
        Op::OsTryRecv(o) => {
            let o = *o;
            if !s.tasks[t].osrx[o] {
                return skip(n);
            }
            if let Some(v) = s.ones[o].val {
                n.ones[o].val = None;
                n.tasks[t].os_taken[o] = true;
                done(n, ex(format!("ok:{}", v)))
            } else if s.ones[o].tx != 0 || s.ones[o].rx_closed {
                // sender gone (dropped, or its value was already taken), or closed by the receiver
                done(n, ex("closed"))
            } else {
                done(n, ex("empty"))
            }
        }
        Op::OsClose(o) => {
            if !s.tasks[t].osrx[*o] {
                return skip(n);
            }
            n.ones[*o].rx_closed = true;
            done(n, ex(""))
        }
        Op::OsDropTx(o) => {
            if !s.tasks[t].ostx[*o] {
                return skip(n);
            }
            n.tasks[t].ostx[*o] = false;
            n.ones[*o].tx = 2;
            done(n, ex("ok"))
        }
        Op::OsDropRx(o) => {
            if !s.tasks[t].osrx[*o] {
                return skip(n);
            }
            n.tasks[t].osrx[*o] = false;
            n.ones[*o].rx_alive = false;
            done(n, ex("ok"))
        }
        Op::OsTxClosed(o) => {
            if !s.tasks[t].ostx[*o] {
                return skip(n);
            }
            done(n, ex((!s.ones[*o].rx_alive || s.ones[*o].rx_closed).to_string()))
        }
        // ------------------------------------------------------------------ watch
        Op::WSend(w) => {
            let w = *w;
            if !s.tasks[t].wtx[w] {
                return skip(n);
            }
            match j {
                0 => {
                    if s.watches[w].rx_count == 0 {
                        done(n, ex("err"))
                    } else {
                        cont(n, 1)
                    }
                }
                1 => {
                    n.watches[w].val = uv;
                    n.watches[w].ver += 1;
                    cont(n, 2)
                }
                _ => done(n, ex("ok")),
            }
        }
        Op::WSendReplace(w) => {
            let w = *w;
            if !s.tasks[t].wtx[w] {
                return skip(n);
            }
            match j {
                0 => {
                    n.tasks[t].tmp = s.watches[w].val;
                    n.watches[w].val = uv;
                    n.watches[w].ver += 1;
                    cont(n, 1)
                }
                _ => done(n, ex(s.tasks[t].tmp.to_string())),
            }
        }
        Op::WSendIfModified(w, m) => {
            let w = *w;
            if !s.tasks[t].wtx[w] {
                return skip(n);
            }
            match j {
                0 => {
                    if *m {
                        n.watches[w].val = uv;
                        n.watches[w].ver += 1;
                    }
                    cont(n, 1)
                }
                _ => done(n, ex(m.to_string())),
            }
        }
        Op::WBorrow(w) | Op::WBorrowUpdate(w) | Op::WTxBorrow(w) => {
            let w = *w;
            let has = if matches!(op, Op::WTxBorrow(_)) { s.tasks[t].wtx[w] } else { s.tasks[t].wrx[w].is_some() };
            if !has {
                return skip(n);
            }
            match j {
                0 => {
                    n.tasks[t].tmp = s.watches[w].val;
                    if matches!(op, Op::WBorrowUpdate(_)) {
                        n.tasks[t].wrx[w] = Some(s.watches[w].ver);
                    }
                    cont(n, 1)
                }
                _ => done(n, ex(s.tasks[t].tmp.to_string())),
            }
        }
        Op::WHasChanged(w) => match s.tasks[t].wrx[*w] {
            None => skip(n),
            Some(seen) => {
                if s.watches[*w].tx_count == 0 {
                    done(n, ex("err"))
                } else {
                    done(n, ex((seen != s.watches[*w].ver).to_string()))
                }
            }
        },
        Op::WChanged(w) => {
            let w = *w;
            let seen = match s.tasks[t].wrx[w] {
                None => return skip(n),
                Some(v) => v,
            };
            match j {
                0 => {
                    if seen != s.watches[w].ver {
                        n.tasks[t].wrx[w] = Some(s.watches[w].ver);
                        n.tasks[t].tmp = R_TRUE;
                        cont(n, 1)
                    } else if s.watches[w].tx_count == 0 {
                        n.tasks[t].tmp = R_ERR;
                        cont(n, 1)
                    } else {
                        None
                    }
                }
                _ => done(n, ex(if s.tasks[t].tmp == R_TRUE { "ok" } else { "err" })),
            }
        }
        Op::WSubscribe(w) => {
            if !s.tasks[t].wtx[*w] || s.tasks[t].wrx[*w].is_some() {
                return skip(n);
            }
            n.tasks[t].wrx[*w] = Some(s.watches[*w].ver);
            n.watches[*w].rx_count += 1;
            done(n, ex("ok"))
        }
        Op::WDropRx(w) => {
            if s.tasks[t].wrx[*w].is_none() {
                return skip(n);
            }
            match j {
                0 => {
                    n.watches[*w].rx_count -= 1;
                    // keep the precondition true for micro 1
                    cont(n, 1)
                }
                _ => {
                    n.tasks[t].wrx[*w] = None;
                    done(n, ex("ok"))
                }
            }
        }
        Op::WDropTx(w) => {
            if !s.tasks[t].wtx[*w] {
                return skip(n);
            }
            match j {
                0 => {
                    n.watches[*w].tx_count -= 1;
                    cont(n, 1)
                }
                _ => {
                    n.tasks[t].wtx[*w] = false;
                    done(n, ex("ok"))
                }
            }
        }
        Op::WRxCount(w) => {
            if !s.tasks[t].wtx[*w] {
                return skip(n);
            }
            done(n, ex(s.watches[*w].rx_count.to_string()))
        }
        Op::WClosed(w) => {
            if !s.tasks[t].wtx[*w] {
                return skip(n);
            }
            match j {
                0 => {
                    if s.watches[*w].rx_count == 0 {
                        cont(n, 1)
                    } else {
                        None
                    }
                }
                _ => done(n, ex("")),
            }
        }
        // ------------------------------------------------------------------ notify
        Op::NCreate(ni, slot) => {
            if *slot >= s.tasks[t].nslots.len() || s.tasks[t].nslots[*slot].is_some() {
                return skip(n);
            }
            let id = n.notifies[*ni].create();
            n.tasks[t].nslots[*slot] = Some((*ni, id));
            done(n, ex("ok"))
        }
        Op::NEnable(slot) => match s.tasks[t].nslots.get(*slot).cloned().flatten() {
            None => skip(n),
            Some((ni, id)) => match j {
                0 => {
                    let r = n.notifies[ni].enable(id);
                    n.tasks[t].tmp = if r { R_TRUE } else { R_FALSE };
                    cont(n, 1)
                }
                _ => done(n, ex((s.tasks[t].tmp == R_TRUE).to_string())),
            },
        },
        Op::NAwait(slot) => match s.tasks[t].nslots.get(*slot).cloned().flatten() {
            None => skip(n),
            Some((ni, id)) => match j {
                0 => {
                    if n.notifies[ni].enable(id) {
                        n.notifies[ni].remove(id);
                        cont(n, 2)
                    } else {
                        cont(n, 1)
                    }
                }
                1 => match s.notifies[ni].st(id) {
                    Some(2) | Some(3) => {
                        n.notifies[ni].remove(id);
                        cont(n, 2)
                    }
                    _ => None,
                },
                _ => {
                    n.tasks[t].nslots[*slot] = None;
                    done(n, ex("ok"))
                }
            },
        },
        Op::NDrop(slot) => {
            if j >= 1 {
                // the forwarding notify_one has a scheduling point after its effect
                n.tasks[t].nslots[*slot] = None;
                return done(n, ex("ok"));
            }
            match s.tasks[t].nslots.get(*slot).cloned().flatten() {
                None => skip(n),
                Some((ni, id)) => {
                    // the slot stays occupied until micro 1 so that the precondition holds there;
                    // the waiter itself is gone
                    let outs = s.notifies[ni]
                        .drop_waiter(id, h)
                        .into_iter()
                        .map(|nn| {
                            let mut m = n.clone();
                            m.notifies[ni] = nn;
                            Out::Cont(m, 1)
                        })
                        .collect();
                    Some(outs)
                }
            }
        }
        Op::Notified(ni) => {
            let ni = *ni;
            match j {
                0 => {
                    let id = n.notifies[ni].create();
                    n.tasks[t].tmp = id as u64;
                    cont(n, 1)
                }
                1 => {
                    let id = s.tasks[t].tmp as u32;
                    if n.notifies[ni].enable(id) {
                        n.notifies[ni].remove(id);
                        cont(n, 3)
                    } else {
                        cont(n, 2)
                    }
                }
                2 => {
                    let id = s.tasks[t].tmp as u32;
                    match s.notifies[ni].st(id) {
                        Some(2) | Some(3) => {
                            n.notifies[ni].remove(id);
                            cont(n, 3)
                        }
                        _ => None,
                    }
                }
                _ => done(n, ex("ok")),
            }
        }
        Op::NotifyOne(ni) => match j {
            0 => Some(
                s.notifies[*ni]
                    .notify_one()
                    .into_iter()
                    .map(|nn| {
                        let mut m = n.clone();
                        m.notifies[*ni] = nn;
                        Out::Cont(m, 1)
                    })
                    .collect(),
            ),
            _ => done(n, ex("")),
        },
        Op::NotifyWaiters(ni) => match j {
            0 => {
                for w in n.notifies[*ni].waiters.iter_mut() {
                    if w.1 == 1 || (w.1 == 0 && !h.nw_skips_init) {
                        w.1 = 2;
                    }
                }
                if h.nw_clears_permit {
                    n.notifies[*ni].permit = false;
                }
                cont(n, 1)
            }
            _ => done(n, ex("")),
        },
        // ------------------------------------------------------------------ timeouts
        Op::Trigger(b) => {
            if *b < n.triggered.len() {
                n.triggered[*b] = true;
            }
            done(n, ex(""))
        }
        Op::Cancel(inner, _, _) | Op::Timeout(inner) => micro(p, h, s, t, inner, j, uv),
        _ => skip(n),
    }
}

/// The effect of dropping the future of `op` (a core operation) while task `t` is at micro `j`.
/// None = the operation cannot be cancelled there (a poll runs to the next wait point).
pub fn cancel_effect(h: &Hyp, s: &MState, t: usize, op: &Op, j: u8) -> Option<Vec<MState>> {
    let mut n = s.clone();
    let one = |n: MState| Some(vec![n]);
    match op {
        Op::Acquire(si, _) if j <= 1 => {
            n.sems[*si].cancel(t);
            one(n)
        }
        Op::Lock(mi) if j <= 1 => {
            n.mutexes[*mi].sem.cancel(t);
            one(n)
        }
        Op::Read(ri) | Op::Write(ri) if j <= 1 => {
            n.rws[*ri].sem.cancel(t);
            one(n)
        }
        Op::Send(c) if j <= 1 => {
            n.chans[*c].cap.cancel(t);
            one(n)
        }
        Op::Recv(_) if j <= 1 => one(n),
        Op::OsRecv(_) | Op::WChanged(_) | Op::WClosed(_) if j == 0 => one(n),
        Op::Join(_) | Op::Yield => one(n),
        Op::NAwait(slot) if j <= 1 => match s.tasks[t].nslots.get(*slot).cloned().flatten() {
            None => one(n),
            Some((ni, id)) => {
                n.tasks[t].nslots[*slot] = None;
                Some(
                    s.notifies[ni]
                        .drop_waiter(id, h)
                        .into_iter()
                        .map(|nn| {
                            let mut m = n.clone();
                            m.notifies[ni] = nn;
                            m
                        })
                        .collect(),
                )
            }
        },
        Op::Notified(_) if j == 0 => one(n),
        Op::Notified(ni) if j <= 2 => {
            let id = s.tasks[t].tmp as u32;
            Some(
                s.notifies[*ni]
                    .drop_waiter(id, h)
                    .into_iter()
                    .map(|nn| {
                        let mut m = n.clone();
                        m.notifies[*ni] = nn;
                        m
                    })
                    .collect(),
            )
        }
        _ => None,
    }
}

/// Label -> operation of body `b`.
pub fn op_for_label(p: &TProgram, b: usize, label: &str) -> Option<(Op, u64)> {
    if let Some(js) = label.strip_prefix("x:") {
        return serde_json::from_str::<Op>(js).ok().map(|o| (o, 0));
    }
    let i: usize = label.parse().ok()?;
    p.bodies[b].ops.get(i).map(|o| (o.clone(), super::c19_prog::unique_val(b, i)))
}

fn guard(p: &TProgram, h: &Hyp, s: &MState, t: usize) -> bool {
    match &s.tasks[t].st {
        TSt::Pending { micro: j } => match op_for_label(p, t, &s.tasks[t].label) {
            Some((op, uv)) => micro(p, h, s, t, op.core(), *j, uv).is_some(),
            None => true,
        },
        _ => true,
    }
}

/// Exact enabledness (used for the verdict at a reported deadlock, where no operation is between
/// its effect and its wake-ups).
pub fn enabled(p: &TProgram, h: &Hyp, s: &MState, t: usize) -> bool {
    match &s.tasks[t].st {
        // Exiting: the body has logged its exit; at a reported deadlock it has finished
        TSt::NotSpawned | TSt::Done | TSt::Exiting => false,
        TSt::Ready | TSt::Idle => true,
        TSt::Pending { .. } => {
            if s.tasks[t].abort_req && !s.tasks[t].thread {
                return true;
            }
            match op_for_label(p, t, &s.tasks[t].label) {
                Some((op, _)) if sync_blocking(s, t, &op) => guard(p, h, s, t),
                Some((Op::Cancel(..), _)) => true,
                Some((Op::Timeout(_), _)) if s.triggered[t] => true,
                _ => guard(p, h, s, t),
            }
        }
    }
}

/// Is the operation executed through a blocking (non-future) variant, so that the fault
/// combinators around it have no effect?
pub fn sync_blocking(s: &MState, t: usize, op: &Op) -> bool {
    match op.core() {
        Op::Lock(_) | Op::Read(_) | Op::Write(_) | Op::Recv(_) | Op::OsRecv(_) => s.tasks[t].thread,
        Op::Send(c) => s.tasks[t].thread && s.chans[*c].bound.is_some(),
        Op::Join(slot) => matches!(s.tasks[t].handles.get(*slot).cloned().flatten(), Some(b) if s.tasks[b].thread),
        _ => false,
    }
}

/// Conservative enabledness (used to prune model states at every decision): true only when the
/// contract makes the task runnable *in the very step* in which the enabling effect happens.
pub fn must_run(p: &TProgram, h: &Hyp, s: &MState, t: usize) -> bool {
    match &s.tasks[t].st {
        TSt::NotSpawned | TSt::Done | TSt::Exiting => false,
        TSt::Ready | TSt::Idle => true,
        TSt::Pending { .. } => {
            let op = match op_for_label(p, t, &s.tasks[t].label) {
                Some((op, _)) => op,
                None => return false,
            };
            if s.tasks[t].abort_req && !s.tasks[t].thread && super::c19_prog::may_await(&op) && !sync_blocking(s, t, &op) {
                // the abort wakes the task; its next poll observes the flag
                return true;
            }
            if let Op::Join(slot) = op.core() {
                // a thread is joinable only after its last step
                if let Some(b) = s.tasks[t].handles.get(*slot).cloned().flatten() {
                    if s.tasks[b].thread && s.tasks[b].st != TSt::Done {
                        return false;
                    }
                }
            }
            if sync_blocking(s, t, &op) {
                return guard(p, h, s, t);
            }
            let lagging = matches!(
                op.core(),
                Op::WSend(_)
                    | Op::WSendReplace(_)
                    | Op::WSendIfModified(..)
                    | Op::WBorrow(_)
                    | Op::WBorrowUpdate(_)
                    | Op::WTxBorrow(_)
                    | Op::WChanged(_)
                    | Op::WClosed(_)
                    | Op::WDropRx(_)
                    | Op::WDropTx(_)
                    | Op::WSubscribe(_)
                    | Op::NAwait(_)
                    | Op::Notified(_)
                    | Op::NEnable(_)
            );
            match &op {
                Op::Cancel(..) => true,
                Op::Timeout(_) if s.triggered[t] => true,
                _ => !lagging && guard(p, h, s, t),
            }
        }
    }
}
