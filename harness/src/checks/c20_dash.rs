//! C20 family 2 — DashMap / DashSet replacement: linearizability against a plain map.
//!
//! Programs over one or two `DashMap<u8,u64>` (<= 3 keys, unique values) and at most one
//! `DashSet<u8>`, from 2-3 threads. Guards (`Ref`, `RefMut`, `Iter`, `IterMut`) can be held across
//! other operations and dropped later. Every operation is logged with Start / End + result. Only
//! one task runs per step, and every operation keeps the map's single lock until the step that
//! logs its End, so the End order IS the linear order: results are compared with a plain
//! `BTreeMap` to which the operations are applied in End order. A live guard is a held read / write
//! lock on the whole map: an operation needing a conflicting mode must not complete while another
//! task holds it. A deadlock verdict must be explained by held guards.
//!
//! Same-thread guard + blocking operation on the same map is never generated (a documented
//! deadlock in dashmap, and an assertion in Shuttle's RwLock); same-thread guard + try_ variant is.

use super::common::{random_policy, Finding};
use crate::sim::{log, quiet_config, run_recorded, Decision, Ending, ExecTrace, FollowSched, Rng, RunTrace, SimCfg, SimSched};
use serde::{Deserialize, Serialize};
use shuttle::thread;
use shuttle_dashmap_impl::{DashMap, DashSet, Iter, IterMut, Ref, RefMut, TryResult};
use std::collections::{BTreeMap, BTreeSet};
use std::sync::Arc;

#[derive(Clone, Debug, PartialEq, Eq, Serialize, Deserialize, Hash)]
pub enum DOp {
    Insert(usize, u8),
    Remove(usize, u8),
    /// `get`, the `Ref` is kept until DropGuard
    Get(usize, u8),
    /// `get_mut`, stores a unique value through the guard, the `RefMut` is kept until DropGuard
    GetMut(usize, u8),
    TryGet(usize, u8),
    TryGetMut(usize, u8),
    /// `entry(k).or_insert(v)`; bool: keep the RefMut
    EntryOrInsert(usize, u8, bool),
    /// `entry(k).and_modify(..).or_insert(..)`
    EntryModify(usize, u8),
    TryEntry(usize, u8),
    Contains(usize, u8),
    Len(usize),
    IsEmpty(usize),
    View(usize, u8),
    /// `iter()`, fully consumed, the iterator (a read guard) is kept until DropGuard
    Iter(usize),
    /// `iter_mut()`, rewrites every value, kept until DropGuard
    IterMut(usize),
    Alter(usize, u8),
    AlterAll(usize),
    /// remove if (value is even) == flag
    RemoveIf(usize, u8, bool),
    RemoveIfMut(usize, u8, bool),
    Retain(usize, bool),
    Clear(usize),
    Shrink(usize),
    DropGuard(usize),
    SInsert(u8),
    SRemove(u8),
    SContains(u8),
    SGet(u8),
    SLen,
    SRemoveIf(u8, bool),
    SRetain(u8),
    SClear,
    SIter,
    Yield,
    /// never generated
    Join(usize),
    /// never generated: final contents of map m
    Final(usize),
    FinalSet,
}

#[derive(Clone, Debug, PartialEq, Eq, Serialize, Deserialize, Hash)]
pub struct DProg {
    pub maps: usize,
    pub set: bool,
    pub bodies: Vec<Vec<DOp>>,
}

#[derive(Clone, Debug, PartialEq, Serialize, Deserialize)]
pub enum DSched {
    Sim(SimCfg),
    Follow(u64, Vec<u32>),
}

#[derive(Clone, Debug, Serialize, Deserialize)]
pub struct DCase {
    pub prog: DProg,
    pub sched: DSched,
}

pub fn unique_val(body: usize, idx: usize) -> u64 {
    (body as u64 + 1) * 1000 + idx as u64 + 1
}

fn mix(v: u64, uv: u64) -> u64 {
    (v.wrapping_mul(31).wrapping_add(uv)) % 1_000_000_007
}

#[derive(Clone, Copy, Debug, PartialEq, Eq)]
pub enum GK {
    Read,
    Write,
}

enum G<'a> {
    Ref(Ref<'a, u8, u64>),
    RefMut(RefMut<'a, u8, u64>),
    Iter(Iter<'a, u8, u64>),
    IterMut(IterMut<'a, u8, u64>),
}

impl G<'_> {
    fn kind(&self) -> GK {
        match self {
            G::Ref(_) | G::Iter(_) => GK::Read,
            _ => GK::Write,
        }
    }
}

struct DCtx {
    prog: Arc<DProg>,
    maps: Vec<DashMap<u8, u64>>,
    set: DashSet<u8>,
}

fn map_of(op: &DOp) -> Option<usize> {
    Some(match op {
        DOp::Insert(m, _)
        | DOp::Remove(m, _)
        | DOp::Get(m, _)
        | DOp::GetMut(m, _)
        | DOp::TryGet(m, _)
        | DOp::TryGetMut(m, _)
        | DOp::EntryOrInsert(m, _, _)
        | DOp::EntryModify(m, _)
        | DOp::TryEntry(m, _)
        | DOp::Contains(m, _)
        | DOp::Len(m)
        | DOp::IsEmpty(m)
        | DOp::View(m, _)
        | DOp::Iter(m)
        | DOp::IterMut(m)
        | DOp::Alter(m, _)
        | DOp::AlterAll(m)
        | DOp::RemoveIf(m, _, _)
        | DOp::RemoveIfMut(m, _, _)
        | DOp::Retain(m, _)
        | DOp::Clear(m)
        | DOp::Shrink(m)
        | DOp::DropGuard(m)
        | DOp::Final(m) => *m,
        _ => return None,
    })
}

fn is_try(op: &DOp) -> bool {
    matches!(op, DOp::TryGet(..) | DOp::TryGetMut(..) | DOp::TryEntry(..))
}

/// lock mode the operation needs on its map
fn mode_of(op: &DOp) -> GK {
    match op {
        DOp::Get(..) | DOp::TryGet(..) | DOp::Contains(..) | DOp::Len(..) | DOp::IsEmpty(..) | DOp::View(..) | DOp::Iter(..) | DOp::Final(..) => GK::Read,
        _ => GK::Write,
    }
}

fn skipped(held: &[Option<GK>], op: &DOp) -> bool {
    match op {
        DOp::DropGuard(m) => held[*m].is_none(),
        _ => match map_of(op) {
            Some(m) => held[m].is_some() && !is_try(op),
            None => false,
        },
    }
}

fn opt(v: Option<u64>) -> String {
    match v {
        Some(v) => format!("some:{}", v),
        None => "none".into(),
    }
}

fn exec<'a>(ctx: &'a DCtx, held: &mut Vec<Option<G<'a>>>, body: usize, label: &str, idx: usize, op: &DOp) {
    log("S", label, "");
    let hk: Vec<Option<GK>> = held.iter().map(|g| g.as_ref().map(|g| g.kind())).collect();
    if skipped(&hk, op) {
        log("E", label, "skip");
        return;
    }
    let uv = unique_val(body, idx);
    let res: String = match op {
        DOp::Insert(m, k) => opt(ctx.maps[*m].insert(*k, uv)),
        DOp::Remove(m, k) => opt(ctx.maps[*m].remove(k).map(|(_, v)| v)),
        DOp::Get(m, k) => match ctx.maps[*m].get(k) {
            Some(r) => {
                let v = *r.value();
                held[*m] = Some(G::Ref(r));
                format!("some:{}", v)
            }
            None => "none".into(),
        },
        DOp::GetMut(m, k) => match ctx.maps[*m].get_mut(k) {
            Some(mut r) => {
                let v = *r.value();
                *r.value_mut() = uv;
                held[*m] = Some(G::RefMut(r));
                format!("some:{}", v)
            }
            None => "none".into(),
        },
        DOp::TryGet(m, k) => match ctx.maps[*m].try_get(k) {
            TryResult::Present(r) => {
                let v = *r.value();
                if held[*m].is_none() {
                    held[*m] = Some(G::Ref(r));
                } else {
                    drop(r);
                }
                format!("some:{}", v)
            }
            TryResult::Absent => "none".into(),
            TryResult::Locked => "locked".into(),
        },
        DOp::TryGetMut(m, k) => match ctx.maps[*m].try_get_mut(k) {
            TryResult::Present(mut r) => {
                let v = *r.value();
                *r.value_mut() = uv;
                if held[*m].is_none() {
                    held[*m] = Some(G::RefMut(r));
                } else {
                    drop(r);
                }
                format!("some:{}", v)
            }
            TryResult::Absent => "none".into(),
            TryResult::Locked => "locked".into(),
        },
        DOp::EntryOrInsert(m, k, hold) => {
            let r = ctx.maps[*m].entry(*k).or_insert(uv);
            let v = *r.value();
            if *hold {
                held[*m] = Some(G::RefMut(r));
            } else {
                drop(r);
            }
            format!("val:{}", v)
        }
        DOp::EntryModify(m, k) => {
            let r = ctx.maps[*m].entry(*k).and_modify(|v| *v = uv).or_insert(uv + 500);
            let v = *r.value();
            drop(r);
            format!("val:{}", v)
        }
        DOp::TryEntry(m, k) => match ctx.maps[*m].try_entry(*k) {
            Some(e) => {
                let r = e.or_insert(uv);
                let v = *r.value();
                drop(r);
                format!("val:{}", v)
            }
            None => "locked".into(),
        },
        DOp::Contains(m, k) => format!("{}", ctx.maps[*m].contains_key(k)),
        DOp::Len(m) => format!("{}", ctx.maps[*m].len()),
        DOp::IsEmpty(m) => format!("{}", ctx.maps[*m].is_empty()),
        DOp::View(m, k) => opt(ctx.maps[*m].view(k, |_, v| *v)),
        DOp::Iter(m) | DOp::Final(m) => {
            let mut it = ctx.maps[*m].iter();
            let mut v: Vec<(u8, u64)> = it.by_ref().map(|r| (*r.key(), *r.value())).collect();
            v.sort();
            if matches!(op, DOp::Iter(_)) {
                held[*m] = Some(G::Iter(it));
            } else {
                drop(it);
            }
            format!("{:?}", v)
        }
        DOp::IterMut(m) => {
            let mut it = ctx.maps[*m].iter_mut();
            let mut v: Vec<(u8, u64)> = vec![];
            for mut r in it.by_ref() {
                v.push((*r.key(), *r.value()));
                let nv = mix(*r.value(), uv);
                *r.value_mut() = nv;
            }
            v.sort();
            held[*m] = Some(G::IterMut(it));
            format!("{:?}", v)
        }
        DOp::Alter(m, k) => {
            ctx.maps[*m].alter(k, |_, v| mix(v, uv));
            "ok".into()
        }
        DOp::AlterAll(m) => {
            ctx.maps[*m].alter_all(|_, v| mix(v, uv));
            "ok".into()
        }
        DOp::RemoveIf(m, k, even) => opt(ctx.maps[*m].remove_if(k, |_, v| (*v % 2 == 0) == *even).map(|(_, v)| v)),
        DOp::RemoveIfMut(m, k, even) => opt(ctx.maps[*m]
            .remove_if_mut(k, |_, v| {
                let p = (*v % 2 == 0) == *even;
                *v += 1_000_000;
                p
            })
            .map(|(_, v)| v)),
        DOp::Retain(m, even) => {
            ctx.maps[*m].retain(|_, v| (*v % 2 == 0) == *even);
            "ok".into()
        }
        DOp::Clear(m) => {
            ctx.maps[*m].clear();
            "ok".into()
        }
        DOp::Shrink(m) => {
            ctx.maps[*m].shrink_to_fit();
            "ok".into()
        }
        DOp::DropGuard(m) => {
            let g = held[*m].take();
            drop(g);
            "ok".into()
        }
        DOp::SInsert(k) => format!("{}", ctx.set.insert(*k)),
        DOp::SRemove(k) => format!("{:?}", ctx.set.remove(k)),
        DOp::SContains(k) => format!("{}", ctx.set.contains(k)),
        DOp::SGet(k) => format!("{:?}", ctx.set.get(k).map(|r| *r.key())),
        DOp::SLen => format!("{}", ctx.set.len()),
        DOp::SRemoveIf(k, f) => format!("{:?}", ctx.set.remove_if(k, |_| *f)),
        DOp::SRetain(par) => {
            ctx.set.retain(|k| *k % 2 == *par % 2);
            "ok".into()
        }
        DOp::SClear => {
            ctx.set.clear();
            "ok".into()
        }
        DOp::SIter | DOp::FinalSet => {
            let mut v: Vec<u8> = ctx.set.iter().map(|r| *r.key()).collect();
            v.sort();
            format!("{:?}", v)
        }
        DOp::Yield => {
            thread::yield_now();
            "ok".into()
        }
        DOp::Join(_) => unreachable!(),
    };
    log("E", label, res);
}

fn run_body(ctx: &DCtx, body: usize) {
    let prog = ctx.prog.clone();
    let mut held: Vec<Option<G<'_>>> = (0..prog.maps).map(|_| None).collect();
    log("B", body.to_string(), "");
    for (i, op) in prog.bodies[body].iter().enumerate() {
        exec(ctx, &mut held, body, &i.to_string(), i, op);
    }
    for m in 0..prog.maps {
        if held[m].is_some() {
            exec(ctx, &mut held, body, &format!("x{}", m), 900 + m, &DOp::DropGuard(m));
        }
    }
}

pub fn run_prog(prog: &Arc<DProg>) {
    let ctx = Arc::new(DCtx { prog: prog.clone(), maps: (0..prog.maps).map(|_| DashMap::new()).collect(), set: DashSet::new() });
    let mut handles = vec![];
    for b in 1..prog.bodies.len() {
        let c = ctx.clone();
        handles.push(thread::spawn(move || {
            run_body(&c, b);
            log("X", b.to_string(), "");
        }));
    }
    run_body(&ctx, 0);
    for (i, h) in handles.into_iter().enumerate() {
        let label = format!("j{}", i + 1);
        log("S", label.clone(), "");
        let r = h.join();
        log("E", label, if r.is_ok() { "ok" } else { "panicked" });
    }
    let mut none: Vec<Option<G<'_>>> = (0..prog.maps).map(|_| None).collect();
    for m in 0..prog.maps {
        exec(&ctx, &mut none, 0, &format!("f{}", m), 0, &DOp::Final(m));
    }
    if prog.set {
        exec(&ctx, &mut none, 0, "fs", 0, &DOp::FinalSet);
    }
    log("X", "0", "");
}

pub fn run_case(case: &DCase) -> (Ending, RunTrace) {
    let prog = Arc::new(case.prog.clone());
    match &case.sched {
        DSched::Sim(cfg) => run_recorded(SimSched::new(cfg.clone()), quiet_config(), move || run_prog(&prog)),
        DSched::Follow(seed, script) => run_recorded(FollowSched::new(*seed, script.clone(), true), quiet_config(), move || run_prog(&prog)),
    }
}

// ---------------------------------------------------------------------------------------------
// Model
// ---------------------------------------------------------------------------------------------

#[derive(Clone, Debug, Default)]
struct MapM {
    data: BTreeMap<u8, u64>,
    readers: BTreeMap<usize, u32>,
    writer: Option<usize>,
}

#[derive(Clone, Debug)]
struct Pend {
    op: DOp,
    label: String,
    idx: usize,
    start: u32,
}

#[derive(Clone, Debug, Default)]
struct BodyM {
    held: Vec<Option<GK>>,
    pending: Option<Pend>,
    started: bool,
    finished: bool,
}

#[derive(Default, Debug, Clone)]
pub struct DStats {
    pub probes: BTreeMap<String, u64>,
}

impl DStats {
    fn hit(&mut self, k: &str) {
        *self.probes.entry(k.to_string()).or_insert(0) += 1;
    }
}

fn fnd(key: &str, detail: String) -> Finding {
    Finding { key: format!("C20:dash:{}", key), detail }
}

pub fn op_name(op: &DOp) -> &'static str {
    match op {
        DOp::Insert(..) => "insert",
        DOp::Remove(..) => "remove",
        DOp::Get(..) => "get",
        DOp::GetMut(..) => "get_mut",
        DOp::TryGet(..) => "try_get",
        DOp::TryGetMut(..) => "try_get_mut",
        DOp::EntryOrInsert(..) => "entry_or_insert",
        DOp::EntryModify(..) => "entry_and_modify",
        DOp::TryEntry(..) => "try_entry",
        DOp::Contains(..) => "contains_key",
        DOp::Len(..) => "len",
        DOp::IsEmpty(..) => "is_empty",
        DOp::View(..) => "view",
        DOp::Iter(..) => "iter",
        DOp::IterMut(..) => "iter_mut",
        DOp::Alter(..) => "alter",
        DOp::AlterAll(..) => "alter_all",
        DOp::RemoveIf(..) => "remove_if",
        DOp::RemoveIfMut(..) => "remove_if_mut",
        DOp::Retain(..) => "retain",
        DOp::Clear(..) => "clear",
        DOp::Shrink(..) => "shrink_to_fit",
        DOp::DropGuard(..) => "drop_guard",
        DOp::SInsert(..) => "set_insert",
        DOp::SRemove(..) => "set_remove",
        DOp::SContains(..) => "set_contains",
        DOp::SGet(..) => "set_get",
        DOp::SLen => "set_len",
        DOp::SRemoveIf(..) => "set_remove_if",
        DOp::SRetain(..) => "set_retain",
        DOp::SClear => "set_clear",
        DOp::SIter => "set_iter",
        DOp::Yield => "yield",
        DOp::Join(..) => "join",
        DOp::Final(..) => "final_contents",
        DOp::FinalSet => "final_set_contents",
    }
}

struct Model {
    maps: Vec<MapM>,
    set: BTreeSet<u8>,
    bodies: Vec<BodyM>,
    task_body: BTreeMap<u32, usize>,
    stats: DStats,
}

impl Model {
    fn others_pending(&self, m: usize, me: usize) -> bool {
        self.bodies.iter().enumerate().any(|(b, bm)| b != me && bm.pending.as_ref().map(|p| map_of(&p.op) == Some(m)).unwrap_or(false))
    }

    fn guard_of(&self, b: usize, op: &DOp) -> bool {
        match op {
            DOp::Join(t) => self.bodies[*t].finished,
            DOp::DropGuard(_) => true,
            _ => match map_of(op) {
                Some(m) => {
                    let mm = &self.maps[m];
                    match mode_of(op) {
                        GK::Read => mm.writer.is_none(),
                        GK::Write => mm.writer.is_none() && mm.readers.is_empty(),
                    }
                }
                None => {
                    let _ = b;
                    true
                }
            },
        }
    }

    /// expected result + effect of a map operation that got the lock
    fn apply(&mut self, b: usize, op: &DOp, uv: u64) -> (String, Option<GK>) {
        match op {
            DOp::Insert(m, k) => (opt(self.maps[*m].data.insert(*k, uv)), None),
            DOp::Remove(m, k) => (opt(self.maps[*m].data.remove(k)), None),
            DOp::Get(m, k) | DOp::TryGet(m, k) => match self.maps[*m].data.get(k) {
                Some(v) => (format!("some:{}", v), Some(GK::Read)),
                None => ("none".into(), None),
            },
            DOp::GetMut(m, k) | DOp::TryGetMut(m, k) => match self.maps[*m].data.get_mut(k) {
                Some(v) => {
                    let old = *v;
                    *v = uv;
                    (format!("some:{}", old), Some(GK::Write))
                }
                None => ("none".into(), None),
            },
            DOp::EntryOrInsert(m, k, hold) => {
                let v = *self.maps[*m].data.entry(*k).or_insert(uv);
                (format!("val:{}", v), if *hold { Some(GK::Write) } else { None })
            }
            DOp::EntryModify(m, k) => {
                let v = *self.maps[*m].data.entry(*k).and_modify(|v| *v = uv).or_insert(uv + 500);
                (format!("val:{}", v), None)
            }
            DOp::TryEntry(m, k) => {
                let v = *self.maps[*m].data.entry(*k).or_insert(uv);
                (format!("val:{}", v), None)
            }
            DOp::Contains(m, k) => (format!("{}", self.maps[*m].data.contains_key(k)), None),
            DOp::Len(m) => (format!("{}", self.maps[*m].data.len()), None),
            DOp::IsEmpty(m) => (format!("{}", self.maps[*m].data.is_empty()), None),
            DOp::View(m, k) => (opt(self.maps[*m].data.get(k).copied()), None),
            DOp::Iter(m) => (format!("{:?}", self.maps[*m].data.iter().map(|(k, v)| (*k, *v)).collect::<Vec<_>>()), Some(GK::Read)),
            DOp::Final(m) => (format!("{:?}", self.maps[*m].data.iter().map(|(k, v)| (*k, *v)).collect::<Vec<_>>()), None),
            DOp::IterMut(m) => {
                let old: Vec<(u8, u64)> = self.maps[*m].data.iter().map(|(k, v)| (*k, *v)).collect();
                for v in self.maps[*m].data.values_mut() {
                    *v = mix(*v, uv);
                }
                (format!("{:?}", old), Some(GK::Write))
            }
            DOp::Alter(m, k) => {
                if let Some(v) = self.maps[*m].data.get_mut(k) {
                    *v = mix(*v, uv);
                }
                ("ok".into(), None)
            }
            DOp::AlterAll(m) => {
                for v in self.maps[*m].data.values_mut() {
                    *v = mix(*v, uv);
                }
                ("ok".into(), None)
            }
            DOp::RemoveIf(m, k, even) => match self.maps[*m].data.get(k).copied() {
                Some(v) if (v % 2 == 0) == *even => {
                    self.maps[*m].data.remove(k);
                    (format!("some:{}", v), None)
                }
                _ => ("none".into(), None),
            },
            DOp::RemoveIfMut(m, k, even) => match self.maps[*m].data.get(k).copied() {
                Some(v) => {
                    let nv = v + 1_000_000;
                    if (v % 2 == 0) == *even {
                        self.maps[*m].data.remove(k);
                        (format!("some:{}", nv), None)
                    } else {
                        self.maps[*m].data.insert(*k, nv);
                        ("none".into(), None)
                    }
                }
                None => ("none".into(), None),
            },
            DOp::Retain(m, even) => {
                self.maps[*m].data.retain(|_, v| (*v % 2 == 0) == *even);
                ("ok".into(), None)
            }
            DOp::Clear(m) => {
                self.maps[*m].data.clear();
                ("ok".into(), None)
            }
            DOp::Shrink(_) => ("ok".into(), None),
            DOp::SInsert(k) => (format!("{}", self.set.insert(*k)), None),
            DOp::SRemove(k) => (format!("{:?}", if self.set.remove(k) { Some(*k) } else { None }), None),
            DOp::SContains(k) => (format!("{}", self.set.contains(k)), None),
            DOp::SGet(k) => (format!("{:?}", if self.set.contains(k) { Some(*k) } else { None }), None),
            DOp::SLen => (format!("{}", self.set.len()), None),
            DOp::SRemoveIf(k, f) => {
                if *f && self.set.contains(k) {
                    self.set.remove(k);
                    (format!("{:?}", Some(*k)), None)
                } else {
                    ("None".into(), None)
                }
            }
            DOp::SRetain(par) => {
                self.set.retain(|k| *k % 2 == *par % 2);
                ("ok".into(), None)
            }
            DOp::SClear => {
                self.set.clear();
                ("ok".into(), None)
            }
            DOp::SIter | DOp::FinalSet => (format!("{:?}", self.set.iter().copied().collect::<Vec<_>>()), None),
            DOp::Yield => ("ok".into(), None),
            DOp::DropGuard(_) | DOp::Join(_) => {
                let _ = b;
                ("ok".into(), None)
            }
        }
    }

    fn complete(&mut self, b: usize, p: &Pend, res: &str, step: u32) -> Result<(), Finding> {
        let op = &p.op;
        let sk = skipped(&self.bodies[b].held, op);
        if sk != (res == "skip") {
            return Err(fnd("harness-skip-mismatch", format!("step {}: body {} op {:?} -> {:?}, model skip={}", step, b, op, res, sk)));
        }
        if sk {
            self.stats.hit("op_skipped");
            return Ok(());
        }
        let uv = unique_val(b, p.idx);
        let describe = |m: &Model| format!("step {}: body {} op {} {:?} -> {:?}; model maps={:?} set={:?}", step, b, p.label, op, res, m.maps, m.set);
        match op {
            DOp::Join(t) => {
                if !self.bodies[*t].finished {
                    return Err(fnd("join-before-finish", describe(self)));
                }
                return Ok(());
            }
            DOp::DropGuard(m) => {
                match self.bodies[b].held[*m].take() {
                    Some(GK::Read) => {
                        let mm = &mut self.maps[*m];
                        if let Some(c) = mm.readers.get_mut(&b) {
                            *c -= 1;
                            if *c == 0 {
                                mm.readers.remove(&b);
                            }
                        }
                    }
                    Some(GK::Write) => self.maps[*m].writer = None,
                    None => {}
                }
                self.stats.hit("guard_dropped");
                return Ok(());
            }
            _ => {}
        }
        if let Some(m) = map_of(op) {
            // mode check against guards held by others (and, for try-variants, by ourselves)
            let own = self.bodies[b].held[m];
            let guard = self.guard_of(b, op);
            if is_try(op) {
                if res == "locked" {
                    if guard && own == Some(GK::Read) && matches!(op, DOp::TryGet(..)) {
                        // Shuttle's RwLock refuses a re-entrant read (real dashmap would grant it)
                        self.stats.hit("same_thread_try_get_locked");
                        return Ok(());
                    }
                    if guard {
                        if self.others_pending(m, b) {
                            self.stats.hit("try_locked_with_operation_in_progress");
                            return Ok(());
                        }
                        return Err(fnd("try-locked-while-free", format!("a try-variant reported Locked although no guard is held and no operation is in progress on the map: {}", describe(self))));
                    }
                    self.stats.hit("try_locked_by_guard");
                    return Ok(());
                }
                if !guard {
                    // own read guard + try_get: real dashmap grants it (shared lock); Shuttle's RwLock
                    // refuses re-entrant reads. Both are accepted.
                    let own_read_reentry = own == Some(GK::Read) && matches!(op, DOp::TryGet(..)) && self.maps[m].writer.is_none();
                    if !own_read_reentry {
                        return Err(fnd("try-succeeded-while-guard-held", describe(self)));
                    }
                }
                if own.is_some() {
                    self.stats.hit("try_with_own_guard");
                }
            } else if !guard {
                let cls = if mode_of(op) == GK::Read { "read-completed-while-write-guard-held" } else { "write-completed-while-guard-held" };
                return Err(fnd(cls, describe(self)));
            }
            let (exp, g) = self.apply(b, op, uv);
            if exp != res {
                return Err(fnd(&format!("result-differs:{}", op_name(op)), format!("expected {:?}: {}", exp, describe(self))));
            }
            if let Some(g) = g {
                // a guard obtained by a try-variant while we already hold one is dropped at once
                if self.bodies[b].held[m].is_none() {
                    self.bodies[b].held[m] = Some(g);
                    match g {
                        GK::Read => *self.maps[m].readers.entry(b).or_insert(0) += 1,
                        GK::Write => self.maps[m].writer = Some(b),
                    }
                    self.stats.hit(if g == GK::Read { "read_guard_held" } else { "write_guard_held" });
                }
            }
            Ok(())
        } else {
            let (exp, _) = self.apply(b, op, uv);
            if exp != res {
                return Err(fnd(&format!("result-differs:{}", op_name(op)), format!("expected {:?}: {}", exp, describe(self))));
            }
            Ok(())
        }
    }
}

fn label_to_op(prog: &DProg, body: usize, label: &str) -> Option<(DOp, usize)> {
    if label == "fs" {
        return Some((DOp::FinalSet, 0));
    }
    if let Some(r) = label.strip_prefix('x') {
        let m: usize = r.parse().ok()?;
        return Some((DOp::DropGuard(m), 900 + m));
    }
    if let Some(r) = label.strip_prefix('j') {
        return Some((DOp::Join(r.parse().ok()?), 0));
    }
    if let Some(r) = label.strip_prefix('f') {
        return Some((DOp::Final(r.parse().ok()?), 0));
    }
    let i: usize = label.parse().ok()?;
    prog.bodies.get(body)?.get(i).map(|o| (o.clone(), i))
}

fn is_blocking(op: &DOp) -> bool {
    match op {
        DOp::DropGuard(_) | DOp::Yield => false,
        _ => !is_try(op),
    }
}

pub fn analyze(prog: &DProg, ex: &ExecTrace, ending: Option<&str>) -> (Vec<Finding>, DStats) {
    let nb = prog.bodies.len();
    let mut out = vec![];
    let mut m = Model {
        maps: vec![MapM::default(); prog.maps],
        set: BTreeSet::new(),
        bodies: (0..nb).map(|_| BodyM { held: vec![None; prog.maps], ..Default::default() }).collect(),
        task_body: BTreeMap::new(),
        stats: DStats::default(),
    };
    let decisions: Vec<&Decision> = ex.decisions().collect();
    let offered_between = |task: u32, from: u32, to: u32| -> Option<u32> {
        for k in from..to {
            if let Some(d) = decisions.get(k as usize) {
                if d.chosen.is_some() && !d.offered.contains(&task) {
                    return Some(k);
                }
            }
        }
        None
    };
    let mut broken = false;
    for ev in &ex.events {
        if ev.kind == "B" {
            if let Ok(b) = ev.op.parse::<usize>() {
                m.task_body.insert(ev.task, b);
                if b < nb {
                    m.bodies[b].started = true;
                }
            }
            continue;
        }
        if broken {
            continue;
        }
        let b = match m.task_body.get(&ev.task) {
            Some(b) if *b < nb => *b,
            _ => {
                out.push(fnd("harness-unknown-task", format!("{:?}", ev)));
                broken = true;
                continue;
            }
        };
        match ev.kind.as_str() {
            "X" => m.bodies[b].finished = true,
            "S" => {
                let (op, idx) = match label_to_op(prog, b, &ev.op) {
                    Some(x) => x,
                    None => {
                        out.push(fnd("harness-bad-label", format!("{:?}", ev)));
                        broken = true;
                        continue;
                    }
                };
                m.bodies[b].pending = Some(Pend { op, label: ev.op.clone(), idx, start: ev.step });
            }
            "E" => {
                let p = match m.bodies[b].pending.take() {
                    Some(p) if p.label == ev.op => p,
                    other => {
                        out.push(fnd("harness-end-without-start", format!("{:?} pending {:?}", ev, other)));
                        broken = true;
                        continue;
                    }
                };
                if is_blocking(&p.op) && !matches!(p.op, DOp::Join(_)) && offered_between(ev.task, p.start, ev.step).is_some() {
                    m.stats.hit("operation_waited");
                }
                if !is_blocking(&p.op) {
                    if let Some(k) = offered_between(ev.task, p.start, ev.step) {
                        out.push(fnd("nonblocking-op-blocked", format!("body {} op {} {:?} (steps {}..{}) was not offered at decision {}", b, p.label, p.op, p.start, ev.step, k)));
                    }
                }
                if let Err(f) = m.complete(b, &p, &ev.val, ev.step) {
                    out.push(f);
                    broken = true;
                }
            }
            _ => {}
        }
    }
    match ending {
        None => {
            if !broken {
                for (b, bm) in m.bodies.iter().enumerate() {
                    if bm.pending.is_some() || (bm.started && !bm.finished) {
                        out.push(fnd("harness-unfinished-body", format!("body {} unfinished: {:?}", b, bm.pending)));
                    }
                }
            }
        }
        Some(msg) if msg.starts_with("deadlock!") => {
            m.stats.hit("deadlock_verdicts");
            if !broken {
                let mut ok = true;
                for (b, bm) in m.bodies.iter().enumerate() {
                    match &bm.pending {
                        Some(p) => {
                            if m.guard_of(b, &p.op) || !is_blocking(&p.op) {
                                ok = false;
                                out.push(fnd(
                                    "deadlock-not-explained",
                                    format!("deadlock reported, but body {} is blocked in {:?} whose lock is available in the model (lost wake-up / leaked permit); maps={:?}; runtime said: {}", b, p.op, m.maps, msg),
                                ));
                            }
                        }
                        None => {
                            if bm.started && !bm.finished {
                                ok = false;
                                out.push(fnd("deadlock-not-explained", format!("deadlock reported but body {} is not inside any operation", b)));
                            }
                        }
                    }
                }
                if ok {
                    m.stats.hit("deadlock_explained_by_model");
                }
            }
        }
        Some(msg) => {
            let cls: String = msg.chars().take(40).map(|c| if c.is_ascii_alphanumeric() { c } else { '-' }).collect();
            out.push(fnd(&format!("unexpected-panic:{}", cls), msg.to_string()));
        }
    }
    (out, m.stats)
}

// ---------------------------------------------------------------------------------------------
// Generator
// ---------------------------------------------------------------------------------------------

#[derive(Clone, Debug)]
pub struct DGen {
    pub maps: usize,
    pub set: bool,
    pub threads: usize,
    pub max_ops: usize,
    pub keys: u8,
    pub guards: bool,
    pub tries: bool,
    pub bulk: bool,
}

impl DGen {
    pub fn swarm(rng: &mut Rng) -> Self {
        DGen {
            maps: if rng.chance(1, 3) { 2 } else { 1 },
            set: rng.chance(1, 3),
            threads: rng.range(2, 3),
            max_ops: rng.range(2, 5),
            keys: rng.range(1, 3) as u8,
            guards: rng.chance(3, 4),
            tries: rng.chance(2, 3),
            bulk: rng.chance(2, 3),
        }
    }
}

fn gen_body(rng: &mut Rng, g: &DGen) -> Vec<DOp> {
    let n = rng.range(1, g.max_ops);
    let mut held: Vec<Option<GK>> = vec![None; g.maps];
    let mut ops = vec![];
    while ops.len() < n {
        if g.set && rng.chance(1, 4) {
            let k = rng.below(g.keys as usize) as u8;
            ops.push(match rng.below(10) {
                0 | 1 | 2 => DOp::SInsert(k),
                3 | 4 => DOp::SRemove(k),
                5 => DOp::SContains(k),
                6 => DOp::SLen,
                7 => DOp::SRemoveIf(k, rng.chance(1, 2)),
                8 => {
                    if g.bulk {
                        if rng.chance(1, 2) {
                            DOp::SRetain(rng.below(2) as u8)
                        } else {
                            DOp::SClear
                        }
                    } else {
                        DOp::SGet(k)
                    }
                }
                _ => DOp::SIter,
            });
            continue;
        }
        if rng.chance(1, 20) {
            ops.push(DOp::Yield);
            continue;
        }
        let m = rng.below(g.maps);
        let k = rng.below(g.keys as usize) as u8;
        let op = if held[m].is_some() {
            match rng.below(6) {
                0 if g.tries => DOp::TryGet(m, k),
                1 if g.tries => DOp::TryGetMut(m, k),
                2 if g.tries => DOp::TryEntry(m, k),
                _ => DOp::DropGuard(m),
            }
        } else {
            match rng.below(24) {
                0 | 1 | 2 | 3 => DOp::Insert(m, k),
                4 | 5 => DOp::Remove(m, k),
                6 | 7 if g.guards => DOp::Get(m, k),
                8 | 9 if g.guards => DOp::GetMut(m, k),
                10 if g.tries => DOp::TryGet(m, k),
                11 if g.tries => DOp::TryGetMut(m, k),
                12 => DOp::EntryOrInsert(m, k, g.guards && rng.chance(1, 2)),
                13 => DOp::EntryModify(m, k),
                14 if g.tries => DOp::TryEntry(m, k),
                15 => DOp::Contains(m, k),
                16 => {
                    if rng.chance(1, 2) {
                        DOp::Len(m)
                    } else {
                        DOp::View(m, k)
                    }
                }
                17 if g.guards => {
                    if rng.chance(2, 3) {
                        DOp::Iter(m)
                    } else {
                        DOp::IterMut(m)
                    }
                }
                18 => DOp::Alter(m, k),
                19 => DOp::RemoveIf(m, k, rng.chance(1, 2)),
                20 => DOp::RemoveIfMut(m, k, rng.chance(1, 2)),
                21 if g.bulk => DOp::Retain(m, rng.chance(1, 2)),
                22 if g.bulk => {
                    if rng.chance(1, 2) {
                        DOp::Clear(m)
                    } else {
                        DOp::AlterAll(m)
                    }
                }
                23 => {
                    if rng.chance(1, 2) {
                        DOp::IsEmpty(m)
                    } else {
                        DOp::Shrink(m)
                    }
                }
                _ => DOp::Insert(m, k),
            }
        };
        match &op {
            DOp::Get(..) | DOp::Iter(..) | DOp::TryGet(..) if held[m].is_none() => held[m] = Some(GK::Read),
            DOp::GetMut(..) | DOp::IterMut(..) | DOp::TryGetMut(..) | DOp::EntryOrInsert(_, _, true) if held[m].is_none() => held[m] = Some(GK::Write),
            DOp::DropGuard(_) => held[m] = None,
            _ => {}
        }
        // `get`-style operations may return None (no guard): a following DropGuard is then skipped,
        // and a following blocking operation runs without a guard; both are fine.
        ops.push(op);
    }
    ops
}

pub fn gen_case(rng: &mut Rng, g: &DGen) -> DCase {
    let mut prog = DProg { maps: g.maps, set: g.set, bodies: (0..g.threads).map(|_| gen_body(rng, g)).collect() };
    if g.maps == 2 && g.guards && rng.chance(1, 3) {
        // lock-order inversion across the two maps: a guard on one map is held while an operation on
        // the other map runs (a deadlock the model must explain when both threads get that far)
        for (b, first) in [(0usize, 0usize), (1, 1)] {
            let k = rng.below(g.keys as usize) as u8;
            let hold = match rng.below(4) {
                0 => DOp::EntryOrInsert(first, k, true),
                1 => DOp::Iter(first),
                2 => DOp::IterMut(first),
                _ => DOp::EntryOrInsert(first, k, true),
            };
            let other = match rng.below(3) {
                0 => DOp::Insert(1 - first, k),
                1 => DOp::Len(1 - first),
                _ => DOp::Remove(1 - first, k),
            };
            let mut body = vec![hold, other];
            if rng.chance(1, 2) {
                body.push(DOp::DropGuard(first));
            }
            let rest = prog.bodies[b].clone();
            body.extend(rest.into_iter().take(2));
            prog.bodies[b] = body;
        }
    }
    let mut sim = SimCfg::new(rng.next_u64());
    sim.policy = random_policy(rng);
    sim.execs = 1;
    DCase { prog, sched: DSched::Sim(sim) }
}

// ---------------------------------------------------------------------------------------------
// Processing / shrinking
// ---------------------------------------------------------------------------------------------

pub struct DRun {
    pub ending: Ending,
    pub rt: RunTrace,
    pub findings: Vec<Finding>,
    pub stats: Vec<DStats>,
}

pub fn process_case(case: &DCase) -> DRun {
    let (ending, rt) = run_case(case);
    let mut findings = vec![];
    let mut stats = vec![];
    for c in crate::sim::contract_findings(&rt) {
        findings.push(fnd("contract", c));
    }
    let n = rt.execs.len();
    for (i, ex) in rt.execs.iter().enumerate() {
        let e = match &ending {
            Ending::Panicked(m) if i + 1 == n => Some(m.as_str()),
            _ => None,
        };
        let (f, s) = analyze(&case.prog, ex, e);
        findings.extend(f);
        stats.push(s);
    }
    DRun { ending, rt, findings, stats }
}

pub fn shrink(case: &DCase, key: &str, budget: usize) -> DCase {
    let mut best = case.clone();
    let base = match &case.sched {
        DSched::Sim(c) => c.clone(),
        DSched::Follow(s, _) => SimCfg::new(*s),
    };
    let mut tries = 0;
    loop {
        let mut improved = false;
        let mut cands = vec![];
        for b in 1..best.prog.bodies.len() {
            if best.prog.bodies.len() > 2 {
                let mut q = best.prog.clone();
                q.bodies.remove(b);
                cands.push(q);
            }
        }
        for b in 0..best.prog.bodies.len() {
            for i in 0..best.prog.bodies[b].len() {
                let mut q = best.prog.clone();
                q.bodies[b].remove(i);
                cands.push(q);
            }
        }
        'c: for cand in cands {
            for s in 0..8u64 {
                if tries >= budget {
                    return finalize(best, key);
                }
                tries += 1;
                let mut cfg = base.clone();
                if s > 0 {
                    cfg.seed = crate::sim::derive(base.seed, "dshrink", s);
                    cfg.policy = crate::sim::Policy::Uniform;
                }
                let c = DCase { prog: cand.clone(), sched: DSched::Sim(cfg) };
                if process_case(&c).findings.iter().any(|f| f.key == key) {
                    best = c;
                    improved = true;
                    break 'c;
                }
            }
        }
        if !improved {
            break;
        }
    }
    finalize(best, key)
}

fn finalize(case: DCase, key: &str) -> DCase {
    let r = process_case(&case);
    if let Some(ex) = r.rt.execs.first() {
        let seed = match &case.sched {
            DSched::Sim(c) => c.seed,
            DSched::Follow(s, _) => *s,
        };
        let c2 = DCase { prog: case.prog.clone(), sched: DSched::Follow(seed, ex.chosen_seq()) };
        if process_case(&c2).findings.iter().any(|f| f.key == key) {
            return c2;
        }
    }
    case
}

pub fn describe(case: &DCase, r: &DRun) -> String {
    let mut s = format!("program: maps={} set={}", case.prog.maps, case.prog.set);
    for (b, ops) in case.prog.bodies.iter().enumerate() {
        s.push_str(&format!(" | T{}: {:?}", b, ops));
    }
    if let Some(ex) = r.rt.execs.first() {
        s.push_str(&format!(" | schedule (task ids): {:?}", ex.chosen_seq()));
    }
    s.push_str(&format!(" | ending: {:?}", r.ending));
    s
}

pub fn dump(case: &DCase) {
    let r = process_case(case);
    println!("{}", describe(case, &r));
    for (i, ex) in r.rt.execs.iter().enumerate() {
        println!("--- exec {}", i);
        let ds: Vec<_> = ex.decisions().collect();
        for (k, d) in ds.iter().enumerate() {
            println!("decision {}: offered {:?} -> {:?}", k, d.offered, d.chosen);
            for e in ex.events.iter().filter(|e| e.step as usize == k + 1) {
                println!("      t{} {} {} = {}", e.task, e.kind, e.op, e.val);
            }
        }
    }
    for f in &r.findings {
        println!("finding: {} :: {}", f.key, f.detail);
    }
}
