//! C04 — Mutex, RwLock and atomics: mutual exclusion and atomic, sequentially consistent updates.
use super::families::*;
use crate::coord::{Batch, Check, RunOut, Tier};
use crate::sim::{hash_debug, quiet_config, run_recorded, Ending, Policy, Rng, SimCfg, SimSched};
use serde::{Deserialize, Serialize};
use serde_json::{json, Value};
use std::sync::atomic::Ordering as O;
use std::sync::Arc;

const FAM: Family = Family { prop: "C04", gen: gen_c04 };

pub fn check() -> Check {
    Check {
        id: "C04",
        level: "exploration",
        rule: "locks: seeded programs of 2-4 threads over 1-2 Mutexes and an RwLock (blocking and try variants, re-entrant try attempts, guards released in any order) under SimSched; oracle: lockstep reference model + holder-count monitors kept by the interpreter. poison: a holder panics inside a critical section (caught) and later lockers must see the poison flag, still exclusively. atomics: 2-3 threads x 1-5 operations on one typed atomic (all 10 integer types and bool; load/store/swap/compare_exchange(_weak)/compare_and_swap/fetch_add/sub/and/nand/or/xor/max/min/fetch_update, operands biased to 0, 1, MIN, MAX, every ordering std accepts); oracle: the same operations replayed in the run's step order on std::sync::atomic of the same type must return the same values (differential, the reference is std itself). Distinct = (program, chosen sequence); non-trivial = at least one switch",
        assumptions: &["relaxed-memory behaviours are out of scope (Shuttle documents SC only)", "after poisoning, other tasks do not run while the panicking task unwinds (known finding F4 covers that window)"],
        real_components: "real: shuttle-std Mutex/RwLock/atomics, shuttle-engine BatchSemaphore and runtime; reference for atomics: std::sync::atomic; model (locks) only as oracle",
        batches: |t: Tier| vec![Batch::new("locks", t.pick(16000, 300000), 400), Batch::new("poison", t.pick(2000, 30000), 200), Batch::new("known", t.pick(40, 200), 20), Batch::new("atomics", t.pick(12000, 250000), 400)],
        run,
        replay,
        probes: &["try_failed", "try_ok", "poison_observed", "caught_panic", "atomic_ops_compared", "atomic_cas_failed", "atomic_types_seen"],
    }
}

fn run(batch: &str, idx: u64, seed: u64, tier: Tier) -> RunOut {
    if batch == "known" {
        // pinned witnesses of known finding F4: every finding they raise is reported under the
        // witness's own key, so that only these call sites are covered by the known-findings entry
        let mut rng = Rng::new(seed);
        let case = known_f4(idx, &mut rng);
        let mut tmp = RunOut::default();
        let _ = super::common::process(&case, "C04", &mut tmp, false);
        let mut out = RunOut::default();
        out.evals = tmp.evals;
        out.decisions = tmp.decisions;
        let expected = |k: &str| match idx % 3 {
            0 => k == "C04:model:step-not-explained",
            1 => k.starts_with("C04:monitor:mutex-exclusion") || k.starts_with("C04:unexpected-panic:assertion-failed--state-holder-is-none") || k.starts_with("C04:model:"),
            _ => k.starts_with("C04:unexpected-panic:called--Result--unwrap") || k.starts_with("C04:model:"),
        };
        let known_key = match idx % 3 {
            0 => "C04:known:F4:try-lock-after-poison-reports-wouldblock",
            1 => "C04:known:F4:no-exclusion-after-poison",
            _ => "C04:known:F4:locker-in-flight-when-holder-panics",
        };
        for v in tmp.violations {
            if expected(&v.key) {
                out.violation(known_key, v.detail, v.case);
            } else {
                out.violation(v.key, v.detail, v.case);
            }
        }
        return out;
    }
    if batch == "atomics" {
        let mut rng = Rng::new(seed);
        let case = gen_atomic_case(&mut rng);
        let mut out = RunOut::default();
        run_atomic_case(&case, &mut out);
        return out;
    }
    run_family(&FAM, batch, seed, tier)
}

fn replay(case: &Value) -> RunOut {
    if let Some(c) = case.get("atomic_case").and_then(|c| serde_json::from_value::<ACase>(c.clone()).ok()) {
        let mut out = RunOut::default();
        run_atomic_case(&c, &mut out);
        return out;
    }
    replay_family(&FAM, case)
}

// ------------------------------------------------------------------------------------------------
// atomics: differential against std::sync::atomic
// ------------------------------------------------------------------------------------------------

#[derive(Clone, Debug, Serialize, Deserialize, PartialEq)]
pub enum AKind {
    Load,
    Store,
    Swap,
    Cas,
    CasWeak,
    /// the deprecated `compare_and_swap` (returns the previous value)
    CasOld,
    Add,
    Sub,
    And,
    Nand,
    Or,
    Xor,
    Max,
    Min,
    Update,
}

#[derive(Clone, Debug, Serialize, Deserialize)]
pub struct AOp {
    pub kind: AKind,
    pub x: i128,
    pub y: i128,
    pub ord: u8,
}

#[derive(Clone, Debug, Serialize, Deserialize)]
pub struct ACase {
    pub ty: String,
    pub init: i128,
    pub tasks: Vec<Vec<AOp>>,
    pub sim: SimCfg,
}

fn ord_rmw(o: u8) -> O {
    match o % 5 {
        0 => O::Relaxed,
        1 => O::Acquire,
        2 => O::Release,
        3 => O::AcqRel,
        _ => O::SeqCst,
    }
}
fn ord_load(o: u8) -> O {
    match o % 3 {
        0 => O::Relaxed,
        1 => O::Acquire,
        _ => O::SeqCst,
    }
}
fn ord_store(o: u8) -> O {
    match o % 3 {
        0 => O::Relaxed,
        1 => O::Release,
        _ => O::SeqCst,
    }
}

macro_rules! int_impl {
    ($fname:ident, $prim:ty, $atom:ty) => {
        pub fn $fname(a: &$atom, op: &AOp) -> String {
            let x = op.x as $prim;
            let y = op.y as $prim;
            match op.kind {
                AKind::Load => format!("{}", a.load(ord_load(op.ord))),
                AKind::Store => {
                    a.store(x, ord_store(op.ord));
                    String::new()
                }
                AKind::Swap => format!("{}", a.swap(x, ord_rmw(op.ord))),
                AKind::Cas => format!("{:?}", a.compare_exchange(x, y, ord_rmw(op.ord), ord_load(op.ord))),
                AKind::CasWeak => format!("{:?}", a.compare_exchange_weak(x, y, ord_rmw(op.ord), ord_load(op.ord))),
                #[allow(deprecated)]
                AKind::CasOld => format!("{}", a.compare_and_swap(x, y, ord_load(op.ord))),
                AKind::Add => format!("{}", a.fetch_add(x, ord_rmw(op.ord))),
                AKind::Sub => format!("{}", a.fetch_sub(x, ord_rmw(op.ord))),
                AKind::And => format!("{}", a.fetch_and(x, ord_rmw(op.ord))),
                AKind::Nand => format!("{}", a.fetch_nand(x, ord_rmw(op.ord))),
                AKind::Or => format!("{}", a.fetch_or(x, ord_rmw(op.ord))),
                AKind::Xor => format!("{}", a.fetch_xor(x, ord_rmw(op.ord))),
                AKind::Max => format!("{}", a.fetch_max(x, ord_rmw(op.ord))),
                AKind::Min => format!("{}", a.fetch_min(x, ord_rmw(op.ord))),
                AKind::Update => format!(
                    "{:?}",
                    a.fetch_update(ord_rmw(op.ord), ord_load(op.ord), |v| if v & 1 == (y & 1) { Some(v.wrapping_add(x)) } else { None })
                ),
            }
        }
    };
}

macro_rules! bool_impl {
    ($fname:ident, $atom:ty) => {
        pub fn $fname(a: &$atom, op: &AOp) -> String {
            let x = op.x & 1 == 1;
            let y = op.y & 1 == 1;
            match op.kind {
                AKind::Load | AKind::Max | AKind::Min => format!("{}", a.load(ord_load(op.ord))),
                AKind::Store => {
                    a.store(x, ord_store(op.ord));
                    String::new()
                }
                AKind::Swap | AKind::Add | AKind::Sub => format!("{}", a.swap(x, ord_rmw(op.ord))),
                AKind::Cas => format!("{:?}", a.compare_exchange(x, y, ord_rmw(op.ord), ord_load(op.ord))),
                AKind::CasWeak => format!("{:?}", a.compare_exchange_weak(x, y, ord_rmw(op.ord), ord_load(op.ord))),
                #[allow(deprecated)]
                AKind::CasOld => format!("{}", a.compare_and_swap(x, y, ord_load(op.ord))),
                AKind::And => format!("{}", a.fetch_and(x, ord_rmw(op.ord))),
                AKind::Nand => format!("{}", a.fetch_nand(x, ord_rmw(op.ord))),
                AKind::Or => format!("{}", a.fetch_or(x, ord_rmw(op.ord))),
                AKind::Xor => format!("{}", a.fetch_xor(x, ord_rmw(op.ord))),
                AKind::Update => format!("{:?}", a.fetch_update(ord_rmw(op.ord), ord_load(op.ord), |v| if v == y { Some(v ^ x) } else { None })),
            }
        }
    };
}

mod sh {
    use super::*;
    use shuttle::sync::atomic as sa;
    int_impl!(u8_, u8, sa::AtomicU8);
    int_impl!(u16_, u16, sa::AtomicU16);
    int_impl!(u32_, u32, sa::AtomicU32);
    int_impl!(u64_, u64, sa::AtomicU64);
    int_impl!(usize_, usize, sa::AtomicUsize);
    int_impl!(i8_, i8, sa::AtomicI8);
    int_impl!(i16_, i16, sa::AtomicI16);
    int_impl!(i32_, i32, sa::AtomicI32);
    int_impl!(i64_, i64, sa::AtomicI64);
    int_impl!(isize_, isize, sa::AtomicIsize);
    bool_impl!(bool_, sa::AtomicBool);
}
mod st {
    use super::*;
    use std::sync::atomic as sa;
    int_impl!(u8_, u8, sa::AtomicU8);
    int_impl!(u16_, u16, sa::AtomicU16);
    int_impl!(u32_, u32, sa::AtomicU32);
    int_impl!(u64_, u64, sa::AtomicU64);
    int_impl!(usize_, usize, sa::AtomicUsize);
    int_impl!(i8_, i8, sa::AtomicI8);
    int_impl!(i16_, i16, sa::AtomicI16);
    int_impl!(i32_, i32, sa::AtomicI32);
    int_impl!(i64_, i64, sa::AtomicI64);
    int_impl!(isize_, isize, sa::AtomicIsize);
    bool_impl!(bool_, sa::AtomicBool);
}

const TYPES: [&str; 11] = ["u8", "u16", "u32", "u64", "usize", "i8", "i16", "i32", "i64", "isize", "bool"];

fn bounds(ty: &str) -> (i128, i128) {
    match ty {
        "u8" => (0, u8::MAX as i128),
        "u16" => (0, u16::MAX as i128),
        "u32" => (0, u32::MAX as i128),
        "u64" | "usize" => (0, u64::MAX as i128),
        "i8" => (i8::MIN as i128, i8::MAX as i128),
        "i16" => (i16::MIN as i128, i16::MAX as i128),
        "i32" => (i32::MIN as i128, i32::MAX as i128),
        "i64" | "isize" => (i64::MIN as i128, i64::MAX as i128),
        _ => (0, 1),
    }
}

fn gen_val(rng: &mut Rng, ty: &str, recent: &[i128]) -> i128 {
    let (lo, hi) = bounds(ty);
    match rng.below(8) {
        0 => 0.max(lo),
        1 => 1,
        2 => lo,
        3 => hi,
        4 => hi - 1,
        5 if !recent.is_empty() => *rng.pick(recent),
        6 => (rng.next_u64() as i128 % 5) - 2,
        _ => lo + ((rng.next_u64() as i128).abs() % (hi - lo + 1)),
    }
}

fn gen_atomic_case(rng: &mut Rng) -> ACase {
    let ty = rng.pick(&TYPES).to_string();
    let init = gen_val(rng, &ty, &[]);
    let nt = rng.range(2, 3);
    let mut recent = vec![init];
    let mut tasks = vec![];
    for _ in 0..nt {
        let mut ops = vec![];
        for _ in 0..rng.range(1, 5) {
            let kind = match rng.below(15) {
                14 => AKind::CasOld,
                0 => AKind::Load,
                1 => AKind::Store,
                2 => AKind::Swap,
                3 => AKind::Cas,
                4 => AKind::CasWeak,
                5 => AKind::Add,
                6 => AKind::Sub,
                7 => AKind::And,
                8 => AKind::Nand,
                9 => AKind::Or,
                10 => AKind::Xor,
                11 => AKind::Max,
                12 => AKind::Min,
                _ => AKind::Update,
            };
            let x = gen_val(rng, &ty, &recent);
            let y = gen_val(rng, &ty, &recent);
            recent.push(x);
            recent.push(y);
            ops.push(AOp { kind, x, y, ord: rng.below(15) as u8 });
        }
        tasks.push(ops);
    }
    let mut sim = SimCfg::new(rng.next_u64());
    sim.policy = if rng.chance(1, 2) { Policy::Uniform } else { Policy::Sticky(4) };
    ACase { ty, init, tasks, sim }
}

/// type-erased atomic cell over both implementations
enum Cell<A8, A16, A32, A64, AU, I8, I16, I32, I64, IS, B> {
    U8(A8),
    U16(A16),
    U32(A32),
    U64(A64),
    Usize(AU),
    I8(I8),
    I16(I16),
    I32(I32),
    I64(I64),
    Isize(IS),
    Bool(B),
}

type ShCell = Cell<
    shuttle::sync::atomic::AtomicU8,
    shuttle::sync::atomic::AtomicU16,
    shuttle::sync::atomic::AtomicU32,
    shuttle::sync::atomic::AtomicU64,
    shuttle::sync::atomic::AtomicUsize,
    shuttle::sync::atomic::AtomicI8,
    shuttle::sync::atomic::AtomicI16,
    shuttle::sync::atomic::AtomicI32,
    shuttle::sync::atomic::AtomicI64,
    shuttle::sync::atomic::AtomicIsize,
    shuttle::sync::atomic::AtomicBool,
>;
type StCell = Cell<
    std::sync::atomic::AtomicU8,
    std::sync::atomic::AtomicU16,
    std::sync::atomic::AtomicU32,
    std::sync::atomic::AtomicU64,
    std::sync::atomic::AtomicUsize,
    std::sync::atomic::AtomicI8,
    std::sync::atomic::AtomicI16,
    std::sync::atomic::AtomicI32,
    std::sync::atomic::AtomicI64,
    std::sync::atomic::AtomicIsize,
    std::sync::atomic::AtomicBool,
>;

fn new_sh(ty: &str, init: i128) -> ShCell {
    use shuttle::sync::atomic::*;
    match ty {
        "u8" => Cell::U8(AtomicU8::new(init as u8)),
        "u16" => Cell::U16(AtomicU16::new(init as u16)),
        "u32" => Cell::U32(AtomicU32::new(init as u32)),
        "u64" => Cell::U64(AtomicU64::new(init as u64)),
        "usize" => Cell::Usize(AtomicUsize::new(init as usize)),
        "i8" => Cell::I8(AtomicI8::new(init as i8)),
        "i16" => Cell::I16(AtomicI16::new(init as i16)),
        "i32" => Cell::I32(AtomicI32::new(init as i32)),
        "i64" => Cell::I64(AtomicI64::new(init as i64)),
        "isize" => Cell::Isize(AtomicIsize::new(init as isize)),
        _ => Cell::Bool(AtomicBool::new(init & 1 == 1)),
    }
}
fn new_st(ty: &str, init: i128) -> StCell {
    use std::sync::atomic::*;
    match ty {
        "u8" => Cell::U8(AtomicU8::new(init as u8)),
        "u16" => Cell::U16(AtomicU16::new(init as u16)),
        "u32" => Cell::U32(AtomicU32::new(init as u32)),
        "u64" => Cell::U64(AtomicU64::new(init as u64)),
        "usize" => Cell::Usize(AtomicUsize::new(init as usize)),
        "i8" => Cell::I8(AtomicI8::new(init as i8)),
        "i16" => Cell::I16(AtomicI16::new(init as i16)),
        "i32" => Cell::I32(AtomicI32::new(init as i32)),
        "i64" => Cell::I64(AtomicI64::new(init as i64)),
        "isize" => Cell::Isize(AtomicIsize::new(init as isize)),
        _ => Cell::Bool(AtomicBool::new(init & 1 == 1)),
    }
}
fn apply_sh(c: &ShCell, op: &AOp) -> String {
    match c {
        Cell::U8(a) => sh::u8_(a, op),
        Cell::U16(a) => sh::u16_(a, op),
        Cell::U32(a) => sh::u32_(a, op),
        Cell::U64(a) => sh::u64_(a, op),
        Cell::Usize(a) => sh::usize_(a, op),
        Cell::I8(a) => sh::i8_(a, op),
        Cell::I16(a) => sh::i16_(a, op),
        Cell::I32(a) => sh::i32_(a, op),
        Cell::I64(a) => sh::i64_(a, op),
        Cell::Isize(a) => sh::isize_(a, op),
        Cell::Bool(a) => sh::bool_(a, op),
    }
}
fn apply_st(c: &StCell, op: &AOp) -> String {
    match c {
        Cell::U8(a) => st::u8_(a, op),
        Cell::U16(a) => st::u16_(a, op),
        Cell::U32(a) => st::u32_(a, op),
        Cell::U64(a) => st::u64_(a, op),
        Cell::Usize(a) => st::usize_(a, op),
        Cell::I8(a) => st::i8_(a, op),
        Cell::I16(a) => st::i16_(a, op),
        Cell::I32(a) => st::i32_(a, op),
        Cell::I64(a) => st::i64_(a, op),
        Cell::Isize(a) => st::isize_(a, op),
        Cell::Bool(a) => st::bool_(a, op),
    }
}

// shuttle's atomics are Sync; the enum of them is too
unsafe impl Sync for ShWrap {}
unsafe impl Send for ShWrap {}
struct ShWrap(ShCell);

/// C02's local form on every atomic type: each atomic operation is preceded by a scheduling
/// decision (two consecutive operations of one task never carry the same decision stamp). Runs a
/// generated typed-atomic case and reports under C02.
pub fn atomic_choicepoint_run(rng: &mut Rng, out: &mut RunOut) {
    let case = gen_atomic_case(rng);
    atomic_choicepoint_case(&case, out);
}

pub fn atomic_choicepoint_replay(case: &Value, out: &mut RunOut) -> bool {
    match case.get("atomic_choicepoint_case").and_then(|c| serde_json::from_value::<ACase>(c.clone()).ok()) {
        Some(c) => {
            atomic_choicepoint_case(&c, out);
            true
        }
        None => false,
    }
}

fn atomic_choicepoint_case(case: &ACase, out: &mut RunOut) {
    let c = Arc::new(case.clone());
    let c2 = c.clone();
    let (ending, rt) = run_recorded(SimSched::new(case.sim.clone()), quiet_config(), move || {
        let cell = Arc::new(ShWrap(new_sh(&c2.ty, c2.init)));
        let mut hs = vec![];
        for (ti, ops) in c2.tasks.iter().enumerate().skip(1) {
            let cell = cell.clone();
            let ops = ops.clone();
            hs.push(shuttle::thread::spawn(move || {
                for (i, op) in ops.iter().enumerate() {
                    let r = apply_sh(&cell.0, op);
                    crate::sim::log("A", format!("{}.{}", ti, i), r);
                }
            }));
        }
        for (i, op) in c2.tasks[0].iter().enumerate() {
            let r = apply_sh(&cell.0, op);
            crate::sim::log("A", format!("0.{}", i), r);
        }
        for h in hs {
            h.join().unwrap();
        }
    });
    out.evals += rt.execs.len() as u64;
    let cj = || json!({"atomic_choicepoint_case": case});
    if let Ending::Panicked(m) = &ending {
        out.violation(format!("C02:atomic:unexpected-panic:{}", m.chars().take(30).collect::<String>()), m.clone(), cj());
        return;
    }
    for ex in &rt.execs {
        out.decisions += ex.decisions().count() as u64;
        if ex.switches() > 0 {
            out.distinct.push(hash_debug(&("cp", &case.ty, ex.chosen_seq(), case.init)) ^ hash_debug(&case.tasks.iter().map(|t| t.iter().map(|o| (format!("{:?}", o.kind), o.x, o.y)).collect::<Vec<_>>()).collect::<Vec<_>>()));
        }
        let mut last_step: std::collections::BTreeMap<u32, u64> = Default::default();
        for e in ex.events.iter().filter(|e| e.kind == "A") {
            out.count("atomic_ops_with_choice_point_checked", 1);
            let (ti, i) = e.op.split_once('.').unwrap();
            let op = &case.tasks[ti.parse::<usize>().unwrap()][i.parse::<usize>().unwrap()];
            if let Some(prev) = last_step.get(&e.task) {
                if *prev == e.step as u64 {
                    out.violation(
                        format!("C02:no-choice-point-before:atomic-{:?}", op.kind),
                        format!("type {}: operation {:?} of task {} completed without any scheduling decision since the task's previous atomic operation (decision stamp {}): the other tasks' operations can never be ordered between the two", case.ty, op, e.task, e.step),
                        cj(),
                    );
                    return;
                }
            }
            last_step.insert(e.task, e.step as u64);
        }
    }
}

fn run_atomic_case(case: &ACase, out: &mut RunOut) {
    let c = Arc::new(case.clone());
    let c2 = c.clone();
    let (ending, rt) = run_recorded(SimSched::new(case.sim.clone()), quiet_config(), move || {
        let cell = Arc::new(ShWrap(new_sh(&c2.ty, c2.init)));
        let mut hs = vec![];
        for (ti, ops) in c2.tasks.iter().enumerate().skip(1) {
            let cell = cell.clone();
            let ops = ops.clone();
            hs.push(shuttle::thread::spawn(move || {
                for (i, op) in ops.iter().enumerate() {
                    let r = apply_sh(&cell.0, op);
                    crate::sim::log("A", format!("{}.{}", ti, i), r);
                }
            }));
        }
        for (i, op) in c2.tasks[0].iter().enumerate() {
            let r = apply_sh(&cell.0, op);
            crate::sim::log("A", format!("0.{}", i), r);
        }
        for h in hs {
            h.join().unwrap();
        }
    });
    out.evals += rt.execs.len() as u64;
    let cj = || json!({"atomic_case": case});
    if let Ending::Panicked(m) = &ending {
        out.violation(format!("C04:atomic:unexpected-panic:{}", m.chars().take(30).collect::<String>()), m.clone(), cj());
        return;
    }
    for ex in &rt.execs {
        out.decisions += ex.decisions().count() as u64;
        if ex.switches() > 0 {
            out.distinct.push(hash_debug(&(&case.ty, &case.tasks.len(), ex.chosen_seq(), case.init)) ^ hash_debug(&case.tasks.iter().map(|t| t.iter().map(|o| (format!("{:?}", o.kind), o.x, o.y)).collect::<Vec<_>>()).collect::<Vec<_>>()));
        }
        // replay on std in the run's step order
        let cell = new_st(&case.ty, case.init);
        for e in ex.events.iter().filter(|e| e.kind == "A") {
            let (ti, i) = e.op.split_once('.').unwrap();
            let op = &case.tasks[ti.parse::<usize>().unwrap()][i.parse::<usize>().unwrap()];
            if op.kind == AKind::CasWeak {
                // a weak compare-exchange may fail spuriously: legal iff it reports the current value and stores nothing
                let cur = apply_st(&cell, &AOp { kind: AKind::Load, x: 0, y: 0, ord: 2 });
                if e.val == format!("Err({})", cur) {
                    out.count("atomic_ops_compared", 1);
                    out.count("atomic_cas_failed", 1);
                    continue;
                }
            }
            let strong = AOp { kind: if op.kind == AKind::CasWeak { AKind::Cas } else { op.kind.clone() }, ..op.clone() };
            let want = apply_st(&cell, &strong);
            out.count("atomic_ops_compared", 1);
            if e.val.starts_with("Err") {
                out.count("atomic_cas_failed", 1);
            }
            if want != e.val {
                out.violation(
                    format!("C04:atomic:differs-from-std:{:?}", op.kind),
                    format!("type {} op {:?} returned {} but std returns {} at that point of the total order", case.ty, op, e.val, want),
                    cj(),
                );
                break;
            }
        }
        let total: usize = case.tasks.iter().map(|t| t.len()).sum();
        if ex.events.iter().filter(|e| e.kind == "A").count() != total {
            out.violation("C04:atomic:operations-missing", "not every operation completed".to_string(), cj());
        }
    }
    out.count("atomic_types_seen", 1);
    out.count(&format!("atomic_type_{}", case.ty), 1);
    if out.sample.is_none() {
        out.sample = Some(json!({"type": case.ty, "init": case.init.to_string(), "tasks": case.tasks.iter().map(|t| t.iter().map(|o| format!("{:?}({},{})", o.kind, o.x, o.y)).collect::<Vec<_>>()).collect::<Vec<_>>()}));
    }
}

#[allow(unused_macros)]
macro_rules! _unused {
    () => {};
}
