//! C01 — a recorded schedule replays to the identical execution.

use super::common::*;
use crate::coord::{Batch, Check, RunOut, Tier};
use crate::prog::{gen_program, run_program, take_monitor_violations, GenCfg, Program};
use crate::sim::{hash_debug, quiet_config, run_recorded, vec_to_schedule, Ending, ExecTrace, Rng, RunTrace, SimCfg, SimSched};
use serde::{Deserialize, Serialize};
use serde_json::{json, Value};
use shuttle::scheduler::{DfsScheduler, PctScheduler, RandomScheduler, ReplayScheduler, RoundRobinScheduler, UncontrolledNondeterminismCheckScheduler, UrwRandomScheduler};
use shuttle_engine::scheduler::serialization::serialize_schedule;
use shuttle_engine::scheduler::Scheduler;
use std::sync::Arc;

#[derive(Clone, Debug, Serialize, Deserialize, PartialEq)]
pub enum SchedKind {
    Random(u64, usize),
    Pct(u64, usize, usize),
    Urw(u64, usize),
    Dfs(usize),
    RoundRobin(usize),
    Sim(SimCfg),
}

#[derive(Clone, Debug, Serialize, Deserialize)]
pub struct Case {
    pub prog: Program,
    /// when present the body is this async program (futures, JoinHandles, abort, wakers) instead of `prog`
    #[serde(default)]
    pub aprog: Option<super::c17::AProg>,
    pub sched: SchedKind,
}

type BodyFn = Arc<dyn Fn() + Send + Sync>;

fn body_of(case: &Case) -> BodyFn {
    match &case.aprog {
        Some(a) => {
            let a = Arc::new(a.clone());
            Arc::new(move || super::c17::run_prog(&a))
        }
        None => {
            let p = Arc::new(case.prog.clone());
            Arc::new(move || run_program(&p))
        }
    }
}

pub fn build(kind: &SchedKind) -> Box<dyn Scheduler + Send> {
    match kind {
        SchedKind::Random(seed, n) => Box::new(RandomScheduler::new_from_seed(*seed, *n)),
        SchedKind::Pct(seed, depth, n) => Box::new(PctScheduler::new_from_seed(*seed, *depth, *n)),
        SchedKind::Urw(seed, n) => Box::new(UrwRandomScheduler::new_from_seed(*seed, *n)),
        SchedKind::Dfs(n) => Box::new(DfsScheduler::new(Some(*n), true)),
        SchedKind::RoundRobin(n) => Box::new(RoundRobinScheduler::new(*n)),
        SchedKind::Sim(cfg) => Box::new(SimSched::new(cfg.clone())),
    }
}

pub fn gen_sched(rng: &mut Rng) -> SchedKind {
    let n = rng.range(1, 6);
    match rng.below(7) {
        0 | 1 => SchedKind::Random(rng.next_u64(), n),
        2 => SchedKind::Pct(rng.next_u64(), rng.range(1, 4), n),
        3 => SchedKind::Urw(rng.next_u64(), n),
        4 => SchedKind::Dfs(n),
        5 => SchedKind::RoundRobin(1),
        _ => {
            let mut c = SimCfg::new(rng.next_u64());
            c.policy = random_policy(rng);
            c.execs = n as u32;
            SchedKind::Sim(c)
        }
    }
}

pub fn check() -> Check {
    Check {
        id: "C01",
        level: "exploration",
        rule: "each run draws a program (all std-level primitive families, shuttle::rand draws, possibly failing: uncaught panic or deadlock), a scheduler under test (Random, PCT d=1..4, URW, DFS with random data, RoundRobin, SimSched) and 1-6 iterations; every execution's runtime-recorded schedule must equal the recorder's own reconstruction, and its printed string, fed to ReplayScheduler (as printed / flattened / from file), must reproduce decisions, offered sets, draws, event log and ending exactly; the uncontrolled-nondeterminism checker must accept the body. Distinct = (program, schedule) hash; non-trivial = at least one task switch",
        assumptions: &["event log written by the interpreter captures every result of every synchronisation operation and draw", "replay is performed in the same process (cross-process equality is covered by the selfcheck and by C12/C14 children)"],
        real_components: "real: shuttle-engine runtime + schedule recording, all built-in schedulers, ReplayScheduler, serialization, shuttle-std primitives, shuttle::rand; stub: none",
        batches,
        run,
        replay,
        probes: &["failing_execution_replayed", "execution_with_4+_draws", "replay_from_file", "replay_from_multiline_file", "nondet_checker_runs", "deadlock_replayed", "sched_Random", "sched_Pct", "sched_Urw", "sched_Dfs", "sched_RoundRobin", "sched_Sim"],
    }
}

fn batches(t: Tier) -> Vec<Batch> {
    vec![Batch::new("replay", t.pick(6000, 150000), 200), Batch::new("failing", t.pick(3000, 60000), 200), Batch::new("async", t.pick(4000, 80000), 200), Batch::new("long", t.pick(600, 12000), 40)]
}

fn gen_case(batch: &str, rng: &mut Rng) -> Case {
    let mut cfg = GenCfg::swarm(rng);
    cfg.rand = rng.chance(2, 3);
    if batch == "failing" {
        cfg.fail = true;
        cfg.join_prob = 4;
    }
    if batch == "long" {
        // long executions: the printed schedule wraps over several lines
        let mut cfg = GenCfg::none();
        cfg.atomic = true;
        cfg.yields = true;
        cfg.mutex = rng.chance(1, 2);
        cfg.rand = rng.chance(1, 2);
        cfg.max_bodies = rng.range(3, 4);
        cfg.max_ops = rng.range(10, 18);
        cfg.join_prob = 7;
        if rng.chance(1, 3) {
            cfg.fail = true;
        }
        let mut prog = gen_program(rng, &cfg);
        // pad with cheap visible operations until the execution is long enough for the printed
        // schedule to wrap (76 hex columns ~ 100 steps)
        let target = rng.range(130, 220);
        while prog.op_count() < target {
            let b = rng.below(prog.bodies.len());
            let pos = rng.below(prog.bodies[b].len() + 1);
            let op = match rng.below(4) {
                0 => crate::prog::Op::Yield,
                1 => crate::prog::Op::AAdd(0, 1),
                2 => crate::prog::Op::ALoad(0),
                _ => crate::prog::Op::Sleep,
            };
            prog.bodies[b].insert(pos, op);
        }
        return Case { prog, aprog: None, sched: gen_sched(rng) };
    }
    if batch == "async" {
        return Case { prog: Program::default(), aprog: Some(super::c17::gen_prog(rng)), sched: gen_sched(rng) };
    }
    Case { prog: gen_program(rng, &cfg), aprog: None, sched: gen_sched(rng) }
}

fn run_with(kind: &SchedKind, body: &BodyFn) -> (Ending, RunTrace) {
    let p = body.clone();
    let _ = take_monitor_violations();
    let r = run_recorded(build(kind), quiet_config(), move || p());
    let _ = take_monitor_violations();
    r
}

fn expected_nonviolation_panic(msg: &str) -> bool {
    msg.starts_with("deadlock! blocked tasks") || msg.starts_with("fail:") || msg.contains("did not exercise any concurrency")
}

fn same_exec(a: &ExecTrace, b: &ExecTrace) -> Option<String> {
    if a.items != b.items {
        let n = a.items.iter().zip(b.items.iter()).position(|(x, y)| x != y).unwrap_or(a.items.len().min(b.items.len()));
        return Some(format!("decision/draw traces differ at item {}: {:?} vs {:?}", n, a.items.get(n), b.items.get(n)));
    }
    // Events logged by tasks must be identical, in order. Events logged by the teardown of the
    // execution (no current task: destructors of statics / abandoned stacks after the last step)
    // are compared as a multiset: after a *failing* execution the runtime drops its per-execution
    // storage in hash-map order, which no property statement constrains.
    let ta: Vec<_> = a.events.iter().filter(|e| e.task != u32::MAX).collect();
    let tb: Vec<_> = b.events.iter().filter(|e| e.task != u32::MAX).collect();
    if ta != tb {
        let n = ta.iter().zip(tb.iter()).position(|(x, y)| x != y).unwrap_or(ta.len().min(tb.len()));
        return Some(format!("event logs differ at event {}: {:?} vs {:?}", n, ta.get(n), tb.get(n)));
    }
    let mut da: Vec<String> = a.events.iter().filter(|e| e.task == u32::MAX).map(|e| format!("{}{}={}", e.kind, e.op, e.val)).collect();
    let mut db: Vec<String> = b.events.iter().filter(|e| e.task == u32::MAX).map(|e| format!("{}{}={}", e.kind, e.op, e.val)).collect();
    da.sort();
    db.sort();
    if da != db {
        return Some(format!("teardown events differ: {:?} vs {:?}", da, db));
    }
    None
}

fn check_case(case: &Case, out: &mut RunOut, rng_seed: u64) {
    let prog = body_of(case);
    let (ending, rt) = run_with(&case.sched, &prog);
    let name = match &case.sched {
        SchedKind::Random(..) => "sched_Random",
        SchedKind::Pct(..) => "sched_Pct",
        SchedKind::Urw(..) => "sched_Urw",
        SchedKind::Dfs(..) => "sched_Dfs",
        SchedKind::RoundRobin(..) => "sched_RoundRobin",
        SchedKind::Sim(..) => "sched_Sim",
    };
    out.count(name, 1);
    let cj = || json!({"c01": case});
    if let Ending::Panicked(m) = &ending {
        if !expected_nonviolation_panic(m) {
            // Any other panic (e.g. an internal assertion of a lock reached while a panicking
            // holder unwinds, findings F4/F20) is not C01's business as such: it is an ending like
            // any other, and the replay below must reproduce exactly it.
            out.count("ending_other_panic", 1);
        }
        if m.contains("did not exercise any concurrency") {
            out.count("pct_no_concurrency", 1);
        }
    }
    let nexec = rt.execs.len();
    for (i, ex) in rt.execs.iter().enumerate() {
        out.evals += 1;
        out.decisions += ex.decisions().count() as u64;
        let recorded = match &ex.recorded {
            Some(r) => r.clone(),
            None => continue,
        };
        // (1) recorded schedule == reconstruction
        if recorded.0 != ex.seed {
            out.violation("C01:recorded-seed-differs", format!("exec {}: recorded seed {} but new_execution returned {}", i, recorded.0, ex.seed), cj());
        }
        let rec = ex.reconstruct();
        if recorded.1 != rec {
            out.violation(
                "C01:recorded-schedule-differs-from-decisions",
                format!("exec {}: runtime recorded {:?} but the scheduler answered {:?}", i, recorded.1, rec),
                cj(),
            );
            continue;
        }
        if ex.switches() > 0 {
            out.distinct.push(hash_debug(&(&case.prog, format!("{:?}", case.aprog), &recorded)));
        }
        if ex.draws().len() >= 4 {
            out.count("execution_with_4+_draws", 1);
        }
        let is_last = i + 1 == nexec;
        let orig_end: Ending = match &ending {
            Ending::Panicked(m) if is_last => Ending::Panicked(m.clone()),
            _ => Ending::Returned(1),
        };
        if let Ending::Panicked(m) = &orig_end {
            if m.contains("did not exercise any concurrency") {
                continue;
            }
        }
        // (2) replay through the printed string
        let sched = vec_to_schedule(recorded.0, &recorded.1);
        let text = serialize_schedule(&sched);
        let multiline = text.contains('\n');
        // multi-line schedules always go through a file once (that is how FailurePersistence::File is replayed)
        let layout = if multiline && (rng_seed as usize + i) % 2 == 0 { 2 } else { (rng_seed as usize + i) % 3 };
        if multiline && layout == 2 {
            out.count("replay_from_multiline_file", 1);
        }
        let replay_sched = match layout {
            0 => ReplayScheduler::new_from_encoded(&text),
            1 => {
                let flat: String = text.chars().filter(|c| !c.is_whitespace()).collect();
                ReplayScheduler::new_from_encoded(&format!("  {}\n", flat))
            }
            _ => {
                let dir = crate::coord::verif_root().join("harness").join("target").join("vtmp");
                let _ = std::fs::create_dir_all(&dir);
                let path = dir.join(format!("c01-{}-{}.txt", std::process::id(), rng_seed));
                std::fs::write(&path, &text).unwrap();
                let r = ReplayScheduler::new_from_file(&path).unwrap();
                let _ = std::fs::remove_file(&path);
                out.count("replay_from_file", 1);
                r
            }
        };
        let p2 = prog.clone();
        let _ = take_monitor_violations();
        let (rend, rrt) = run_recorded(replay_sched, quiet_config(), move || p2());
        let _ = take_monitor_violations();
        out.evals += 1;
        let rex = match rrt.execs.first() {
            Some(e) => e,
            None => {
                out.violation("C01:replay-did-not-run", format!("exec {}: replay performed no execution", i), cj());
                continue;
            }
        };
        if rend != orig_end {
            out.violation(
                "C01:replay-ending-differs",
                format!("exec {}: original ended {:?}, replay of {:?} ended {:?}", i, orig_end, text, rend),
                cj(),
            );
            continue;
        }
        // the replay scheduler answers the same tasks; compare everything the runtime showed it
        if let Some(d) = same_exec(ex, rex) {
            out.violation("C01:replay-differs", format!("exec {}: {}", i, d), cj());
            continue;
        }
        if matches!(orig_end, Ending::Panicked(_)) {
            out.count("failing_execution_replayed", 1);
            if let Ending::Panicked(m) = &orig_end {
                if m.starts_with("deadlock") {
                    out.count("deadlock_replayed", 1);
                }
            }
        }
    }
    // (3) the uncontrolled-nondeterminism checker accepts the body
    {
        let p2 = prog.clone();
        let inner = build(&case.sched);
        let _ = take_monitor_violations();
        let (nend, nrt) = run_recorded(UncontrolledNondeterminismCheckScheduler::new(inner), quiet_config(), move || p2());
        let _ = take_monitor_violations();
        out.count("nondet_checker_runs", 1);
        out.evals += nrt.execs.len() as u64;
        if let Ending::Panicked(m) = &nend {
            if m.contains("possible nondeterminism") {
                out.violation("C01:nondeterminism-checker-rejects", m.clone(), cj());
            } else if !expected_nonviolation_panic(m) {
                out.count("ending_other_panic_under_checker", 1);
            }
        }
    }
    if out.sample.is_none() && nexec > 0 && rt.execs[0].switches() > 1 {
        let r = rt.execs[0].recorded.clone().unwrap_or_default();
        out.sample = Some(json!({"program": case.prog, "async_program": case.aprog, "scheduler": format!("{:?}", case.sched), "recorded_schedule": serialize_schedule(&vec_to_schedule(r.0, &r.1)), "ending": format!("{:?}", ending)}));
    }
}

fn run(batch: &str, _idx: u64, seed: u64, _tier: Tier) -> RunOut {
    let mut rng = Rng::new(seed);
    let mut out = RunOut::default();
    let case = gen_case(batch, &mut rng);
    check_case(&case, &mut out, seed);
    out
}

fn replay(case: &Value) -> RunOut {
    let mut out = RunOut::default();
    if let Some(c) = case.get("c01").and_then(|c| serde_json::from_value::<Case>(c.clone()).ok()) {
        for s in 0..3 {
            check_case(&c, &mut out, s);
        }
    }
    out
}
