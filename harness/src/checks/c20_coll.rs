//! C20 family 3 — deterministic_collections HashMap / HashSet.
//!
//! (a) seeded operation histories executed against `std` collections: same results and same
//!     contents after every operation;
//! (b) the iteration order is a function of the operation history alone: the iteration sequence of
//!     every container after every operation is computed (i) twice in one process with two
//!     independent sets of instances, (ii) inside a Shuttle execution, (iii) in >= 3 separate child
//!     processes (`vcheck --child c20coll <seed> <n>`), inside and outside a Shuttle execution
//!     there too. All must be identical. std's `RandomState` differs per process (and per instance),
//!     so any leak of a fresh `RandomState` shows up as a difference.
//!
//! A difference is attributed to the operation that *constructed* the container on which it first
//! shows (that is where the hasher comes from), unless one of the operation's inputs already
//! differed (then it is propagation and not reported again).

use super::common::Finding;
use crate::sim::{fnv, Rng};
use deterministic_collections::{HashMap as DMap, HashSet as DSet};
use serde::{Deserialize, Serialize};
use std::collections::HashMap as SMap;
use std::collections::HashSet as SSet;

pub const NMAPS: usize = 2;
pub const NSETS: usize = 3;

type KV = (u16, u32);

#[derive(Clone, Debug, PartialEq, Eq, Serialize, Deserialize)]
pub enum COp {
    MNew(usize),
    MWithCap(usize, usize),
    MDefault(usize),
    MInsert(usize, u16, u32),
    MRemove(usize, u16),
    MReserve(usize, usize),
    MShrink(usize),
    MClear(usize),
    MClone(usize, usize),
    MFromIter(usize, Vec<KV>),
    MFromArr(usize, [KV; 3]),
    MFromStd(usize, Vec<KV>),
    MExtend(usize, Vec<KV>),
    MExtendRef(usize, Vec<KV>),
    MRetain(usize, u16),
    MDrain(usize),
    MEntry(usize, u16, u32),
    MGetMut(usize, u16, u32),
    MIterMut(usize),
    MSerde(usize),
    MStdRoundTrip(usize),
    MIntoKeys(usize),
    MIntoValues(usize),
    MIntoIter(usize),
    MIndexGet(usize, u16),
    SNew(usize),
    SWithCap(usize, usize),
    SInsert(usize, u16),
    SRemove(usize, u16),
    SReserve(usize, usize),
    SShrink(usize),
    SClear(usize),
    SClone(usize, usize),
    SFromIter(usize, Vec<u16>),
    SFromArr(usize, [u16; 4]),
    SFromStd(usize, Vec<u16>),
    SExtend(usize, Vec<u16>),
    SExtendRef(usize, Vec<u16>),
    SRetain(usize, u16),
    SDrain(usize),
    SBitOr(usize, usize, usize),
    SBitAnd(usize, usize, usize),
    SBitXor(usize, usize, usize),
    SSub(usize, usize, usize),
    SUnionIter(usize, usize),
    SInterIter(usize, usize),
    SDiffIter(usize, usize),
    SSymIter(usize, usize),
    SSerde(usize),
    SStdRoundTrip(usize),
    SIntoIter(usize),
    SRelations(usize, usize),
}

impl COp {
    pub fn name(&self) -> &'static str {
        match self {
            COp::MNew(..) => "map_new",
            COp::MWithCap(..) => "map_with_capacity",
            COp::MDefault(..) => "map_default",
            COp::MInsert(..) => "map_insert",
            COp::MRemove(..) => "map_remove",
            COp::MReserve(..) => "map_reserve",
            COp::MShrink(..) => "map_shrink_to_fit",
            COp::MClear(..) => "map_clear",
            COp::MClone(..) => "map_clone",
            COp::MFromIter(..) => "map_from_iter",
            COp::MFromArr(..) => "map_from_array",
            COp::MFromStd(..) => "from_std",
            COp::MExtend(..) => "map_extend",
            COp::MExtendRef(..) => "map_extend_ref",
            COp::MRetain(..) => "map_retain",
            COp::MDrain(..) => "map_drain",
            COp::MEntry(..) => "map_entry",
            COp::MGetMut(..) => "map_get_mut",
            COp::MIterMut(..) => "map_iter_mut",
            COp::MSerde(..) => "serde",
            COp::MStdRoundTrip(..) => "map_std_round_trip",
            COp::MIntoKeys(..) => "map_into_keys",
            COp::MIntoValues(..) => "map_into_values",
            COp::MIntoIter(..) => "map_into_iter",
            COp::MIndexGet(..) => "map_index",
            COp::SNew(..) => "set_new",
            COp::SWithCap(..) => "set_with_capacity",
            COp::SInsert(..) => "set_insert",
            COp::SRemove(..) => "set_remove",
            COp::SReserve(..) => "set_reserve",
            COp::SShrink(..) => "set_shrink_to_fit",
            COp::SClear(..) => "set_clear",
            COp::SClone(..) => "set_clone",
            COp::SFromIter(..) => "set_from_iter",
            COp::SFromArr(..) => "set_from_array",
            COp::SFromStd(..) => "from_std",
            COp::SExtend(..) => "set_extend",
            COp::SExtendRef(..) => "set_extend_ref",
            COp::SRetain(..) => "set_retain",
            COp::SDrain(..) => "set_drain",
            COp::SBitOr(..) => "bitor",
            COp::SBitAnd(..) => "bitand",
            COp::SBitXor(..) => "bitxor",
            COp::SSub(..) => "sub",
            COp::SUnionIter(..) => "set_union_iter",
            COp::SInterIter(..) => "set_intersection_iter",
            COp::SDiffIter(..) => "set_difference_iter",
            COp::SSymIter(..) => "set_symmetric_difference_iter",
            COp::SSerde(..) => "serde",
            COp::SStdRoundTrip(..) => "set_std_round_trip",
            COp::SIntoIter(..) => "set_into_iter",
            COp::SRelations(..) => "set_relations",
        }
    }

    /// (destination container, source containers, constructs the destination afresh?)
    /// container ids: maps 0..NMAPS, sets NMAPS..NMAPS+NSETS
    pub fn flow(&self) -> (Option<usize>, Vec<usize>, bool) {
        let s = |i: &usize| NMAPS + *i;
        match self {
            COp::MNew(m) | COp::MWithCap(m, _) | COp::MDefault(m) | COp::MFromIter(m, _) | COp::MFromArr(m, _) | COp::MFromStd(m, _) => (Some(*m), vec![], true),
            COp::MSerde(m) | COp::MStdRoundTrip(m) => (Some(*m), vec![*m], true),
            COp::MIntoKeys(m) | COp::MIntoValues(m) | COp::MIntoIter(m) => (Some(*m), vec![*m], true),
            COp::MClone(d, src) => (Some(*d), vec![*src], true),
            COp::MInsert(m, ..) | COp::MRemove(m, _) | COp::MReserve(m, _) | COp::MShrink(m) | COp::MClear(m) | COp::MExtend(m, _) | COp::MExtendRef(m, _) | COp::MRetain(m, _) | COp::MDrain(m) | COp::MEntry(m, ..) | COp::MGetMut(m, ..) | COp::MIterMut(m) | COp::MIndexGet(m, _) => {
                (Some(*m), vec![*m], false)
            }
            COp::SNew(x) | COp::SWithCap(x, _) | COp::SFromIter(x, _) | COp::SFromArr(x, _) | COp::SFromStd(x, _) => (Some(s(x)), vec![], true),
            COp::SSerde(x) | COp::SStdRoundTrip(x) | COp::SIntoIter(x) => (Some(s(x)), vec![s(x)], true),
            COp::SClone(d, src) => (Some(s(d)), vec![s(src)], true),
            COp::SInsert(x, _) | COp::SRemove(x, _) | COp::SReserve(x, _) | COp::SShrink(x) | COp::SClear(x) | COp::SExtend(x, _) | COp::SExtendRef(x, _) | COp::SRetain(x, _) | COp::SDrain(x) => (Some(s(x)), vec![s(x)], false),
            COp::SBitOr(d, a, b) | COp::SBitAnd(d, a, b) | COp::SBitXor(d, a, b) | COp::SSub(d, a, b) => (Some(s(d)), vec![s(a), s(b)], true),
            COp::SUnionIter(a, b) | COp::SInterIter(a, b) | COp::SDiffIter(a, b) | COp::SSymIter(a, b) | COp::SRelations(a, b) => (None, vec![s(a), s(b)], false),
        }
    }
}

#[derive(Clone, Debug, PartialEq, Eq, Serialize, Deserialize)]
pub struct History {
    pub ops: Vec<COp>,
}

// ---------------------------------------------------------------------------------------------
// Generator
// ---------------------------------------------------------------------------------------------

fn kvs(rng: &mut Rng, keys: usize, max: usize) -> Vec<KV> {
    let n = rng.range(0, max);
    (0..n).map(|_| (rng.below(keys) as u16, rng.below(100000) as u32)).collect()
}

fn ks(rng: &mut Rng, keys: usize, max: usize) -> Vec<u16> {
    let n = rng.range(0, max);
    (0..n).map(|_| rng.below(keys) as u16).collect()
}

pub fn gen_history(rng: &mut Rng) -> History {
    let keys = *rng.pick(&[4usize, 8, 16, 40, 100, 400]);
    let n = rng.range(4, 28);
    let bulk = rng.range(2, 24);
    let mut ops = vec![];
    // swarm: which rare operation families are enabled in this history
    let en_ops = rng.chance(2, 3);
    let en_serde = rng.chance(1, 2);
    let en_std = rng.chance(1, 2);
    for _ in 0..n {
        let m = rng.below(NMAPS);
        let s = rng.below(NSETS);
        let k = rng.below(keys) as u16;
        let v = rng.below(100000) as u32;
        let op = if rng.chance(1, 2) {
            match rng.below(34) {
                0..=7 => COp::MInsert(m, k, v),
                8 | 9 => COp::MRemove(m, k),
                10 => COp::MReserve(m, rng.below(200)),
                11 => COp::MShrink(m),
                12 => COp::MClear(m),
                13 | 14 => COp::MClone(m, rng.below(NMAPS)),
                15 | 16 => COp::MFromIter(m, kvs(rng, keys, bulk)),
                17 => COp::MFromArr(m, [(k, v), (rng.below(keys) as u16, v + 1), (rng.below(keys) as u16, v + 2)]),
                18 if en_std => COp::MFromStd(m, kvs(rng, keys, bulk)),
                19 | 20 => COp::MExtend(m, kvs(rng, keys, bulk)),
                21 => COp::MExtendRef(m, kvs(rng, keys, bulk)),
                22 => COp::MRetain(m, rng.range(2, 4) as u16),
                23 => COp::MDrain(m),
                24 => COp::MEntry(m, k, v),
                25 => COp::MGetMut(m, k, v),
                26 => COp::MIterMut(m),
                27 if en_serde => COp::MSerde(m),
                28 => COp::MStdRoundTrip(m),
                29 => match rng.below(3) {
                    0 => COp::MIntoKeys(m),
                    1 => COp::MIntoValues(m),
                    _ => COp::MIntoIter(m),
                },
                30 => COp::MWithCap(m, rng.below(100)),
                31 => {
                    if rng.chance(1, 2) {
                        COp::MNew(m)
                    } else {
                        COp::MDefault(m)
                    }
                }
                32 => COp::MIndexGet(m, k),
                _ => COp::MInsert(m, k, v),
            }
        } else {
            let a = rng.below(NSETS);
            let b = rng.below(NSETS);
            match rng.below(36) {
                0..=7 => COp::SInsert(s, k),
                8 | 9 => COp::SRemove(s, k),
                10 => COp::SReserve(s, rng.below(200)),
                11 => COp::SShrink(s),
                12 => COp::SClear(s),
                13 | 14 => COp::SClone(s, a),
                15 | 16 => COp::SFromIter(s, ks(rng, keys, bulk)),
                17 => COp::SFromArr(s, [k, rng.below(keys) as u16, rng.below(keys) as u16, rng.below(keys) as u16]),
                18 if en_std => COp::SFromStd(s, ks(rng, keys, bulk)),
                19 | 20 => COp::SExtend(s, ks(rng, keys, bulk)),
                21 => COp::SExtendRef(s, ks(rng, keys, bulk)),
                22 => COp::SRetain(s, rng.range(2, 4) as u16),
                23 => COp::SDrain(s),
                24 | 25 if en_ops => COp::SBitOr(s, a, b),
                26 if en_ops => COp::SBitAnd(s, a, b),
                27 if en_ops => COp::SBitXor(s, a, b),
                28 if en_ops => COp::SSub(s, a, b),
                29 => COp::SUnionIter(a, b),
                30 => match rng.below(3) {
                    0 => COp::SInterIter(a, b),
                    1 => COp::SDiffIter(a, b),
                    _ => COp::SSymIter(a, b),
                },
                31 if en_serde => COp::SSerde(s),
                32 => COp::SStdRoundTrip(s),
                33 => COp::SIntoIter(s),
                34 => {
                    if rng.chance(1, 2) {
                        COp::SWithCap(s, rng.below(100))
                    } else {
                        COp::SNew(s)
                    }
                }
                35 => COp::SRelations(a, b),
                _ => COp::SInsert(s, k),
            }
        };
        ops.push(op);
    }
    History { ops }
}

// ---------------------------------------------------------------------------------------------
// Execution
// ---------------------------------------------------------------------------------------------

#[derive(Clone, Debug, PartialEq, Eq)]
pub struct OpOut {
    /// hash of the iteration sequence of every container after the operation
    pub hashes: Vec<u64>,
    /// hash of the order-sensitive sequences produced by the operation itself (drain order, ...)
    pub seq: u64,
    /// order-insensitive result of the operation (compared with std's)
    pub result: String,
    /// first disagreement with the std mirror (contents / result), if any
    pub problem: Option<String>,
}

fn hseq<T: std::fmt::Debug>(v: &[T]) -> u64 {
    fnv(format!("{:?}", v).as_bytes())
}

struct World {
    dm: Vec<DMap<u16, u32>>,
    ds: Vec<DSet<u16>>,
    sm: Vec<SMap<u16, u32>>,
    ss: Vec<SSet<u16>>,
}

fn sorted_kv<'a>(it: impl Iterator<Item = (&'a u16, &'a u32)>) -> Vec<KV> {
    let mut v: Vec<KV> = it.map(|(k, v)| (*k, *v)).collect();
    v.sort();
    v
}

fn sorted_k<'a>(it: impl Iterator<Item = &'a u16>) -> Vec<u16> {
    let mut v: Vec<u16> = it.copied().collect();
    v.sort();
    v
}

/// Execute one history; the std mirror is executed alongside.
pub fn run_history(h: &History) -> Vec<OpOut> {
    let mut w = World {
        dm: (0..NMAPS).map(|_| DMap::new()).collect(),
        ds: (0..NSETS).map(|_| DSet::new()).collect(),
        sm: (0..NMAPS).map(|_| SMap::new()).collect(),
        ss: (0..NSETS).map(|_| SSet::new()).collect(),
    };
    let mut outs = Vec::with_capacity(h.ops.len());
    for op in &h.ops {
        // (det result, std result, order-sensitive sequences of the det side)
        let mut seq: Vec<u64> = vec![];
        let (rd, rs): (String, String) = match op {
            COp::MNew(m) => {
                w.dm[*m] = DMap::new();
                w.sm[*m] = SMap::new();
                (String::new(), String::new())
            }
            COp::MWithCap(m, n) => {
                w.dm[*m] = DMap::with_capacity(*n);
                w.sm[*m] = SMap::with_capacity(*n);
                (format!("{}", w.dm[*m].capacity() >= *n), format!("{}", w.sm[*m].capacity() >= *n))
            }
            COp::MDefault(m) => {
                w.dm[*m] = Default::default();
                w.sm[*m] = Default::default();
                (String::new(), String::new())
            }
            COp::MInsert(m, k, v) => (format!("{:?}", w.dm[*m].insert(*k, *v)), format!("{:?}", w.sm[*m].insert(*k, *v))),
            COp::MRemove(m, k) => (format!("{:?}", w.dm[*m].remove(k)), format!("{:?}", w.sm[*m].remove(k))),
            COp::MReserve(m, n) => {
                w.dm[*m].reserve(*n);
                w.sm[*m].reserve(*n);
                (String::new(), String::new())
            }
            COp::MShrink(m) => {
                w.dm[*m].shrink_to_fit();
                w.sm[*m].shrink_to_fit();
                (String::new(), String::new())
            }
            COp::MClear(m) => {
                w.dm[*m].clear();
                w.sm[*m].clear();
                (String::new(), String::new())
            }
            COp::MClone(d, s) => {
                let c = w.dm[*s].clone();
                w.dm[*d] = c;
                let c = w.sm[*s].clone();
                w.sm[*d] = c;
                (String::new(), String::new())
            }
            COp::MFromIter(m, v) => {
                w.dm[*m] = DMap::from_iter(v.iter().copied());
                w.sm[*m] = SMap::from_iter(v.iter().copied());
                (String::new(), String::new())
            }
            COp::MFromArr(m, a) => {
                w.dm[*m] = DMap::from(*a);
                w.sm[*m] = SMap::from(*a);
                (String::new(), String::new())
            }
            COp::MFromStd(m, v) => {
                let std: SMap<u16, u32> = v.iter().copied().collect();
                w.dm[*m] = DMap::from(std.clone());
                w.sm[*m] = std;
                (String::new(), String::new())
            }
            COp::MExtend(m, v) => {
                w.dm[*m].extend(v.iter().copied());
                w.sm[*m].extend(v.iter().copied());
                (String::new(), String::new())
            }
            COp::MExtendRef(m, v) => {
                w.dm[*m].extend(v.iter().map(|(k, v)| (k, v)));
                w.sm[*m].extend(v.iter().map(|(k, v)| (k, v)));
                (String::new(), String::new())
            }
            COp::MRetain(m, md) => {
                w.dm[*m].retain(|k, _| *k % *md != 0);
                w.sm[*m].retain(|k, _| *k % *md != 0);
                (String::new(), String::new())
            }
            COp::MDrain(m) => {
                let d: Vec<KV> = w.dm[*m].drain().collect();
                seq.push(hseq(&d));
                let mut d2 = d.clone();
                d2.sort();
                let mut s: Vec<KV> = w.sm[*m].drain().collect();
                s.sort();
                (format!("{:?}", d2), format!("{:?}", s))
            }
            COp::MEntry(m, k, v) => {
                let a = *w.dm[*m].entry(*k).or_insert(*v);
                let b = *w.sm[*m].entry(*k).or_insert(*v);
                (format!("{}", a), format!("{}", b))
            }
            COp::MGetMut(m, k, v) => {
                let a = w.dm[*m].get_mut(k).map(|x| {
                    let o = *x;
                    *x = *v;
                    o
                });
                let b = w.sm[*m].get_mut(k).map(|x| {
                    let o = *x;
                    *x = *v;
                    o
                });
                (format!("{:?}", a), format!("{:?}", b))
            }
            COp::MIterMut(m) => {
                let mut order = vec![];
                for (k, v) in &mut w.dm[*m] {
                    order.push(*k);
                    *v = v.wrapping_add(1);
                }
                seq.push(hseq(&order));
                for (_, v) in &mut w.sm[*m] {
                    *v = v.wrapping_add(1);
                }
                (String::new(), String::new())
            }
            COp::MSerde(m) => {
                let text = serde_json::to_string(&w.dm[*m]).unwrap();
                let back: DMap<u16, u32> = serde_json::from_str(&text).unwrap();
                let same = back == w.dm[*m];
                w.dm[*m] = back;
                (format!("{}", same), "true".into())
            }
            COp::MStdRoundTrip(m) => {
                let taken = std::mem::take(&mut w.dm[*m]);
                let std: SMap<u16, u32> = taken.into();
                w.dm[*m] = DMap::from(std);
                (String::new(), String::new())
            }
            COp::MIntoKeys(m) => {
                let taken = std::mem::take(&mut w.dm[*m]);
                let keys: Vec<u16> = taken.into_keys().collect();
                seq.push(hseq(&keys));
                let s = std::mem::take(&mut w.sm[*m]);
                (format!("{:?}", sorted_k(keys.iter())), format!("{:?}", sorted_k(s.keys())))
            }
            COp::MIntoValues(m) => {
                let taken = std::mem::take(&mut w.dm[*m]);
                let mut vals: Vec<u32> = taken.into_values().collect();
                seq.push(hseq(&vals));
                vals.sort();
                let s = std::mem::take(&mut w.sm[*m]);
                let mut sv: Vec<u32> = s.into_values().collect();
                sv.sort();
                (format!("{:?}", vals), format!("{:?}", sv))
            }
            COp::MIntoIter(m) => {
                let taken = std::mem::take(&mut w.dm[*m]);
                let mut kv: Vec<KV> = taken.into_iter().collect();
                seq.push(hseq(&kv));
                kv.sort();
                let s = std::mem::take(&mut w.sm[*m]);
                let mut skv: Vec<KV> = s.into_iter().collect();
                skv.sort();
                (format!("{:?}", kv), format!("{:?}", skv))
            }
            COp::MIndexGet(m, k) => {
                let a = if w.dm[*m].contains_key(k) { Some(w.dm[*m][k]) } else { None };
                let b = w.sm[*m].get(k).copied();
                (format!("{:?} {}", a, w.dm[*m].len()), format!("{:?} {}", b, w.sm[*m].len()))
            }
            COp::SNew(s) => {
                w.ds[*s] = DSet::new();
                w.ss[*s] = SSet::new();
                (String::new(), String::new())
            }
            COp::SWithCap(s, n) => {
                w.ds[*s] = DSet::with_capacity(*n);
                w.ss[*s] = SSet::with_capacity(*n);
                (format!("{}", w.ds[*s].capacity() >= *n), format!("{}", w.ss[*s].capacity() >= *n))
            }
            COp::SInsert(s, k) => (format!("{}", w.ds[*s].insert(*k)), format!("{}", w.ss[*s].insert(*k))),
            COp::SRemove(s, k) => (format!("{}", w.ds[*s].remove(k)), format!("{}", w.ss[*s].remove(k))),
            COp::SReserve(s, n) => {
                w.ds[*s].reserve(*n);
                w.ss[*s].reserve(*n);
                (String::new(), String::new())
            }
            COp::SShrink(s) => {
                w.ds[*s].shrink_to_fit();
                w.ss[*s].shrink_to_fit();
                (String::new(), String::new())
            }
            COp::SClear(s) => {
                w.ds[*s].clear();
                w.ss[*s].clear();
                (String::new(), String::new())
            }
            COp::SClone(d, s) => {
                let c = w.ds[*s].clone();
                w.ds[*d] = c;
                let c = w.ss[*s].clone();
                w.ss[*d] = c;
                (String::new(), String::new())
            }
            COp::SFromIter(s, v) => {
                w.ds[*s] = DSet::from_iter(v.iter().copied());
                w.ss[*s] = SSet::from_iter(v.iter().copied());
                (String::new(), String::new())
            }
            COp::SFromArr(s, a) => {
                w.ds[*s] = DSet::from(*a);
                w.ss[*s] = SSet::from(*a);
                (String::new(), String::new())
            }
            COp::SFromStd(s, v) => {
                let std: SSet<u16> = v.iter().copied().collect();
                w.ds[*s] = DSet::from(std.clone());
                w.ss[*s] = std;
                (String::new(), String::new())
            }
            COp::SExtend(s, v) => {
                w.ds[*s].extend(v.iter().copied());
                w.ss[*s].extend(v.iter().copied());
                (String::new(), String::new())
            }
            COp::SExtendRef(s, v) => {
                w.ds[*s].extend(v.iter());
                w.ss[*s].extend(v.iter());
                (String::new(), String::new())
            }
            COp::SRetain(s, md) => {
                w.ds[*s].retain(|k| *k % *md != 0);
                w.ss[*s].retain(|k| *k % *md != 0);
                (String::new(), String::new())
            }
            COp::SDrain(s) => {
                let d: Vec<u16> = w.ds[*s].drain().collect();
                seq.push(hseq(&d));
                let mut d2 = d.clone();
                d2.sort();
                let mut sd: Vec<u16> = w.ss[*s].drain().collect();
                sd.sort();
                (format!("{:?}", d2), format!("{:?}", sd))
            }
            COp::SBitOr(d, a, b) => {
                let r = &w.ds[*a] | &w.ds[*b];
                w.ds[*d] = r;
                let r = &w.ss[*a] | &w.ss[*b];
                w.ss[*d] = r;
                (String::new(), String::new())
            }
            COp::SBitAnd(d, a, b) => {
                let r = &w.ds[*a] & &w.ds[*b];
                w.ds[*d] = r;
                let r = &w.ss[*a] & &w.ss[*b];
                w.ss[*d] = r;
                (String::new(), String::new())
            }
            COp::SBitXor(d, a, b) => {
                let r = &w.ds[*a] ^ &w.ds[*b];
                w.ds[*d] = r;
                let r = &w.ss[*a] ^ &w.ss[*b];
                w.ss[*d] = r;
                (String::new(), String::new())
            }
            COp::SSub(d, a, b) => {
                let r = &w.ds[*a] - &w.ds[*b];
                w.ds[*d] = r;
                let r = &w.ss[*a] - &w.ss[*b];
                w.ss[*d] = r;
                (String::new(), String::new())
            }
            COp::SUnionIter(a, b) => {
                let v: Vec<u16> = w.ds[*a].union(&w.ds[*b]).copied().collect();
                seq.push(hseq(&v));
                (format!("{:?}", sorted_k(v.iter())), format!("{:?}", sorted_k(w.ss[*a].union(&w.ss[*b]))))
            }
            COp::SInterIter(a, b) => {
                let v: Vec<u16> = w.ds[*a].intersection(&w.ds[*b]).copied().collect();
                seq.push(hseq(&v));
                (format!("{:?}", sorted_k(v.iter())), format!("{:?}", sorted_k(w.ss[*a].intersection(&w.ss[*b]))))
            }
            COp::SDiffIter(a, b) => {
                let v: Vec<u16> = w.ds[*a].difference(&w.ds[*b]).copied().collect();
                seq.push(hseq(&v));
                (format!("{:?}", sorted_k(v.iter())), format!("{:?}", sorted_k(w.ss[*a].difference(&w.ss[*b]))))
            }
            COp::SSymIter(a, b) => {
                let v: Vec<u16> = w.ds[*a].symmetric_difference(&w.ds[*b]).copied().collect();
                seq.push(hseq(&v));
                (format!("{:?}", sorted_k(v.iter())), format!("{:?}", sorted_k(w.ss[*a].symmetric_difference(&w.ss[*b]))))
            }
            COp::SSerde(s) => {
                let text = serde_json::to_string(&w.ds[*s]).unwrap();
                let back: DSet<u16> = serde_json::from_str(&text).unwrap();
                let same = back == w.ds[*s];
                w.ds[*s] = back;
                (format!("{}", same), "true".into())
            }
            COp::SStdRoundTrip(s) => {
                let taken = std::mem::take(&mut w.ds[*s]);
                let std: SSet<u16> = taken.into();
                w.ds[*s] = DSet::from(std);
                (String::new(), String::new())
            }
            COp::SIntoIter(s) => {
                let taken = std::mem::take(&mut w.ds[*s]);
                let mut v: Vec<u16> = taken.into_iter().collect();
                seq.push(hseq(&v));
                v.sort();
                let st = std::mem::take(&mut w.ss[*s]);
                let mut sv: Vec<u16> = st.into_iter().collect();
                sv.sort();
                (format!("{:?}", v), format!("{:?}", sv))
            }
            COp::SRelations(a, b) => (
                format!("{} {} {} {}", w.ds[*a].is_subset(&w.ds[*b]), w.ds[*a].is_disjoint(&w.ds[*b]), w.ds[*a] == w.ds[*b], w.ds[*a].len()),
                format!("{} {} {} {}", w.ss[*a].is_subset(&w.ss[*b]), w.ss[*a].is_disjoint(&w.ss[*b]), w.ss[*a] == w.ss[*b], w.ss[*a].len()),
            ),
        };
        let mut problem = None;
        if rd != rs {
            problem = Some(format!("result {:?} but std gives {:?}", rd, rs));
        }
        let mut hashes = Vec::with_capacity(NMAPS + NSETS);
        for m in 0..NMAPS {
            let order: Vec<KV> = w.dm[m].iter().map(|(k, v)| (*k, *v)).collect();
            hashes.push(hseq(&order));
            if problem.is_none() {
                let a = sorted_kv(w.dm[m].iter());
                let b = sorted_kv(w.sm[m].iter());
                if a != b || w.dm[m].len() != w.sm[m].len() {
                    problem = Some(format!("map {} contents {:?} but std has {:?}", m, a, b));
                }
            }
        }
        for s in 0..NSETS {
            let order: Vec<u16> = w.ds[s].iter().copied().collect();
            hashes.push(hseq(&order));
            if problem.is_none() {
                let a = sorted_k(w.ds[s].iter());
                let b = sorted_k(w.ss[s].iter());
                if a != b || w.ds[s].len() != w.ss[s].len() {
                    problem = Some(format!("set {} contents {:?} but std has {:?}", s, a, b));
                }
            }
        }
        outs.push(OpOut { hashes, seq: hseq(&seq), result: rd, problem });
    }
    outs
}

/// Run the histories inside one Shuttle execution (a spawned thread does half of them).
pub fn run_histories_in_shuttle(hs: &[History], seed: u64) -> Vec<Vec<OpOut>> {
    use std::sync::{Arc, Mutex};
    let out: Arc<Mutex<Vec<Vec<OpOut>>>> = Arc::new(Mutex::new(vec![]));
    let hs2: Arc<Vec<History>> = Arc::new(hs.to_vec());
    let o2 = out.clone();
    let cfg = crate::sim::SimCfg::new(seed);
    let (_ending, _rt) = crate::sim::run_recorded(crate::sim::SimSched::new(cfg), crate::sim::quiet_config(), move || {
        let hs3 = hs2.clone();
        let half = hs3.len() / 2;
        let t = shuttle::thread::spawn(move || (half..hs3.len()).map(|i| run_history(&hs3[i])).collect::<Vec<_>>());
        let mut first: Vec<Vec<OpOut>> = (0..half).map(|i| run_history(&hs2[i])).collect();
        first.extend(t.join().unwrap());
        *o2.lock().unwrap() = first;
    });
    let r = out.lock().unwrap().clone();
    r
}

fn fnd(key: String, detail: String) -> Finding {
    Finding { key: format!("C20:coll:{}", key), detail }
}

/// (a) findings: disagreement with std
pub fn contents_findings(h: &History, a: &[OpOut]) -> Vec<Finding> {
    let mut v = vec![];
    for (i, o) in a.iter().enumerate() {
        if let Some(p) = &o.problem {
            v.push(fnd(format!("differs-from-std:{}", h.ops[i].name()), format!("op {} {:?}: {}", i, h.ops[i], p)));
            break;
        }
    }
    v
}

/// (b) findings: compare the iteration-order records of two runs of the same history.
/// `scope` is "between-instances" (also used for inside vs outside a Shuttle execution) or "across-processes".
pub fn order_findings(h: &History, a: &[OpOut], b: &[OpOut], scope: &str) -> Vec<Finding> {
    let nc = NMAPS + NSETS;
    let mut out = vec![];
    if a.len() != b.len() {
        out.push(fnd("harness-length-mismatch".into(), format!("{} vs {}", a.len(), b.len())));
        return out;
    }
    let mut ctor: Vec<&'static str> = vec!["new"; nc];
    let mut tainted = vec![false; nc];
    let mut reported = std::collections::BTreeSet::new();
    for i in 0..a.len() {
        let op = &h.ops[i];
        let (dst, srcs, constructs) = op.flow();
        let before = tainted.clone();
        let old_ctor = ctor.clone();
        let src_tainted = srcs.iter().any(|s| before[*s]);
        if let Some(d) = dst {
            if constructs {
                // clone copies the hasher of its source; every other constructor makes its own
                ctor[d] = match op {
                    COp::MClone(_, s) => old_ctor[*s],
                    COp::SClone(_, s) => old_ctor[NMAPS + *s],
                    _ => op.name(),
                };
            }
        }
        // order-sensitive sequences produced by the operation itself (drain, into_iter, union, ...)
        if a[i].seq != b[i].seq && !src_tainted {
            let mut distinct = srcs.clone();
            distinct.dedup();
            let name = if distinct.len() == 1 { old_ctor[distinct[0]] } else { op.name() };
            if reported.insert(name) {
                out.push(fnd(
                    format!("iteration-order-differs-{}:{}", scope, name),
                    format!("op {} {:?}: the sequence produced by the operation differs {} although its inputs iterated identically so far (input containers constructed by {:?})", i, op, scope, srcs.iter().map(|s| old_ctor[*s]).collect::<Vec<_>>()),
                ));
            }
        }
        for c in 0..nc {
            let differs = a[i].hashes[c] != b[i].hashes[c];
            if differs && !before[c] {
                // this container differs for the first time: report unless it was computed from a
                // container that already differed (propagation)
                let propagated = dst == Some(c) && srcs.iter().any(|s| *s != c && before[*s]);
                if !propagated {
                    let name = ctor[c];
                    if reported.insert(name) {
                        out.push(fnd(
                            format!("iteration-order-differs-{}:{}", scope, name),
                            format!("after op {} {:?}: the iteration order of container {} differs {} although the operation history is the same; the container was constructed by `{}`", i, op, c, scope, name),
                        ));
                    }
                }
            }
            tainted[c] = differs;
        }
    }
    out
}

// ---------------------------------------------------------------------------------------------
// Child process protocol
// ---------------------------------------------------------------------------------------------

pub fn histories_for(seed: u64, n: usize) -> Vec<History> {
    (0..n).map(|i| gen_history(&mut Rng::new(crate::sim::derive(seed, "c20coll-history", i as u64)))).collect()
}

fn print_outs(tag: &str, all: &[Vec<OpOut>]) {
    for (hi, outs) in all.iter().enumerate() {
        for (i, o) in outs.iter().enumerate() {
            let hs: Vec<String> = o.hashes.iter().map(|h| format!("{:x}", h)).collect();
            println!("{} {} {} {} {:x}", tag, hi, i, hs.join(","), o.seq);
        }
    }
}

/// `vcheck --child c20coll <seed> <n>`: print the iteration-order record of n histories, computed
/// outside ("O") and inside ("I") a Shuttle execution.
pub fn child(args: &[String]) -> i32 {
    let seed: u64 = match args.first().and_then(|s| s.parse().ok()) {
        Some(s) => s,
        None => return 2,
    };
    let n: usize = args.get(1).and_then(|s| s.parse().ok()).unwrap_or(1);
    let hs = histories_for(seed, n);
    let outside: Vec<Vec<OpOut>> = hs.iter().map(run_history).collect();
    print_outs("O", &outside);
    let inside = run_histories_in_shuttle(&hs, seed);
    print_outs("I", &inside);
    println!("END");
    0
}

/// Parse the child's output back into (outside, inside) records (result/problem fields empty).
pub fn parse_child(text: &str, hs: &[History]) -> Option<(Vec<Vec<OpOut>>, Vec<Vec<OpOut>>)> {
    let mut o: Vec<Vec<OpOut>> = hs.iter().map(|_| vec![]).collect();
    let mut i: Vec<Vec<OpOut>> = hs.iter().map(|_| vec![]).collect();
    let mut ended = false;
    for line in text.lines() {
        if line == "END" {
            ended = true;
            continue;
        }
        let p: Vec<&str> = line.split(' ').collect();
        if p.len() != 5 {
            continue;
        }
        let hi: usize = p[1].parse().ok()?;
        let hashes: Vec<u64> = p[3].split(',').map(|x| u64::from_str_radix(x, 16).ok()).collect::<Option<Vec<_>>>()?;
        let seq = u64::from_str_radix(p[4], 16).ok()?;
        let rec = OpOut { hashes, seq, result: String::new(), problem: None };
        match p[0] {
            "O" => o.get_mut(hi)?.push(rec),
            "I" => i.get_mut(hi)?.push(rec),
            _ => {}
        }
    }
    if !ended {
        return None;
    }
    Some((o, i))
}

pub fn spawn_child(seed: u64, n: usize) -> Result<String, String> {
    let exe = std::env::current_exe().map_err(|e| e.to_string())?;
    let mut cmd = std::process::Command::new(exe);
    cmd.arg("--child").arg("c20coll").arg(seed.to_string()).arg(n.to_string()).stdin(std::process::Stdio::null()).stderr(std::process::Stdio::null());
    crate::coord::scrub_env(&mut cmd);
    let out = cmd.output().map_err(|e| e.to_string())?;
    if !out.status.success() {
        return Err(format!("child exited with {:?}", out.status));
    }
    String::from_utf8(out.stdout).map_err(|e| e.to_string())
}
