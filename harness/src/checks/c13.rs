//! C13 — step, iteration and time bounds are enforced as configured.
use super::common::*;
use super::c01::{build, SchedKind};
use crate::coord::{Batch, Check, RunOut, Tier};
use crate::model::op_for_label;
use crate::prog::{gen_program, run_program, take_monitor_violations, GenCfg, Op, Program};
use crate::sim::{hash_debug, quiet_config, run_recorded, Ending, ExecTrace, Item, Rng, SimCfg};
use serde::{Deserialize, Serialize};
use serde_json::{json, Value};
use std::sync::Arc;

pub fn check() -> Check {
    Check {
        id: "C13",
        level: "exploration",
        rule: "steps: a seeded program (all families, shuttle::rand draws, reset_step_count at drawn points) is first run unbounded under a seeded SimSched to learn its step profile, then with FailAfter(n) / ContinueAfter(n) for n drawn from [L-3, L+3] and {1,2} and 1-3 executions; the recorder counts decisions+draws since the last reset: never more than n; fewer than n needed => identical to the unbounded run; more than n needed => max-steps failure naming n (FailAfter) or silent abandonment with the run going on (ContinueAfter); Runner::run returns the number of executions started. iterations: every built-in scheduler with an iteration budget 0..20 (and a large / zero / certainly-exceeded max_time) invokes the body exactly budget times. Distinct = (program, n, mode, chosen sequence); non-trivial = bound within 3 of the program's length",
        assumptions: &["max_time reads the real clock, which the simulator does not own: only facts that do not depend on how fast the clock runs are asserted (a large limit changes nothing; a zero limit never increases the count; when the first iteration provably outlasts a 2 ms limit - it spins until 3 ms have passed - no second iteration starts)", "at exactly n needed steps either outcome is accepted (the property speaks of 'more than' and 'fewer than')"],
        real_components: "real: shuttle-engine runtime (ExecutionState::schedule step-bound logic, Runner loop), all built-in schedulers; stub: none",
        batches: |t: Tier| vec![Batch::new("steps", t.pick(12000, 250000), 300), Batch::new("iterations", t.pick(1500, 20000), 100)],
        run,
        replay,
        probes: &["bound_hit_at_L-1", "bound_hit_at_L", "bound_hit_at_L+1", "fail_after_failed", "continue_after_abandoned", "unaffected_identical", "reset_used", "cut_while_holding_guard", "draw_last_before_bound"],
    }
}

#[derive(Clone, Debug, Serialize, Deserialize)]
struct Case {
    prog: Program,
    sim: SimCfg,
    fail: bool,
    n: usize,
    execs: u32,
}

/// (schedule length - reset point) profile of an execution, reconstructed from the recorder:
/// returns for every scheduler consultation the steps used since the last reset *before* it,
/// the maximum reached at any time, and whether the maximum was reached by a draw.
struct Profile {
    before_decision: Vec<usize>,
    max_used: usize,
    max_by_draw: bool,
    final_used: usize,
    resets: usize,
}

fn profile(p: &Program, ex: &ExecTrace) -> Profile {
    let bm = super::families::body_map(p, ex);
    // walk decisions and events in order. Events of step s happen after s answered decisions.
    let mut len = 0usize;
    let mut reset_at = 0usize;
    let mut before = vec![];
    let mut max_used = 0usize;
    let mut max_by_draw = false;
    let mut resets = 0;
    let answered: Vec<bool> = ex.decisions().map(|d| d.chosen.is_some()).collect();
    let mut ev_i = 0;
    for (k, a) in answered.iter().enumerate() {
        // events of step k (after k answered decisions) come before decision k
        while ev_i < ex.events.len() && (ex.events[ev_i].step as usize) <= k {
            let e = &ex.events[ev_i];
            ev_i += 1;
            if e.kind != "E" {
                continue;
            }
            if let Some(b) = bm.get(&e.task) {
                match op_for_label(p, *b, &e.op) {
                    Some((Op::Rand(_), _)) => {
                        len += 1;
                        if len - reset_at > max_used {
                            max_used = len - reset_at;
                            max_by_draw = true;
                        }
                    }
                    Some((Op::ResetSteps, _)) => {
                        reset_at = len;
                        resets += 1;
                    }
                    _ => {}
                }
            }
        }
        before.push(len - reset_at);
        if *a {
            len += 1;
            if len - reset_at > max_used {
                max_used = len - reset_at;
                max_by_draw = false;
            }
        }
    }
    while ev_i < ex.events.len() {
        let e = &ex.events[ev_i];
        ev_i += 1;
        if e.kind != "E" {
            continue;
        }
        if let Some(b) = bm.get(&e.task) {
            match op_for_label(p, *b, &e.op) {
                Some((Op::Rand(_), _)) => {
                    len += 1;
                    if len - reset_at > max_used {
                        max_used = len - reset_at;
                        max_by_draw = true;
                    }
                }
                Some((Op::ResetSteps, _)) => {
                    reset_at = len;
                    resets += 1;
                }
                _ => {}
            }
        }
    }
    Profile { before_decision: before, max_used, max_by_draw, final_used: len - reset_at, resets }
}

fn gen_case(rng: &mut Rng) -> Option<(Case, ExecTrace, Ending)> {
    let mut cfg = GenCfg::swarm(rng);
    cfg.rand = rng.chance(1, 2);
    cfg.reset = rng.chance(1, 3);
    cfg.tls = false;
    let prog = gen_program(rng, &cfg);
    let mut sim = SimCfg::new(rng.next_u64());
    sim.policy = random_policy(rng);
    sim.execs = 1;
    sim.spurious = false;
    let base = run_case(&ProgCase { prog: prog.clone(), sim: sim.clone(), max_steps: None });
    let ex = base.rt.execs.first()?.clone();
    let l = ex.recorded.as_ref().map(|r| r.1.len()).unwrap_or(0);
    let n = match rng.below(8) {
        0 => 1,
        1 => 2,
        _ => (l as i64 + rng.range(0, 6) as i64 - 3).max(1) as usize,
    };
    let case = Case { prog, sim, fail: rng.chance(1, 2), n, execs: rng.range(1, 3) as u32 };
    Some((case, ex, base.ending))
}

fn check_case(case: &Case, base: &ExecTrace, base_end: &Ending, out: &mut RunOut) {
    let cj = json!({"c13": case});
    let mut sim = case.sim.clone();
    sim.execs = case.execs;
    let pc = ProgCase { prog: case.prog.clone(), sim, max_steps: Some((case.fail, case.n)) };
    let run = run_case(&pc);
    out.evals += run.rt.execs.len() as u64 + 1;
    let n = case.n;
    let bp = profile(&case.prog, base);
    let l = base.recorded.as_ref().map(|r| r.1.len()).unwrap_or(0);
    if n + 1 == l {
        out.count("bound_hit_at_L-1", 1);
    } else if n == l {
        out.count("bound_hit_at_L", 1);
    } else if n == l + 1 {
        out.count("bound_hit_at_L+1", 1);
    }
    if bp.resets > 0 {
        out.count("reset_used", 1);
    }
    // (1) invariant on every execution of the bounded run
    for (i, ex) in run.rt.execs.iter().enumerate() {
        out.decisions += ex.decisions().count() as u64;
        let p = profile(&case.prog, ex);
        if p.max_used > n {
            if p.max_by_draw && p.before_decision.iter().all(|b| *b < n) {
                out.violation(
                    "C13:known:F8:bound-exceeded-by-random-draws",
                    format!("exec {}: {} steps since the last reset under a bound of {} (the excess are random draws after the last permitted decision)", i, p.max_used, n),
                    cj.clone(),
                );
            } else {
                out.violation(
                    "C13:bound-exceeded",
                    format!("exec {}: {} steps (decisions + draws) since the last reset under a bound of {}", i, p.max_used, n),
                    cj.clone(),
                );
            }
        }
        if p.before_decision.iter().any(|b| *b >= n) {
            out.violation("C13:decision-after-bound", format!("exec {}: a scheduling decision was made with {:?} steps already used (bound {})", i, p.before_decision.iter().max(), n), cj.clone());
        }
        if ex.switches() > 0 {
            out.distinct.push(hash_debug(&(&case.prog, n, case.fail, ex.chosen_seq())));
        }
    }
    // (2) the first execution against the unbounded one (same scheduler seed => same choices)
    let first = match run.rt.execs.first() {
        Some(f) => f,
        None => return,
    };
    let total_needed = bp.final_used.max(bp.max_used);
    // the unbounded execution needs a scheduling decision after n steps since the last reset
    // (an overshoot caused only by random draws is known finding F8, reported by the invariant above)
    let cut_needed = bp.before_decision.iter().any(|b| *b >= n);
    let surely_unaffected = bp.max_used < n && bp.before_decision.iter().all(|b| *b < n) && bp.final_used < n;
    let first_is_last = run.rt.execs.len() == 1;
    let first_end: Option<&str> = match &run.ending {
        Ending::Panicked(m) if first_is_last => Some(m.as_str()),
        _ => None,
    };
    let base_msg: Option<&str> = match base_end {
        Ending::Panicked(m) => Some(m.as_str()),
        _ => None,
    };
    let bound_msg = format!("exceeded max_steps bound {}", n);
    if surely_unaffected {
        if first.items != base.items || first.events.iter().filter(|e| e.task != u32::MAX).ne(base.events.iter().filter(|e| e.task != u32::MAX)) {
            out.violation("C13:unaffected-execution-differs", format!("the program needs {} < {} steps but its bounded execution differs from the unbounded one", total_needed, n), cj.clone());
        } else if first_end.map(|m| m.starts_with(&bound_msg)).unwrap_or(false) {
            out.violation("C13:failed-below-bound", format!("needs {} < {} steps but failed with the max-steps message", total_needed, n), cj.clone());
        } else if first_is_last && first_end != base_msg && !(first_end.is_none() && base_msg.is_none()) {
            out.violation("C13:unaffected-ending-differs", format!("bounded ending {:?} vs unbounded {:?}", first_end, base_msg), cj.clone());
        } else {
            out.count("unaffected_identical", 1);
        }
    } else if cut_needed {
        // prefix property
        let k = first.items.len().min(base.items.len());
        let same_prefix = first.items[..k.saturating_sub(1)] == base.items[..k.saturating_sub(1)];
        if !same_prefix {
            out.violation("C13:cut-execution-not-a-prefix", "the bounded execution diverges from the unbounded one before the cut".to_string(), cj.clone());
        }
        if case.fail {
            match first_end {
                Some(m) if m.starts_with(&bound_msg) => out.count("fail_after_failed", 1),
                other => out.violation("C13:fail-after-did-not-fail", format!("needs {} > {} steps under FailAfter but the run ended {:?} / {:?}", bp.max_used, n, other, run.ending), cj.clone()),
            }
            if run.rt.execs.len() != 1 {
                out.violation("C13:run-continued-after-failure", format!("{} executions although the first failed", run.rt.execs.len()), cj.clone());
            }
        } else {
            if first_end.map(|m| m.starts_with("exceeded max_steps")).unwrap_or(false) {
                out.violation("C13:continue-after-failed", format!("ContinueAfter({}) failed the run: {:?}", n, first_end), cj.clone());
            } else {
                out.count("continue_after_abandoned", 1);
                // was a guard held at the cut? (reach probe)
                let holds = first.events.iter().filter(|e| e.kind == "E" && e.val.starts_with("ok:")).count() > first.events.iter().filter(|e| e.kind == "E" && e.val == "ok").count();
                if holds {
                    out.count("cut_while_holding_guard", 1);
                }
            }
        }
    }
    if bp.max_by_draw {
        out.count("draw_last_before_bound", 1);
    }
    // (3) Runner::run returns the number of executions started; ContinueAfter never fails by itself
    match &run.ending {
        Ending::Returned(c) => {
            if *c != run.rt.execs.len() || *c != case.execs as usize {
                out.violation("C13:run-count", format!("Runner::run returned {} with {} executions started and a budget of {}", c, run.rt.execs.len(), case.execs), cj.clone());
            }
        }
        Ending::Panicked(m) => {
            if !case.fail && m.starts_with("exceeded max_steps") {
                out.violation("C13:continue-after-failed", m.clone(), cj.clone());
            }
            if let Some(cls) = unexpected_panic_class(m, first) {
                if !(case.fail && m.starts_with(&bound_msg)) {
                    out.violation(format!("C13:unexpected-panic:{}", cls), m.clone(), cj.clone());
                }
            }
        }
    }
    if out.sample.is_none() {
        out.sample = Some(json!({"program": case.prog, "mode": if case.fail { "FailAfter" } else { "ContinueAfter" }, "n": n, "unbounded_length": l, "executions": case.execs, "ending": format!("{:?}", run.ending)}));
    }
}

fn run_iterations(seed: u64, out: &mut RunOut) {
    let mut rng = Rng::new(seed);
    let mut cfg = GenCfg::none();
    cfg.atomic = true;
    cfg.yields = true;
    cfg.rand = rng.chance(1, 2);
    cfg.max_bodies = 3;
    cfg.max_ops = 3;
    cfg.join_prob = 8;
    let prog = Arc::new(gen_program(&mut rng, &cfg));
    let b = rng.below(21);
    let kind = match rng.below(5) {
        0 => SchedKind::Random(rng.next_u64(), b),
        1 => SchedKind::Pct(rng.next_u64(), rng.range(1, 3), b),
        2 => SchedKind::Urw(rng.next_u64(), b),
        3 => SchedKind::Dfs(b),
        _ => SchedKind::RoundRobin(b),
    };
    let mut c = quiet_config();
    let time_mode = rng.below(4);
    c.max_time = match time_mode {
        0 => None,
        1 => Some(std::time::Duration::from_secs(3600)),
        2 => Some(std::time::Duration::from_secs(0)),
        // the limit certainly elapses during the first iteration (see below)
        _ => Some(std::time::Duration::from_millis(2)),
    };
    let p2 = prog.clone();
    let _ = take_monitor_violations();
    // time_mode 3: the first iteration does not return before 3 ms of real time have passed since
    // it started (hence > 2 ms since the run started). The real clock is not owned by the
    // simulator, but the verdict only depends on a LOWER bound of the elapsed time, so it is the
    // same on every machine and under every load: no second iteration may start.
    let first_started: Arc<std::sync::Mutex<Option<std::time::Instant>>> = Arc::new(std::sync::Mutex::new(None));
    let (ending, rt) = run_recorded(build(&kind), c, move || {
        if time_mode == 3 {
            let mut g = first_started.lock().unwrap();
            if g.is_none() {
                let t1 = std::time::Instant::now();
                *g = Some(t1);
                while t1.elapsed() < std::time::Duration::from_millis(3) {
                    std::hint::spin_loop();
                }
            }
        }
        run_program(&p2)
    });
    let _ = take_monitor_violations();
    out.evals += rt.execs.len() as u64;
    let cj = json!({"iter_seed": seed});
    out.count(&format!("iterations_time_mode_{}", time_mode), 1);
    match ending {
        Ending::Returned(n) => {
            if n != rt.execs.len() {
                out.violation("C13:run-count", format!("{:?}: returned {} but {} executions ran", kind, n, rt.execs.len()), cj.clone());
            }
            let is_dfs = matches!(kind, SchedKind::Dfs(_));
            if time_mode == 3 {
                if n > 1 {
                    out.violation("C13:iteration-started-after-the-time-limit", format!("{:?}: budget {}, max_time 2 ms, the first iteration took >= 3 ms, yet the body ran {} times", kind, b, n), cj.clone());
                }
                if n == 0 && b > 0 {
                    out.violation("C13:iteration-budget", format!("{:?}: budget {} and a 2 ms time limit, but the body never ran", kind, b), cj.clone());
                }
            } else if time_mode != 2 {
                if (!is_dfs && n != b) || (is_dfs && (n > b || (b > 0 && n == 0))) {
                    out.violation("C13:iteration-budget", format!("{:?}: budget {} but the body ran {} times", kind, b, n), cj.clone());
                }
            } else if n > b {
                out.violation("C13:iteration-budget", format!("{:?}: budget {} but the body ran {} times (zero time limit)", kind, b, n), cj.clone());
            }
            out.distinct.push(hash_debug(&(&*prog, format!("{:?}", kind), n)));
            if rt.calls_after_end > 0 {
                out.violation("C13:new-execution-after-end", format!("new_execution called {} times after returning None", rt.calls_after_end), cj.clone());
            }
        }
        Ending::Panicked(m) => {
            if !m.contains("did not exercise any concurrency") {
                out.violation(format!("C13:unexpected-panic:{}", m.chars().take(30).collect::<String>()), m, cj.clone());
            }
        }
    }
    if out.sample.is_none() {
        out.sample = Some(json!({"scheduler": format!("{:?}", kind), "budget": b, "max_time_mode": time_mode, "executions": rt.execs.len()}));
    }
}

fn run(batch: &str, _idx: u64, seed: u64, _tier: Tier) -> RunOut {
    let mut out = RunOut::default();
    if batch == "iterations" {
        run_iterations(seed, &mut out);
        return out;
    }
    let mut rng = Rng::new(seed);
    if let Some((case, base, base_end)) = gen_case(&mut rng) {
        check_case(&case, &base, &base_end, &mut out);
    }
    out
}

fn replay(case: &Value) -> RunOut {
    let mut out = RunOut::default();
    if let Some(s) = case.get("iter_seed").and_then(|s| s.as_u64()) {
        run_iterations(s, &mut out);
        return out;
    }
    if let Some(c) = case.get("c13").and_then(|c| serde_json::from_value::<Case>(c.clone()).ok()) {
        let base = run_case(&ProgCase { prog: c.prog.clone(), sim: SimCfg { execs: 1, ..c.sim.clone() }, max_steps: None });
        if let Some(ex) = base.rt.execs.first() {
            check_case(&c, ex, &base.ending, &mut out);
        }
    }
    let _ = Item::R(0);
    out
}
