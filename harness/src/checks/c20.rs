//! C20 — the parking_lot / dashmap / deterministic collections / rand / lazy_static replacements
//! keep their contracts. Four families, run as separate batches of the one check `C20`:
//!   pl     lock_api RwLock / Mutex programs under SimSched (c20_pl.rs)
//!   dash   DashMap / DashSet linearizability (c20_dash.rs)
//!   coll   deterministic HashMap / HashSet: std equivalence + iteration order, in process (c20_coll.rs)
//!   collx  the same histories in >= 3 child processes (iteration order across processes)
//!   rand   rand / lazy_static under Shuttle's control (c20_rand.rs)
//!   known  pinned witnesses of the known findings F11 / F12 (generator exclusions switched off)

use super::common::Finding;
use super::{c20_coll as coll, c20_dash as dash, c20_pl as pl, c20_rand as rnd};
use crate::coord::{Batch, Check, RunOut, Tier};
use crate::sim::{derive, hash_debug, Ending, Rng, SimCfg};
use serde_json::{json, Value};
use std::collections::BTreeSet;

pub fn check() -> Check {
    Check {
        id: "C20",
        level: "exploration",
        rule: "pl: each run draws a program (2-4 threads, 1-5 operations each, 1-2 parking_lot RwLocks and 0-1 Mutex; read/write/upgradable_read, upgrade, try_upgrade, the three downgrades, try variants, unlock, unlock_fair, is_locked) and a SimSched policy+seed; the real raw locks run it and the lock_api state model is checked in lockstep on every completion, plus holder monitors, never-blocking checks for unlock/downgrade/try and the deadlock verdict. dash: programs over 1-2 DashMaps (<=3 keys) and a DashSet from 2-3 threads with guards held across operations; results must equal a plain map applied in completion order and guards must exclude conflicting operations. coll: operation histories (4-28 operations over 2 maps and 3 sets) against std collections; iteration sequences after every operation equal between two instance sets, inside a Shuttle execution and (collx) in 3 child processes. rand: bodies drawing through shuttle::rand and the shuttle-rand wrapper types and touching lazy statics, 3-5 executions, each replayed through ReplayScheduler; lazy values re-initialised and dropped per execution. Distinct = (program or history, chosen task sequence) hash; non-trivial = at least one task switch / one multi-element container",
        assumptions: &[
            "lock_api semantics as documented: a try-variant may fail while another task is operating on the same lock (strictly fair raw locks); it must not fail on a lock nobody holds, waits for or operates on",
            "every DashMap operation holds the single map lock until the step that logs its End, so End order is the linear order",
            "same-thread try_get while holding a Ref may answer Locked (Shuttle's RwLock refuses re-entrant reads) or Present",
            "known findings F11 (upgrade overtaken by a queued writer) and F12 (downgrade_to_upgradable waits for the upgradable slot) are excluded from the generated programs by the two narrow rules in c20_pl.rs (f11_possible / f12_possible) and exercised by the pinned witnesses of batch `known`",
        ],
        real_components: "real: shuttle-parking_lot-impl raw locks + lock_api guards, shuttle-dashmap-impl, deterministic_collections, shuttle::rand, shuttle-rand_0_8-inner wrapper types, shuttle::lazy_static (direct and through shuttle-lazy_static-impl), shuttle-engine runtime, ReplayScheduler; model: lock_api / plain-map reference models used only as oracles; stub: none",
        batches,
        run,
        replay,
        probes: &[
            "pl_upgrade_completed",
            "pl_upgrade_waited",
            "pl_try_upgrade_succeeded",
            "pl_downgrade_write_to_read",
            "pl_downgrade_upgradable_to_read",
            "pl_downgrade_write_to_upgradable",
            "pl_try_failed_excluded",
            "pl_try_failed_with_waiters",
            "pl_shared_with_other_readers",
            "pl_deadlock_explained_by_model",
            "pl_unlock_fair",
            "pl_mutex_acquired",
            "dash_read_guard_held",
            "dash_write_guard_held",
            "dash_try_locked_by_guard",
            "dash_operation_waited",
            "dash_deadlock_explained_by_model",
            "coll_histories",
            "coll_set_operator_results_iterated",
            "coll_child_processes",
            "coll_inside_shuttle_compared",
            "rand_executions_replayed_identically",
            "rand_lazy_dropped_at_end_of_execution",
            "rand_draw_inside_lazy_initialiser",
            "rand_runs_with_3+_executions",
            "known_witness_runs",
        ],
    }
}

fn batches(t: Tier) -> Vec<Batch> {
    vec![
        Batch::new("pl", t.pick(20000, 600000), 500),
        Batch::new("dash", t.pick(14000, 350000), 500),
        Batch::new("coll", t.pick(4000, 100000), 250),
        Batch::new("collx", t.pick(24, 600), 2),
        Batch::new("rand", t.pick(4000, 100000), 250),
        Batch::new("known", 2, 1),
    ]
}

fn add_findings(out: &mut RunOut, findings: Vec<Finding>, mut case_for: impl FnMut(&str) -> (Value, String)) {
    let mut seen = BTreeSet::new();
    for f in findings {
        if !seen.insert(f.key.clone()) {
            continue;
        }
        let (case, extra) = case_for(&f.key);
        // `extra` starts with the finding as re-observed on the (shrunk) case when there is one
        if let Some(rest) = extra.strip_prefix("@@") {
            out.violation(f.key.clone(), rest.to_string(), case);
        } else {
            out.violation(f.key.clone(), format!("{} || {}", f.detail, extra), case);
        }
    }
}

// ------------------------------------------------------------------------------------------ pl

fn count_pl(out: &mut RunOut, r: &pl::PlRun, case: &pl::PlCase) {
    out.evals += r.rt.execs.len() as u64;
    for ex in &r.rt.execs {
        out.decisions += ex.decisions().count() as u64;
        if ex.switches() > 0 {
            out.distinct.push(hash_debug(&(&case.prog, ex.chosen_seq())));
        }
    }
    for s in &r.stats {
        for (k, v) in &s.probes {
            out.count(&format!("pl_{}", k), *v);
        }
    }
    match &r.ending {
        Ending::Panicked(m) if m.starts_with("deadlock!") => out.count("pl_ending_deadlock", 1),
        Ending::Panicked(_) => out.count("pl_ending_other_panic", 1),
        Ending::Returned(_) => out.count("pl_ending_pass", 1),
    }
}

fn run_pl_case(case: &pl::PlCase, out: &mut RunOut, do_shrink: bool) {
    let r = pl::process_case(case);
    count_pl(out, &r, case);
    if out.sample.is_none() && r.rt.execs.first().map(|e| e.switches() > 2).unwrap_or(false) {
        out.sample = Some(json!({"family": "pl", "program": case.prog, "chosen": r.rt.execs[0].chosen_seq(), "ending": format!("{:?}", r.ending)}));
    }
    let findings = r.findings.clone();
    add_findings(out, findings, |key| {
        let c = if do_shrink { pl::shrink(case, key, 400) } else { case.clone() };
        let rr = pl::process_case(&c);
        match rr.findings.iter().find(|f| f.key == key) {
            Some(f) => (json!({"pl": c}), format!("@@{} || {}", f.detail, pl::describe(&c, &rr))),
            None => (json!({"pl": case}), pl::describe(case, &pl::process_case(case))),
        }
    });
}

/// The pinned witness programs of the known findings.
fn known_witness(idx: u64) -> (pl::PlProg, &'static str, Vec<u32>) {
    use pl::PlOp::*;
    match idx {
        0 => (
            // F11: T1's write is queued behind T0's upgradable read; upgrade() gives the read permit
            // back and queues behind T1, which then writes between the upgradable read and the upgrade
            pl::PlProg { rwlocks: 1, mutexes: 0, bodies: vec![vec![UpRead(0), Upgrade(0), Unlock(0)], vec![Write(0), Unlock(0)]] },
            "C20:pl:writer-between-upgradable-and-upgrade",
            vec![0, 0, 0, 0, 1, 1, 0, 0, 1, 1, 0, 0, 0, 0, 0],
        ),
        _ => (
            // F12: T1's upgradable_read takes the upgradable slot and waits for the writer T0;
            // T0's downgrade_to_upgradable then waits for the slot: both wait forever
            pl::PlProg { rwlocks: 1, mutexes: 0, bodies: vec![vec![Write(0), DowngradeToUp(0), Unlock(0)], vec![UpRead(0), Unlock(0)]] },
            "C20:pl:downgrade-blocked",
            vec![0, 0, 0, 1, 1, 0, 1],
        ),
    }
}

fn run_known(idx: u64, seed: u64, out: &mut RunOut) {
    let (prog, key, pinned) = known_witness(idx);
    out.count("known_witness_runs", 1);
    // the pinned schedule first; if the runtime's decision points have moved, a fixed, small, seeded
    // search over schedules; the first schedule that shows the finding is reported
    for s in 0..200u64 {
        let sched = if s == 0 { pl::PlSched::Follow(seed, pinned.clone()) } else { pl::PlSched::Sim(SimCfg::new(derive(seed, "known", s))) };
        let case = pl::PlCase { prog: prog.clone(), sched };
        let r = pl::process_case(&case);
        count_pl(out, &r, &case);
        if r.findings.iter().any(|f| f.key == key) {
            out.count("known_witness_reproduced", 1);
            out.count("known_witness_schedules_tried", s + 1);
            let c = pl::shrink(&case, key, 0);
            let rr = pl::process_case(&c);
            let mut seen = BTreeSet::new();
            for f in rr.findings.iter().chain(r.findings.iter()) {
                if seen.insert(f.key.clone()) {
                    out.violation(f.key.clone(), format!("{} || {}", f.detail, pl::describe(&c, &rr)), json!({"pl": c}));
                }
            }
            return;
        }
    }
    out.count("known_witness_not_reproduced", 1);
}

// ---------------------------------------------------------------------------------------- dash

fn run_dash_case(case: &dash::DCase, out: &mut RunOut, do_shrink: bool) {
    let r = dash::process_case(case);
    out.evals += r.rt.execs.len() as u64;
    for ex in &r.rt.execs {
        out.decisions += ex.decisions().count() as u64;
        if ex.switches() > 0 {
            out.distinct.push(hash_debug(&(&case.prog, ex.chosen_seq())));
        }
    }
    for s in &r.stats {
        for (k, v) in &s.probes {
            out.count(&format!("dash_{}", k), *v);
        }
    }
    match &r.ending {
        Ending::Panicked(m) if m.starts_with("deadlock!") => out.count("dash_ending_deadlock", 1),
        Ending::Panicked(_) => out.count("dash_ending_other_panic", 1),
        Ending::Returned(_) => out.count("dash_ending_pass", 1),
    }
    if out.sample.is_none() && r.rt.execs.first().map(|e| e.switches() > 2).unwrap_or(false) {
        out.sample = Some(json!({"family": "dash", "program": case.prog, "chosen": r.rt.execs[0].chosen_seq(), "ending": format!("{:?}", r.ending)}));
    }
    let findings = r.findings.clone();
    add_findings(out, findings, |key| {
        let c = if do_shrink { dash::shrink(case, key, 300) } else { case.clone() };
        let rr = dash::process_case(&c);
        match rr.findings.iter().find(|f| f.key == key) {
            Some(f) => (json!({"dash": c}), format!("@@{} || {}", f.detail, dash::describe(&c, &rr))),
            None => (json!({"dash": case}), dash::describe(case, &dash::process_case(case))),
        }
    });
}

// ---------------------------------------------------------------------------------------- coll

fn nontrivial(outs: &[coll::OpOut]) -> bool {
    // at least one container had >= 2 elements at some point: approximated by distinct hashes
    let mut hs = BTreeSet::new();
    for o in outs {
        for h in &o.hashes {
            hs.insert(*h);
        }
    }
    hs.len() > 3
}

fn coll_one(h: &coll::History, out: &mut RunOut, shuttle_seed: u64, case: Value) -> Vec<coll::OpOut> {
    let a = coll::run_history(h);
    let b = coll::run_history(h);
    out.count("coll_histories", 1);
    out.evals += 2;
    if nontrivial(&a) {
        out.distinct.push(hash_debug(h));
    }
    if h.ops.iter().any(|o| matches!(o, coll::COp::SBitOr(..) | coll::COp::SBitAnd(..) | coll::COp::SBitXor(..) | coll::COp::SSub(..))) {
        out.count("coll_set_operator_results_iterated", 1);
    }
    let mut f = coll::contents_findings(h, &a);
    f.extend(coll::order_findings(h, &a, &b, "between-instances"));
    let inside = coll::run_histories_in_shuttle(std::slice::from_ref(h), shuttle_seed);
    out.evals += 1;
    match inside.first() {
        Some(i) => {
            out.count("coll_inside_shuttle_compared", 1);
            let mut g = coll::order_findings(h, &a, i, "between-instances");
            // what already differs between two plain instances is not reported a second time
            g.retain(|x| !f.iter().any(|y| y.key.rsplit(':').next() == x.key.rsplit(':').next()));
            f.extend(g);
        }
        None => f.push(Finding { key: "C20:coll:harness-no-shuttle-result".into(), detail: String::new() }),
    }
    let desc = format!("history: {:?}", h.ops);
    add_findings(out, f, |_| (case.clone(), desc.clone()));
    a
}

fn run_coll(seed: u64, out: &mut RunOut) {
    let mut rng = Rng::new(seed);
    let h = coll::gen_history(&mut rng);
    if out.sample.is_none() {
        out.sample = Some(json!({"family": "coll", "history": h}));
    }
    coll_one(&h, out, seed, json!({"coll": h}));
}

const COLLX_HISTORIES: usize = 40;
const COLLX_CHILDREN: usize = 3;

fn run_collx(seed: u64, out: &mut RunOut) {
    let hs = coll::histories_for(seed, COLLX_HISTORIES);
    let mine: Vec<Vec<coll::OpOut>> = hs.iter().map(coll::run_history).collect();
    out.evals += hs.len() as u64;
    let mut reported: BTreeSet<String> = BTreeSet::new();
    for c in 0..COLLX_CHILDREN {
        let text = match coll::spawn_child(seed, COLLX_HISTORIES) {
            Ok(t) => t,
            Err(e) => {
                out.violation("C20:coll:harness-child-failed", e, Value::Null);
                return;
            }
        };
        let (o, i) = match coll::parse_child(&text, &hs) {
            Some(x) => x,
            None => {
                out.violation("C20:coll:harness-child-output", format!("child {} printed {} bytes", c, text.len()), Value::Null);
                return;
            }
        };
        out.count("coll_child_processes", 1);
        out.evals += 2 * hs.len() as u64;
        for (hi, h) in hs.iter().enumerate() {
            let mut f = coll::order_findings(h, &mine[hi], &o[hi], "across-processes");
            let g = coll::order_findings(h, &mine[hi], &i[hi], "across-processes");
            out.count("coll_histories_compared_across_processes", 1);
            f.extend(g);
            for x in f {
                if reported.insert(x.key.clone()) {
                    out.violation(x.key.clone(), format!("{} || child {} of run seed {}, history {}: {:?}", x.detail, c, seed, hi, h.ops), json!({"collx": {"seed": seed, "history": hi}}));
                }
            }
        }
    }
}

// ---------------------------------------------------------------------------------------- rand

fn run_rand_case(case: &rnd::RCase, layout: u64, out: &mut RunOut) {
    let r = rnd::process_case(case, layout);
    out.evals += r.evals;
    out.decisions += r.decisions;
    out.distinct.extend(r.distinct.iter().copied());
    for (k, v) in &r.probes {
        out.count(&format!("rand_{}", k), *v);
    }
    if out.sample.is_none() {
        out.sample = Some(json!({"family": "rand", "case": case}));
    }
    let desc = format!("program {:?} scheduler {:?}", case.prog, case.sched);
    add_findings(out, r.findings, |_| (json!({"rand": case, "layout": layout}), desc.clone()));
}

// -------------------------------------------------------------------------------------- driver

fn run(batch: &str, idx: u64, seed: u64, _tier: Tier) -> RunOut {
    let mut out = RunOut::default();
    let mut rng = Rng::new(seed);
    match batch {
        "pl" => {
            let g = pl::PlGen::swarm(&mut rng);
            let case = pl::gen_case(&mut rng, &g);
            run_pl_case(&case, &mut out, true);
        }
        "dash" => {
            let g = dash::DGen::swarm(&mut rng);
            let case = dash::gen_case(&mut rng, &g);
            run_dash_case(&case, &mut out, true);
        }
        "coll" => run_coll(seed, &mut out),
        "collx" => run_collx(seed, &mut out),
        "rand" => {
            let case = rnd::gen_case(&mut rng);
            run_rand_case(&case, seed, &mut out);
        }
        "known" => run_known(idx, seed, &mut out),
        _ => {}
    }
    out
}

fn replay(case: &Value) -> RunOut {
    let mut out = RunOut::default();
    if let Some(c) = case.get("pl").and_then(|c| serde_json::from_value::<pl::PlCase>(c.clone()).ok()) {
        run_pl_case(&c, &mut out, false);
    } else if let Some(c) = case.get("dash").and_then(|c| serde_json::from_value::<dash::DCase>(c.clone()).ok()) {
        run_dash_case(&c, &mut out, false);
    } else if let Some(h) = case.get("coll").and_then(|c| serde_json::from_value::<coll::History>(c.clone()).ok()) {
        coll_one(&h, &mut out, 1, case.clone());
    } else if let Some(x) = case.get("collx") {
        let seed = x["seed"].as_u64().unwrap_or(0);
        run_collx(seed, &mut out);
    } else if let Some(c) = case.get("rand").and_then(|c| serde_json::from_value::<rnd::RCase>(c.clone()).ok()) {
        let layout = case.get("layout").and_then(|l| l.as_u64()).unwrap_or(0);
        run_rand_case(&c, layout, &mut out);
    }
    out
}

/// `vcheck --dump` support for C20 replay files.
pub fn dump(case: &Value) -> bool {
    if let Some(c) = case.get("pl").and_then(|c| serde_json::from_value::<pl::PlCase>(c.clone()).ok()) {
        pl::dump(&c);
        true
    } else if let Some(c) = case.get("dash").and_then(|c| serde_json::from_value::<dash::DCase>(c.clone()).ok()) {
        dash::dump(&c);
        true
    } else {
        false
    }
}
