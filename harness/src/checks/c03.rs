//! C03 — deadlock and termination verdicts are exact (lockstep oracle A over all primitive families).

use super::common::*;
use crate::coord::{Batch, Check, RunOut, Tier};
use crate::prog::{gen_program, GenCfg};
use crate::sim::{Rng, SimCfg};
use serde_json::{json, Value};

pub fn check() -> Check {
    Check {
        id: "C03",
        level: "exploration",
        rule: "each run draws a program (2-4 threads, 1-6 operations each, swarm-selected primitive families: lock cycles, waits nobody notifies, closed/dropped channels, parked threads, barriers that never fill), a scheduling policy and a seed; the real runtime executes it under SimSched and the powerset lockstep oracle checks the offered set at every decision and the verdict at the end. Distinct = (program, chosen task sequence); non-trivial = at least one switch between tasks",
        assumptions: &["reference models in harness/src/model.rs encode the documented std semantics", "programs are small (<= 4 threads)"],
        real_components: "real: shuttle-engine runtime (execution, tasks, scheduler seam), shuttle-std primitives; model: harness/src/model.rs used only as oracle",
        batches,
        run,
        replay: |c| replay_prog_case(c, "C03"),
        probes: &["ending_deadlock", "ending_pass", "deadlock_verdict_checked", "spurious_wake_taken"],
    }
}

fn batches(t: Tier) -> Vec<Batch> {
    vec![Batch::new("swarm", t.pick(20000, 400000), 500), Batch::new("blocking", t.pick(10000, 200000), 500)]
}

pub fn gen_case(batch: &str, rng: &mut Rng) -> ProgCase {
    let mut cfg = GenCfg::swarm(rng);
    if batch == "blocking" {
        // bias towards programs that block: fewer joins/unlocks, parks, condvars
        cfg.park = rng.chance(1, 2);
        cfg.condvar = rng.chance(1, 2);
        if cfg.condvar {
            cfg.mutex = true;
        }
        cfg.chan = rng.chance(1, 2);
        cfg.join_prob = 4;
    }
    let prog = gen_program(rng, &cfg);
    let mut sim = SimCfg::new(rng.next_u64());
    sim.policy = random_policy(rng);
    sim.execs = 1;
    sim.spurious = rng.chance(3, 4);
    ProgCase { prog, sim, max_steps: None }
}

fn run(batch: &str, _idx: u64, seed: u64, _tier: Tier) -> RunOut {
    let mut rng = Rng::new(seed);
    let mut out = RunOut::default();
    let case = gen_case(batch, &mut rng);
    let r = process(&case, "C03", &mut out, true);
    if out.sample.is_none() && r.rt.execs.first().map(|e| e.switches() > 1).unwrap_or(false) {
        out.sample = Some(json!({"program": case.prog, "policy": format!("{:?}", case.sim.policy), "chosen": r.rt.execs[0].chosen_seq(), "ending": format!("{:?}", r.ending)}));
    }
    out
}

#[allow(dead_code)]
fn unused(_: Value) {}
