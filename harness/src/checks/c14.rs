//! C14 — executions are isolated: nothing leaks from one iteration to the next.
use super::c01::{build, SchedKind};
use super::common::*;
use crate::coord::{Batch, Check, RunOut, Tier};
use crate::prog::{gen_program, run_program, take_monitor_violations, GenCfg, Op, Program, Resources};
use crate::sim::{hash_debug, quiet_config, run_recorded, Ending, ExecTrace, FollowSched, Rng, RunTrace, SimCfg};
use serde::{Deserialize, Serialize};
use serde_json::{json, Value};
use std::sync::Arc;

pub fn check() -> Check {
    Check {
        id: "C14",
        level: "exploration",
        rule: "per run: a seeded program using thread-locals (values log init and Drop; destructors touch other keys / yield), lazy statics, static Once cells, named threads and stack values with drop markers; a run of 2-6 iterations under Random/PCT/DFS/RoundRobin/SimSched; fault: predecessors are completed, stopped by the scheduler at a drawn decision (tasks mid-critical-section / blocked / never started), or cut by ContinueAfter(n). Oracle: every iteration's record (first-event snapshot of clock / schedule length / context switches / name / labels, decisions, draws, events, ending) equals the stand-alone re-execution of its own recorded schedule in a fresh Runner; everything initialised in an iteration is destroyed within it (TLS init/drop, lazy init/drop, stack values), and initialisers run again in every iteration. Distinct = (program, iteration's chosen sequence); non-trivial = iteration index >= 1 with at least one switch",
        assumptions: &["thread-local destructors that synchronise are exercised only while a current task exists; the abandoned-execution case is known finding F17 (pinned witness run in a child process)", "stack values of a *failing* last execution are leaked by design (coroutine force_reset) and not counted"],
        real_components: "real: shuttle-engine Runner/Execution/cleanup, continuation pool, storage, thread_support TLS, shuttle lazy_static and Once; the stand-alone re-execution uses the harness's own FollowSched, not ReplayScheduler",
        batches: |t: Tier| vec![Batch::new("isolation", t.pick(7000, 150000), 200), Batch { name: "known", runs: 2, chunk: 1, fresh_process: true }],
        run,
        replay,
        probes: &["iterations_compared", "predecessor_completed", "predecessor_stopped_by_scheduler", "predecessor_cut_by_continue_after", "stopped_with_unfinished_tasks", "tls_reinitialised_in_later_iteration", "lazy_reinitialised_in_later_iteration", "static_once_rerun_in_later_iteration", "abandoned_stack_value_dropped"],
    }
}

#[derive(Clone, Debug, Serialize, Deserialize)]
struct Case {
    prog: Program,
    sched: SchedKind,
    continue_after: Option<usize>,
}

fn gen_case(rng: &mut Rng) -> Case {
    let mut cfg = GenCfg::swarm(rng);
    cfg.tls = rng.chance(2, 3);
    cfg.statics = rng.chance(2, 3);
    cfg.info = rng.chance(1, 3);
    cfg.rand = rng.chance(1, 3);
    cfg.reset = rng.chance(1, 3);
    cfg.join_prob = 7;
    let prog = gen_program(rng, &cfg);
    let iters = rng.range(2, 6);
    let fault = rng.below(3);
    let sched = match rng.below(6) {
        0 => SchedKind::Random(rng.next_u64(), iters),
        1 => SchedKind::Pct(rng.next_u64(), rng.range(1, 3), iters),
        2 => SchedKind::Dfs(iters),
        3 => SchedKind::RoundRobin(iters),
        _ => {
            let mut c = SimCfg::new(rng.next_u64());
            c.policy = random_policy(rng);
            c.execs = iters as u32;
            if fault == 1 {
                c.stop_at = Some(rng.range(1, 14) as u32);
            }
            SchedKind::Sim(c)
        }
    };
    let continue_after = if fault == 2 { Some(rng.range(2, 16)) } else { None };
    Case { prog, sched, continue_after }
}

fn config(case: &Case) -> shuttle::Config {
    let mut c = quiet_config();
    if let Some(n) = case.continue_after {
        c.max_steps = shuttle::MaxSteps::ContinueAfter(n);
    }
    c
}

fn run_all(case: &Case) -> (Ending, RunTrace) {
    let prog = Arc::new(case.prog.clone());
    let _ = take_monitor_violations();
    let r = run_recorded(build(&case.sched), config(case), move || run_program(&prog));
    let _ = take_monitor_violations();
    r
}

fn standalone(case: &Case, ex: &ExecTrace) -> (Ending, Option<ExecTrace>) {
    let prog = Arc::new(case.prog.clone());
    let script = ex.chosen_seq();
    let _ = take_monitor_violations();
    // an execution cut by the scheduler or by ContinueAfter is re-executed up to the same point
    let (end, rt) = run_recorded(FollowSched::new(ex.seed, script, false), config(case), move || run_program(&prog));
    let _ = take_monitor_violations();
    (end, rt.execs.into_iter().next())
}

fn task_events(ex: &ExecTrace) -> Vec<String> {
    ex.events.iter().filter(|e| e.task != u32::MAX).map(|e| format!("{}:{}:{}{}={}", e.step, e.task, e.kind, e.op, e.val)).collect()
}

fn check_case(case: &Case, out: &mut RunOut) {
    let cj = json!({"c14": case});
    let (ending, rt) = run_all(case);
    if let Ending::Panicked(m) = &ending {
        if m.contains("did not exercise any concurrency") {
            return;
        }
        if !(m.starts_with("deadlock!") || m.starts_with("fail:")) {
            out.violation(format!("C14:unexpected-panic:{}", m.chars().take(40).map(|c| if c.is_ascii_alphanumeric() { c } else { '-' }).collect::<String>()), m.clone(), cj.clone());
            return;
        }
    }
    let n = rt.execs.len();
    for (i, ex) in rt.execs.iter().enumerate() {
        out.evals += 1;
        out.decisions += ex.decisions().count() as u64;
        let failed_last = i + 1 == n && matches!(ending, Ending::Panicked(_));
        // the decisions of a cut execution: the last recorded decision may be the unanswered one
        let cut = ex.stopped || (case.continue_after.is_some() && !failed_last && !ex.events.iter().any(|e| e.kind == "X" && e.op == "0"));
        if i > 0 {
            let prev = &rt.execs[i - 1];
            if prev.stopped {
                out.count("predecessor_stopped_by_scheduler", 1);
                if prev.decisions().last().map(|d| d.offered.len() > 1).unwrap_or(false) {
                    out.count("stopped_with_unfinished_tasks", 1);
                }
            } else if case.continue_after.is_some() && !prev.events.iter().any(|e| e.kind == "X" && e.op == "0") {
                out.count("predecessor_cut_by_continue_after", 1);
            } else {
                out.count("predecessor_completed", 1);
            }
            if ex.events.iter().any(|e| e.kind == "T") && prev.events.iter().any(|e| e.kind == "T") {
                out.count("tls_reinitialised_in_later_iteration", 1);
            }
            if ex.events.iter().any(|e| e.kind == "I" && e.op.starts_with('L')) && prev.events.iter().any(|e| e.kind == "I" && e.op.starts_with('L')) {
                out.count("lazy_reinitialised_in_later_iteration", 1);
            }
            if ex.events.iter().any(|e| e.kind == "I" && e.op.starts_with('S')) && prev.events.iter().any(|e| e.kind == "I" && e.op.starts_with('S')) {
                out.count("static_once_rerun_in_later_iteration", 1);
            }
        }
        // (1) stand-alone re-execution of the recorded schedule
        if !failed_last {
            let (send, sex) = standalone(case, ex);
            out.evals += 1;
            match sex {
                None => out.violation("C14:standalone-did-not-run", format!("iteration {}", i), cj.clone()),
                Some(sx) => {
                    let a = task_events(ex);
                    let b = task_events(&sx);
                    // the stand-alone run uses the same Config and stops where the script ends, so a cut
                    // execution is cut at the same point
                    if a != b {
                        let k = a.iter().zip(b.iter()).position(|(x, y)| x != y).unwrap_or(a.len().min(b.len()));
                        out.violation(
                            "C14:iteration-differs-from-standalone",
                            format!("iteration {} of {:?}: event {} is {:?} in the run but {:?} when its schedule is executed alone", i, case.sched, k, a.get(k), b.get(k)),
                            cj.clone(),
                        );
                    } else {
                        out.count("iterations_compared", 1);
                        if i >= 1 && ex.switches() > 0 {
                            out.distinct.push(hash_debug(&(&case.prog, ex.chosen_seq())));
                        }
                    }
                    {
                        let dd: Vec<_> = ex.decisions().map(|d| (&d.offered, d.current, d.yielding, d.chosen)).collect();
                        let ds: Vec<_> = sx.decisions().map(|d| (&d.offered, d.current, d.yielding, d.chosen)).collect();
                        let k = dd.len().min(ds.len());
                        if dd[..k] != ds[..k] || ex.draws() != sx.draws() {
                            out.violation("C14:iteration-decisions-differ-from-standalone", format!("iteration {}: decisions or draws differ", i), cj.clone());
                        }
                        if matches!(send, Ending::Panicked(_)) && !cut {
                            out.violation("C14:standalone-ending-differs", format!("iteration {} passed inside the run but its schedule alone ends {:?}", i, send), cj.clone());
                        }
                    }
                }
            }
        }
        // (2) everything initialised in this iteration is destroyed within it
        if !failed_last {
            let cnt = |k: &str, pre: &str| ex.events.iter().filter(|e| e.kind == k && e.op.starts_with(pre)).count();
            let t = cnt("T", "");
            let d = ex.events.iter().filter(|e| e.kind == "D" && e.op != "3").count();
            if t != d {
                out.violation("C14:tls-values-not-destroyed-in-their-iteration", format!("iteration {}: {} thread-local values initialised, {} destroyed", i, t, d), cj.clone());
            }
            let li = cnt("J", "L"); // completed initialisations
            let ld = cnt("LD", "L");
            if li != ld {
                out.violation("C14:lazy-values-not-destroyed-in-their-iteration", format!("iteration {}: {} lazy statics initialised, {} destroyed", i, li, ld), cj.clone());
            }
            let ci = cnt("CI", "");
            let cd = cnt("CD", "");
            if ci != cd {
                out.violation("C14:captured-values-not-destroyed-in-their-iteration", format!("iteration {}: {} thread closures created with a captured value, {} captured values dropped (the closure of a task that never started must be dropped with the execution)", i, ci, cd), cj.clone());
            }
            let b = cnt("B", "");
            let sd = cnt("SD", "");
            if b != sd {
                out.violation("C14:stack-values-not-destroyed-in-their-iteration", format!("iteration {}: {} task bodies began, {} stack values dropped", i, b, sd), cj.clone());
            }
            if cut && ex.events.iter().any(|e| e.kind == "SD" && e.task == u32::MAX) {
                out.count("abandoned_stack_value_dropped", 1);
            }
            // each static initialiser runs at most once per iteration
            for slot in ["L0", "L1", "S0", "S1"] {
                if ex.events.iter().filter(|e| e.kind == "I" && e.op == slot).count() > 1 {
                    out.violation("C14:static-initialised-twice-in-one-iteration", format!("iteration {}: {} initialised twice", i, slot), cj.clone());
                }
            }
        }
        // (3) the first event of every iteration is the main task's begin with a pristine snapshot
        if let Some(first) = ex.events.first() {
            let pristine = rt.execs[0].events.first().map(|e| e.val.clone()).unwrap_or_default();
            if first.kind != "B" || first.task != 0 || first.step != 1 || first.val != pristine {
                out.violation("C14:first-event-snapshot-differs", format!("iteration {} starts with {:?}, iteration 0 with snapshot {:?}", i, first, pristine), cj.clone());
            }
        }
    }
    if out.sample.is_none() && n >= 2 {
        out.sample = Some(json!({"program": case.prog, "scheduler": format!("{:?}", case.sched), "continue_after": case.continue_after, "iterations": n, "first_event": rt.execs[0].events.first().map(|e| e.val.clone())}));
    }
}

/// Pinned witness of known finding F17, run in a child process because it may abort.
fn f17_witness() -> Case {
    let res = Resources { mutexes: 1, ..Default::default() };
    let bodies = vec![vec![Op::Spawn(1), Op::TlsWith(3), Op::Lock(0), Op::Yield, Op::Unlock(0), Op::Yield, Op::Yield], vec![Op::TlsWith(3), Op::Lock(0), Op::Yield, Op::Unlock(0), Op::Yield]];
    Case { prog: Program { res, bodies }, sched: SchedKind::RoundRobin(3), continue_after: Some(6) }
}

pub fn child_f17() -> i32 {
    let case = f17_witness();
    let (ending, rt) = run_all(&case);
    match ending {
        Ending::Returned(3) if rt.execs.len() == 3 => 0,
        _ => 3,
    }
}

fn run(batch: &str, idx: u64, seed: u64, _tier: Tier) -> RunOut {
    let mut out = RunOut::default();
    if batch == "known" {
        if idx == 0 {
            let exe = std::env::current_exe().unwrap();
            let mut cmd = std::process::Command::new(exe);
            cmd.arg("--child").arg("c14f17").stdin(std::process::Stdio::null()).stdout(std::process::Stdio::null()).stderr(std::process::Stdio::null());
            crate::coord::scrub_env(&mut cmd);
            let st = cmd.status();
            out.evals += 1;
            let ok = st.as_ref().map(|s| s.code() == Some(0)).unwrap_or(false);
            if !ok {
                out.violation(
                    "C14:known:F17:tls-destructor-of-abandoned-execution-synchronises",
                    format!("witness (two threads touching a thread-local whose Drop yields, ContinueAfter(6), 3 iterations) did not complete its run: child status {:?}", st),
                    json!({"known": "f17"}),
                );
            }
        }
        return out;
    }
    let mut rng = Rng::new(seed);
    let case = gen_case(&mut rng);
    check_case(&case, &mut out);
    out
}

fn replay(case: &Value) -> RunOut {
    let mut out = RunOut::default();
    if case.get("known").is_some() {
        return run("known", 0, 0, Tier::Quick);
    }
    if let Some(c) = case.get("c14").and_then(|c| serde_json::from_value::<Case>(c.clone()).ok()) {
        check_case(&c, &mut out);
    }
    out
}
