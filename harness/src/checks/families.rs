//! Program-driven checks that share one shape: draw a program from a family-specific generator,
//! run it on the real runtime under SimSched, apply the lockstep reference-model oracle, the
//! direct monitors, the scheduler-contract monitor and family-specific history monitors.
//! C04 (locks part), C05, C06, C07 and C08 (contract part) are instances.

use super::common::*;
use crate::coord::{RunOut, Tier};
use crate::model::op_for_label;
use crate::prog::{gen_program, GenCfg, Op, Program, Resources};
use crate::sim::{Ending, ExecTrace, Rng, SimCfg};
use serde_json::json;
use std::collections::{BTreeMap, BTreeSet};

pub fn sim_for(rng: &mut Rng) -> SimCfg {
    let mut sim = SimCfg::new(rng.next_u64());
    sim.policy = random_policy(rng);
    sim.execs = 1;
    sim.spurious = rng.chance(3, 4);
    sim
}

/// task id -> body index, learned from the Spawn completions in the log
pub fn body_map(p: &Program, ex: &ExecTrace) -> BTreeMap<u32, usize> {
    let mut m = BTreeMap::new();
    m.insert(0u32, 0usize);
    for e in &ex.events {
        if e.kind != "E" {
            continue;
        }
        if let Some(b) = m.get(&e.task).cloned() {
            if let Some((Op::Spawn(c), _)) | Some((Op::ScopedSpawn(c), _)) = op_for_label(p, b, &e.op) {
                if let Ok(tid) = e.val.parse::<u32>() {
                    m.insert(tid, c);
                }
            }
        }
    }
    m
}

/// History monitors that need no reference model (C06 channels, C07 thread lifecycle / TLS, C05 barrier / once).
pub fn history_monitors(p: &Program, ex: &ExecTrace, passed: bool, prop: &str) -> Vec<Finding> {
    let mut f = vec![];
    let bm = body_map(p, ex);
    let op_of = |task: u32, label: &str| -> Option<(usize, Op, u64)> {
        let b = *bm.get(&task)?;
        op_for_label(p, b, label).map(|(o, uv)| (b, o, uv))
    };
    // ---------------- channels ----------------
    for c in 0..p.res.chans.len() {
        let cap = p.res.chans[c];
        let mut sent: Vec<u64> = vec![];
        let mut recvd: Vec<u64> = vec![];
        let mut in_flight: i64 = 0;
        for e in &ex.events {
            if e.kind != "E" {
                continue;
            }
            match op_of(e.task, &e.op) {
                Some((_, Op::Send(x), uv)) | Some((_, Op::TrySend(x), uv)) if x == c && e.val == "ok" => {
                    sent.push(uv);
                    in_flight += 1;
                    if let Some(k) = cap {
                        if in_flight > k.max(1) as i64 {
                            f.push(Finding { key: format!("{}:chan:capacity-exceeded", prop), detail: format!("channel {} (cap {:?}) holds {} messages after {:?}", c, cap, in_flight, e) });
                        }
                    }
                }
                Some((_, Op::Recv(x), _)) | Some((_, Op::TryRecv(x), _)) if x == c => {
                    if let Ok(v) = e.val.parse::<u64>() {
                        if !sent.contains(&v) {
                            f.push(Finding { key: format!("{}:chan:received-unsent", prop), detail: format!("channel {}: received {} which was not sent before", c, v) });
                        }
                        if recvd.contains(&v) {
                            f.push(Finding { key: format!("{}:chan:received-twice", prop), detail: format!("channel {}: received {} twice", c, v) });
                        }
                        recvd.push(v);
                        in_flight -= 1;
                    }
                }
                _ => {}
            }
        }
        // single receiver: receive order == order of successful send completions
        let expect: Vec<u64> = sent.iter().filter(|v| recvd.contains(v)).cloned().collect();
        if expect != recvd && recvd.iter().all(|v| sent.contains(v)) {
            f.push(Finding { key: format!("{}:chan:order", prop), detail: format!("channel {}: sends completed in order {:?} but were received as {:?}", c, sent, recvd) });
        }
        // everything sent before the first received gap must have been received: received is a prefix of sent
        if !sent.starts_with(&recvd) && recvd.iter().all(|v| sent.contains(v)) && expect == recvd {
            f.push(Finding { key: format!("{}:chan:skipped-message", prop), detail: format!("channel {}: sent {:?}, received {:?} (a message was skipped)", c, sent, recvd) });
        }
    }
    // ---------------- barriers: exactly one leader per released group ----------------
    for b in 0..p.res.barriers.len() {
        let bound = p.res.barriers[b].max(1);
        let mut results: Vec<bool> = vec![];
        for e in &ex.events {
            if e.kind == "E" {
                if let Some((_, Op::BarrierWait(x), _)) = op_of(e.task, &e.op) {
                    if x == b {
                        results.push(e.val == "leader");
                    }
                }
            }
        }
        let leaders = results.iter().filter(|l| **l).count();
        let n = results.len();
        // returned waits come in groups of `bound`: at most one leader per (possibly incomplete) group,
        // and exactly one per group once everything has returned
        let hi = (n + bound - 1) / bound;
        if leaders > hi || (passed && (n % bound != 0 || leaders != n / bound)) {
            f.push(Finding { key: format!("{}:barrier:leaders", prop), detail: format!("barrier {} (bound {}): {} waits returned with {} leaders", b, bound, n, leaders) });
        }
    }
    // ---------------- thread lifecycle ----------------
    let mut begun: BTreeMap<usize, u32> = BTreeMap::new();
    for e in &ex.events {
        if e.kind == "B" {
            if let Ok(b) = e.op.parse::<usize>() {
                *begun.entry(b).or_insert(0) += 1;
                if bm.get(&e.task) != Some(&b) {
                    f.push(Finding { key: format!("{}:thread:closure-ran-in-wrong-task", prop), detail: format!("body {} began in task {} but spawn reported another task", b, e.task) });
                }
            }
        }
    }
    for (b, n) in &begun {
        if *n > 1 {
            f.push(Finding { key: format!("{}:thread:closure-ran-twice", prop), detail: format!("body {} began {} times", b, n) });
        }
    }
    // thread ids unique: two bodies never share a task id (body_map would have merged them)
    let tids: BTreeSet<u32> = bm.keys().cloned().collect();
    let bodies: BTreeSet<usize> = bm.values().cloned().collect();
    if tids.len() != bodies.len() {
        f.push(Finding { key: format!("{}:thread:ids-not-unique", prop), detail: format!("task ids {:?} for bodies {:?}", tids, bodies) });
    }
    // join returns only after the child's closure returned and all its TLS destructors ran
    let pos_of = |pred: &dyn Fn(&crate::sim::Event) -> bool| -> Vec<usize> { ex.events.iter().enumerate().filter(|(_, e)| pred(e)).map(|(i, _)| i).collect() };
    for (i, e) in ex.events.iter().enumerate() {
        if e.kind != "E" || !e.val.starts_with("ok:") {
            continue;
        }
        if let Some((_, Op::Join(_), _)) = op_of(e.task, &e.op) {
            let child: usize = match e.val[3..].parse() {
                Ok(c) => c,
                Err(_) => continue,
            };
            let ctid = bm.iter().find(|(_, b)| **b == child).map(|(t, _)| *t);
            if let Some(ctid) = ctid {
                let x = pos_of(&|ev| ev.kind == "X" && ev.task == ctid);
                if x.is_empty() || x[0] > i {
                    f.push(Finding { key: format!("{}:thread:join-before-closure-end", prop), detail: format!("join of body {} returned at event {} before its closure ended", child, i) });
                }
                let late = pos_of(&|ev| ev.task == ctid && matches!(ev.kind.as_str(), "D" | "DA" | "T" | "Y"));
                if late.iter().any(|p| *p > i) {
                    f.push(Finding { key: format!("{}:thread:join-before-tls-destructors", prop), detail: format!("join of body {} returned at event {} but the child logged destructor events later", child, i) });
                }
            }
        }
    }
    // thread-locals: per task, init at most once per key; destructors exactly once per initialised value,
    // in initialisation order, after the closure ended; no resurrection
    let mut per_task: BTreeMap<u32, Vec<(&str, String, usize)>> = BTreeMap::new();
    for (i, e) in ex.events.iter().enumerate() {
        if e.task == u32::MAX {
            continue; // destructors run by the teardown of an abandoned / failed execution
        }
        if matches!(e.kind.as_str(), "T" | "D" | "X") {
            per_task.entry(e.task).or_default().push((e.kind.as_str(), e.op.clone(), i));
        }
    }
    for (t, evs) in &per_task {
        let inits: Vec<&String> = evs.iter().filter(|(k, _, _)| *k == "T").map(|(_, o, _)| o).collect();
        let dtors: Vec<&String> = evs.iter().filter(|(k, _, _)| *k == "D").map(|(_, o, _)| o).collect();
        let uniq: BTreeSet<&String> = inits.iter().cloned().collect();
        if uniq.len() != inits.len() {
            f.push(Finding { key: format!("{}:tls:initialised-twice", prop), detail: format!("task {} initialised keys {:?}", t, inits) });
        }
        let xpos = evs.iter().find(|(k, _, _)| *k == "X").map(|(_, _, i)| *i);
        if let Some(first_d) = evs.iter().find(|(k, _, _)| *k == "D") {
            if xpos.map(|x| first_d.2 < x).unwrap_or(true) && bm.contains_key(t) {
                f.push(Finding { key: format!("{}:tls:destructor-before-thread-end", prop), detail: format!("task {} ran a TLS destructor before its closure returned", t) });
            }
        }
        let ud: BTreeSet<&String> = dtors.iter().cloned().collect();
        if ud.len() != dtors.len() {
            f.push(Finding { key: format!("{}:tls:destructed-twice", prop), detail: format!("task {} destructed keys {:?}", t, dtors) });
        }
        if passed {
            // every initialised value is destructed exactly once, in initialisation order
            if dtors != inits && ud.len() == dtors.len() && uniq.len() == inits.len() {
                f.push(Finding { key: format!("{}:tls:destructor-order", prop), detail: format!("task {} initialised {:?} but destructed {:?}", t, inits, dtors) });
            }
        }
    }
    // access results: "destroyed" only after that task destructed the key; "ok" never after
    let mut destroyed: BTreeSet<(u32, usize)> = BTreeSet::new();
    for e in &ex.events {
        if e.kind == "D" {
            if let Ok(k) = e.op.parse::<usize>() {
                destroyed.insert((e.task, k));
            }
        }
        if e.kind == "E" {
            if let Some((_, Op::TlsWith(k), _)) = op_of(e.task, &e.op) {
                let k = k % 3;
                if e.val == "destroyed" && !destroyed.contains(&(e.task, k)) {
                    f.push(Finding { key: format!("{}:tls:destroyed-before-destruction", prop), detail: format!("task {} saw key {} destroyed before its destructor ran", e.task, k) });
                }
                if e.val == "ok" && destroyed.contains(&(e.task, k)) {
                    f.push(Finding { key: format!("{}:tls:resurrected", prop), detail: format!("task {} accessed key {} after destruction", e.task, k) });
                }
            }
        }
        if e.kind == "DA" && e.val == "false" && e.task != u32::MAX && !destroyed.contains(&(e.task, 1)) {
            f.push(Finding { key: format!("{}:tls:destroyed-before-destruction", prop), detail: format!("task {}: the destructor of key 0 found key 1 already destroyed although its destructor had not run", e.task) });
        }
        if e.kind == "DA" && e.val == "true" {
            // destructor of key 0 reached key 1: legal iff key 1 not yet destructed by this task
            if destroyed.contains(&(e.task, 1)) {
                f.push(Finding { key: format!("{}:tls:resurrected", prop), detail: format!("task {}: destructor of key 0 accessed key 1 after its destruction", e.task) });
            }
        }
    }
    f
}

pub struct Family {
    pub prop: &'static str,
    pub gen: fn(&str, &mut Rng) -> ProgCase,
}

pub fn run_family(fam: &Family, batch: &str, seed: u64, _tier: Tier) -> RunOut {
    let mut rng = Rng::new(seed);
    let mut out = RunOut::default();
    let case = (fam.gen)(batch, &mut rng);
    let r = process(&case, fam.prop, &mut out, true);
    let passed = matches!(r.ending, Ending::Returned(_));
    let mut seen = BTreeSet::new();
    for ex in &r.rt.execs {
        for fd in history_monitors(&case.prog, ex, passed && !ex.stopped, fam.prop) {
            if seen.insert(fd.key.clone()) {
                out.violation(fd.key, fd.detail, case_json(&case));
            }
        }
        count_ops(&case.prog, ex, &mut out);
    }
    if out.sample.is_none() && r.rt.execs.first().map(|e| e.switches() > 1).unwrap_or(false) {
        out.sample = Some(json!({"program": case.prog, "policy": format!("{:?}", case.sim.policy), "chosen": r.rt.execs[0].chosen_seq(), "ending": format!("{:?}", r.ending)}));
    }
    out
}

pub fn replay_family(fam: &Family, case: &serde_json::Value) -> RunOut {
    let mut out = RunOut::default();
    if let Some(c) = case_from_json(case) {
        let r = process(&c, fam.prop, &mut out, false);
        let passed = matches!(r.ending, Ending::Returned(_));
        for ex in &r.rt.execs {
            for fd in history_monitors(&c.prog, ex, passed && !ex.stopped, fam.prop) {
                out.violation(fd.key, fd.detail, case_json(&c));
            }
        }
    }
    out
}

/// reach probes: which operation results were observed
fn count_ops(p: &Program, ex: &ExecTrace, out: &mut RunOut) {
    let bm = body_map(p, ex);
    for e in &ex.events {
        if e.kind != "E" {
            continue;
        }
        let b = match bm.get(&e.task) {
            Some(b) => *b,
            None => continue,
        };
        if let Some((op, _)) = op_for_label(p, b, &e.op) {
            let name = match op {
                Op::TryLock(_) | Op::TryRead(_) | Op::TryWrite(_) => format!("try_{}", if e.val == "wouldblock" { "failed" } else { "ok" }),
                Op::Lock(_) if e.val.starts_with("poison") => "poison_observed".into(),
                Op::Wait(..) if e.val != "skip" => "condvar_wait_returned".into(),
                Op::BarrierWait(_) => format!("barrier_{}", e.val),
                Op::TrySend(_) => format!("try_send_{}", e.val),
                Op::TryRecv(_) => format!("try_recv_{}", if e.val.parse::<u64>().is_ok() { "value" } else { e.val.as_str() }),
                Op::Recv(_) => format!("recv_{}", if e.val.parse::<u64>().is_ok() { "value" } else { e.val.as_str() }),
                Op::Send(_) => format!("send_{}", e.val),
                Op::Join(_) => format!("join_{}", if e.val.starts_with("ok") { "ok" } else { e.val.as_str() }),
                Op::ScopeEnd(_) => "scope_end".into(),
                Op::CatchEnd => "caught_panic".into(),
                Op::TlsWith(_) => format!("tls_{}", e.val),
                Op::IsCompleted(_) => format!("is_completed_{}", e.val),
                Op::Park => "park_returned".into(),
                Op::SemAcquire(..) => format!("sem_acquire_{}", e.val.split(':').next().unwrap_or("")),
                Op::SemTry(..) => format!("sem_try_{}", e.val.split(':').next().unwrap_or("")),
                Op::SemCancel(..) => {
                    if e.val.starts_with("acquired") {
                        "sem_cancel_acquired".into()
                    } else {
                        format!("sem_{}", e.val.split(':').next().unwrap_or(""))
                    }
                }
                Op::SemClose(_) => "sem_close".into(),
                Op::SemStash(..) => format!("sem_{}", e.val.split(':').next().unwrap_or("")),
                Op::SemTakeAwait(_) => format!("sem_takeover_{}", e.val.split(':').next().unwrap_or("")),
                _ => continue,
            };
            out.count(&name, 1);
        }
    }
    if ex.events.iter().any(|e| e.kind == "DA") {
        out.count("tls_destructor_touched_other_key", 1);
    }
    if ex.events.iter().any(|e| e.kind == "DA" && e.val == "false") {
        out.count("tls_access_after_destruction_rejected", 1);
    }
}

// ------------------------------------------------------------------------------------------------
// family generators
// ------------------------------------------------------------------------------------------------

/// Pinned witnesses of known finding F4 (after a holder panicked the lock's semaphore stays closed):
/// 0: try_lock on the poisoned, free mutex reports WouldBlock instead of the poisoned guard;
/// 1: two lockers contend after the poisoning: no exclusion / internal assertion;
/// 2: a locker in flight while the holder panics does not see the poison (panics or blocks for ever).
pub fn known_f4(which: u64, rng: &mut Rng) -> ProgCase {
    let res = Resources { mutexes: 1, rwlocks: 1, ..Default::default() };
    let bodies = match which % 3 {
        0 => vec![vec![Op::Catch(vec![Op::Lock(0)]), Op::TryLock(0), Op::Unlock(0)]],
        1 => vec![vec![Op::Catch(vec![Op::Lock(0)]), Op::Spawn(1), Op::Lock(0), Op::Yield, Op::Unlock(0), Op::Join(0)], vec![Op::Lock(0), Op::Yield, Op::Unlock(0)]],
        // a locker is already inside `lock()` (past the closed-check, at the acquisition's
        // scheduling point, or queued) when the holder panics: it panics on
        // `acquire_blocking(..).unwrap()` / stays blocked for ever instead of seeing the poison
        _ => vec![vec![Op::Spawn(1), Op::Catch(vec![Op::Lock(0), Op::Yield]), Op::Join(0)], vec![Op::Lock(0), Op::Unlock(0)]],
    };
    let mut sim = sim_for(rng);
    sim.policy = crate::sim::Policy::Uniform;
    ProgCase { prog: Program { res, bodies }, sim, max_steps: None }
}

pub fn gen_c04(batch: &str, rng: &mut Rng) -> ProgCase {
    if batch == "poison" {
        return gen_poison(rng);
    }
    let mut cfg = GenCfg::none();
    cfg.mutex = true;
    cfg.rwlock = rng.chance(2, 3);
    cfg.trylock = true;
    cfg.atomic = rng.chance(1, 2);
    cfg.yields = rng.chance(1, 3);
    cfg.max_bodies = rng.range(2, 4);
    cfg.max_ops = rng.range(3, 7);
    cfg.join_prob = 6;
    ProgCase { prog: gen_program(rng, &cfg), sim: sim_for(rng), max_steps: None }
}

/// Poisoning: a thread panics inside a critical section (caught), later lockers must see the
/// poison flag. Shapes are restricted to those in which no other task runs while the panicking
/// task unwinds (known finding F4 is keyed on exactly that situation).
fn gen_poison(rng: &mut Rng) -> ProgCase {
    let use_rw = rng.chance(1, 3);
    let res = Resources { mutexes: 1, rwlocks: 1, ..Default::default() };
    let inner = if use_rw { vec![if rng.chance(1, 2) { Op::Write(0) } else { Op::Read(0) }] } else { vec![Op::Lock(0)] };
    let mut after: Vec<Op> = vec![];
    for _ in 0..rng.range(1, 3) {
        // try-variants on a poisoned lock are excluded here: known finding F4 (pinned witness in batch `known`)
        after.push(match rng.below(3) {
            0 => Op::Lock(0),
            1 => Op::Read(0),
            _ => Op::Write(0),
        });
        after.push(match after.last().unwrap() {
            Op::Lock(_) | Op::TryLock(_) => Op::Unlock(0),
            Op::Read(_) | Op::TryRead(_) => Op::UnlockRead(0),
            _ => Op::UnlockWrite(0),
        });
    }
    let bodies = if rng.chance(1, 2) {
        // the poisoner is a child; main joins it first
        let mut main = vec![Op::Spawn(1), Op::Join(0)];
        main.extend(after);
        vec![main, vec![Op::Catch(inner)]]
    } else {
        // main poisons, then continues alone
        let mut main = vec![Op::Catch(inner)];
        main.extend(after);
        vec![main]
    };
    ProgCase { prog: Program { res, bodies }, sim: sim_for(rng), max_steps: None }
}

/// Directed condvar shape: several waiters in (possibly) different cohorts and a notifier issuing
/// fewer notify_one calls than there are waiters; more waiters returning than notifications were
/// issued is "invented wake-up", fewer (with the notifier done) is a lost one.
fn gen_condvar_cohorts(rng: &mut Rng) -> ProgCase {
    let nw = rng.range(2, 4);
    let res = Resources { mutexes: 1, condvars: 1, atomics: 1, ..Default::default() };
    let mut bodies: Vec<Vec<Op>> = vec![vec![]];
    for w in 0..nw {
        let mut b = vec![];
        if rng.chance(1, 3) {
            b.push(Op::Yield);
        }
        b.extend([Op::Lock(0), Op::Wait(0, 0), Op::Unlock(0)]);
        bodies.push(b);
        bodies[0].push(Op::Spawn(w + 1));
    }
    let nn = rng.range(1, nw);
    let mut notifier = vec![];
    for _ in 0..nn {
        if rng.chance(1, 2) {
            notifier.push(Op::Yield);
        }
        notifier.push(if rng.chance(1, 8) { Op::NotifyAll(0) } else { Op::NotifyOne(0) });
    }
    if rng.chance(1, 2) {
        bodies.push(notifier);
        let nb = bodies.len() - 1;
        let pos = rng.below(bodies[0].len() + 1);
        bodies[0].insert(pos, Op::Spawn(nb));
    } else {
        bodies[0].extend(notifier);
    }
    // spawn order must respect body numbering (a body is spawned by a lower-numbered one): ok, all by main
    ProgCase { prog: Program { res, bodies }, sim: sim_for(rng), max_steps: None }
}

pub fn gen_c05(batch: &str, rng: &mut Rng) -> ProgCase {
    if batch == "cohorts" {
        return gen_condvar_cohorts(rng);
    }
    let mut cfg = GenCfg::none();
    cfg.max_bodies = rng.range(2, 4);
    cfg.max_ops = rng.range(2, 5);
    match batch {
        "condvar" => {
            cfg.mutex = true;
            cfg.condvar = true;
            cfg.yields = rng.chance(1, 4);
            cfg.join_prob = 5;
        }
        "barrier" => {
            cfg.barrier = true;
            cfg.atomic = rng.chance(1, 3);
            cfg.max_ops = rng.range(1, 4);
        }
        "once" => {
            cfg.once = true;
            cfg.statics = rng.chance(1, 2);
            cfg.atomic = rng.chance(1, 4);
        }
        _ => {
            cfg.park = true;
            cfg.yields = rng.chance(1, 3);
            cfg.atomic = rng.chance(1, 4);
            cfg.join_prob = 4;
        }
    }
    let mut prog = gen_program(rng, &cfg);
    if batch == "park" {
        // more park / unpark traffic than the generic generator emits
        for b in 0..prog.bodies.len() {
            for _ in 0..rng.below(3) {
                let pos = rng.below(prog.bodies[b].len() + 1);
                let op = match rng.below(4) {
                    0 | 1 => Op::Park,
                    2 => Op::UnparkParent,
                    _ => Op::UnparkChild(0),
                };
                prog.bodies[b].insert(pos, op);
            }
        }
    }
    if batch == "barrier" && !prog.res.barriers.is_empty() {
        prog.res.barriers[0] = rng.below(4); // includes bound 0
    }
    ProgCase { prog, sim: sim_for(rng), max_steps: None }
}

pub fn gen_c06(_batch: &str, rng: &mut Rng) -> ProgCase {
    let mut cfg = GenCfg::none();
    cfg.chan = true;
    cfg.max_bodies = rng.range(2, 4);
    cfg.max_ops = rng.range(2, 6);
    cfg.yields = rng.chance(1, 4);
    cfg.join_prob = 5;
    let mut prog = gen_program(rng, &cfg);
    if rng.chance(1, 3) {
        // a second channel with another capacity
        prog.res.chans.push(match rng.below(3) {
            0 => None,
            1 => Some(0),
            _ => Some(1),
        });
        prog.res.rx_owner.push(rng.below(prog.bodies.len()));
        for b in 0..prog.bodies.len() {
            if rng.chance(1, 2) {
                let pos = rng.below(prog.bodies[b].len() + 1);
                let op = if prog.res.rx_owner[1] == b { Op::Recv(1) } else { Op::Send(1) };
                prog.bodies[b].insert(pos, op);
            }
        }
    }
    ProgCase { prog, sim: sim_for(rng), max_steps: None }
}

pub fn gen_c07(batch: &str, rng: &mut Rng) -> ProgCase {
    let mut cfg = GenCfg::none();
    cfg.max_bodies = rng.range(2, 5);
    cfg.max_ops = rng.range(1, 4);
    cfg.scope = rng.chance(1, 2);
    cfg.info = true;
    cfg.join_prob = 6;
    cfg.yields = rng.chance(1, 3);
    match batch {
        "tls" => {
            cfg.tls = true;
            cfg.statics = rng.chance(1, 3);
            cfg.mutex = rng.chance(1, 3);
        }
        _ => {
            cfg.mutex = rng.chance(1, 2);
            cfg.condvar = cfg.mutex && rng.chance(1, 3);
            cfg.chan = rng.chance(1, 3);
            cfg.barrier = rng.chance(1, 4);
            cfg.tls = rng.chance(1, 4);
        }
    }
    ProgCase { prog: gen_program(rng, &cfg), sim: sim_for(rng), max_steps: None }
}

pub fn gen_c08(_batch: &str, rng: &mut Rng) -> ProgCase {
    let mut cfg = GenCfg::swarm(rng);
    cfg.yields = true;
    cfg.park = rng.chance(1, 2);
    ProgCase { prog: gen_program(rng, &cfg), sim: sim_for(rng), max_steps: None }
}
