//! C08 — the runtime honours the Scheduler interface contract.
use super::common::*;
use super::families::*;
use crate::coord::{Batch, Check, RunOut, Tier};
use crate::prog::{gen_program, run_program, take_monitor_violations, GenCfg};
use crate::sim::{contract_findings, quiet_config, Ending, Policy, Recorder, Rng, SimCfg, SimSched};
use serde_json::{json, Value};
use shuttle::scheduler::{AnnotationScheduler, UncontrolledNondeterminismCheckScheduler};
use shuttle_engine::scheduler::metrics::MetricsScheduler;
use std::sync::Arc;

const FAM: Family = Family { prop: "C08", gen: gen_c08 };

pub fn check() -> Check {
    Check {
        id: "C08",
        level: "exploration",
        rule: "contract: seeded swarm programs (all primitive families, yields, parks) under every SimSched policy; at every decision the monitor checks: non-empty, strictly ascending ids, every offered task runnable or spuriously wakeable, none finished, current = previous answer (None before the first), yielding flag = the previous step ended in an explicit yield request, offered set = the reference model's enabled set, every event between two decisions belongs to the chosen task. stop: the scheduler answers None at a drawn decision / ends the run after a drawn number of executions; the execution must end without failure, never consult the scheduler again, and Runner::run must return the number of executions started. wrappers: recorders inside and outside UncontrolledNondeterminismCheckScheduler (recording phase), AnnotationScheduler and MetricsScheduler must see identical calls and answers. Distinct = (program, chosen sequence); non-trivial = at least one switch",
        assumptions: &["the portfolio stop wrapper is private; it is exercised through PortfolioRunner in C12 and checked from the inside only"],
        real_components: "real: shuttle-engine runtime (ExecutionState::schedule, Runner), MetricsScheduler, shuttle-schedulers wrappers; model only as oracle",
        batches: |t: Tier| vec![Batch::new("contract", t.pick(16000, 300000), 400), Batch::new("stop", t.pick(6000, 100000), 300), Batch::new("wrappers", t.pick(3000, 50000), 200)],
        run,
        replay,
        probes: &["yield_flag_true", "spurious_wake_taken", "stopped_by_scheduler", "stopped_with_pending_tasks", "wrapper_uncontrolled", "wrapper_annotation", "wrapper_metrics"],
    }
}

fn run(batch: &str, _idx: u64, seed: u64, tier: Tier) -> RunOut {
    match batch {
        "stop" => run_stop(seed),
        "wrappers" => run_wrappers(seed),
        _ => run_family(&FAM, batch, seed, tier),
    }
}

fn replay(case: &Value) -> RunOut {
    if let Some(s) = case.get("stop_seed").and_then(|s| s.as_u64()) {
        return run_stop(s);
    }
    if let Some(s) = case.get("wrappers_seed").and_then(|s| s.as_u64()) {
        return run_wrappers(s);
    }
    replay_family(&FAM, case)
}

fn run_stop(seed: u64) -> RunOut {
    let mut rng = Rng::new(seed);
    let mut out = RunOut::default();
    let cfg = GenCfg::swarm(&mut rng);
    let prog = gen_program(&mut rng, &cfg);
    // measure the length of one unstopped execution to place the stop inside it
    let mut sim = SimCfg::new(rng.next_u64());
    sim.policy = random_policy(&mut rng);
    sim.execs = rng.range(1, 4) as u32;
    let probe = run_case(&ProgCase { prog: prog.clone(), sim: SimCfg { execs: 1, ..sim.clone() }, max_steps: None });
    let len = probe.rt.execs.first().map(|e| e.decisions().count()).unwrap_or(1).max(1);
    sim.stop_at = Some(rng.below(len + 1) as u32);
    let case = ProgCase { prog, sim: sim.clone(), max_steps: None };
    let r = process(&case, "C08", &mut out, false);
    for v in out.violations.iter_mut() {
        v.case = json!({"stop_seed": seed});
    }
    let cj = json!({"stop_seed": seed});
    for (i, ex) in r.rt.execs.iter().enumerate() {
        if ex.stopped {
            out.count("stopped_by_scheduler", 1);
            let last = ex.decisions().last().unwrap();
            if last.offered.len() > 1 {
                out.count("stopped_with_pending_tasks", 1);
            }
            if ex.calls_after_stop > 0 {
                out.violation("C08:consulted-after-none", format!("exec {}: scheduler consulted {} more times after answering None", i, ex.calls_after_stop), cj.clone());
            }
            // nothing of this execution may run after the stop: no event with a step beyond the last answered decision
            let answered = ex.decisions().filter(|d| d.chosen.is_some()).count() as u32;
            if let Some(e) = ex.events.iter().find(|e| e.step > answered && !matches!(e.kind.as_str(), "D" | "LD" | "DA")) {
                out.violation("C08:user-code-after-stop", format!("exec {}: event {:?} after the scheduler stopped the execution", i, e), cj.clone());
            }
        }
    }
    match &r.ending {
        Ending::Returned(n) => {
            if *n != r.rt.execs.len() || *n != sim.execs as usize {
                // an execution that deadlocks/fails ends the run early, which is a Panicked ending; a
                // Returned run must have run exactly the scheduler's budget
                out.violation("C08:run-count", format!("Runner::run returned {} but {} executions were started (budget {})", n, r.rt.execs.len(), sim.execs), cj.clone());
            }
        }
        Ending::Panicked(m) => {
            // a stopped execution never fails; failures may only come from an execution that was not stopped
            if r.rt.execs.last().map(|e| e.stopped).unwrap_or(false) {
                out.violation("C08:stopped-execution-failed", format!("the scheduler returned None but the run failed: {}", m), cj.clone());
            }
        }
    }
    out
}

fn run_wrappers(seed: u64) -> RunOut {
    let mut rng = Rng::new(seed);
    let mut out = RunOut::default();
    let cfg = GenCfg::swarm(&mut rng);
    let prog = Arc::new(gen_program(&mut rng, &cfg));
    let mut sim = SimCfg::new(rng.next_u64());
    sim.policy = random_policy(&mut rng);
    sim.execs = rng.range(1, 3) as u32;
    let which = rng.below(3);
    let cj = json!({"wrappers_seed": seed});
    crate::sim::silence_panics();
    let _ = crate::sim::take_log();
    let _ = take_monitor_violations();
    let (inner, inner_out) = Recorder::new(SimSched::new(sim.clone()), false);
    let p2 = prog.clone();
    let body = move || run_program(&p2);
    let (outer_out, res, stride) = match which {
        0 => {
            out.count("wrapper_uncontrolled", 1);
            let (outer, oo) = Recorder::new(UncontrolledNondeterminismCheckScheduler::new(inner), true);
            let r = std::panic::catch_unwind(std::panic::AssertUnwindSafe(|| shuttle::Runner::new(outer, quiet_config()).run(body)));
            (oo, r, 2)
        }
        1 => {
            out.count("wrapper_annotation", 1);
            let (outer, oo) = Recorder::new(AnnotationScheduler::new(inner), true);
            let r = std::panic::catch_unwind(std::panic::AssertUnwindSafe(|| shuttle::Runner::new(outer, quiet_config()).run(body)));
            (oo, r, 1)
        }
        _ => {
            out.count("wrapper_metrics", 1);
            let (outer, oo) = Recorder::new(MetricsScheduler::new(inner), true);
            let r = std::panic::catch_unwind(std::panic::AssertUnwindSafe(|| shuttle::Runner::new(outer, quiet_config()).run(body)));
            (oo, r, 1)
        }
    };
    crate::sim::finalize(&outer_out);
    let _ = take_monitor_violations();
    let o = outer_out.lock().unwrap_or_else(|e| e.into_inner()).clone();
    let i = inner_out.lock().unwrap_or_else(|e| e.into_inner()).clone();
    out.evals += o.execs.len() as u64;
    if let Err(p) = &res {
        let m = crate::sim::payload_to_string(&**p);
        if m.contains("possible nondeterminism") {
            out.violation("C08:wrapper:nondeterminism-reported", m, cj.clone());
        }
    }
    for c in contract_findings(&o) {
        out.violation("C08:wrapper:contract", c, cj.clone());
    }
    // the k-th execution seen inside corresponds to execution k*stride outside (recording phases)
    for (k, ie) in i.execs.iter().enumerate() {
        out.decisions += ie.decisions().count() as u64;
        match o.execs.get(k * stride) {
            Some(oe) => {
                if oe.items != ie.items {
                    let n = oe.items.iter().zip(ie.items.iter()).position(|(a, b)| a != b).unwrap_or(oe.items.len().min(ie.items.len()));
                    out.violation(
                        format!("C08:wrapper:not-transparent:{}", ["uncontrolled", "annotation", "metrics"][which]),
                        format!("execution {}: outside saw {:?} but the wrapped scheduler saw {:?} at item {}", k, oe.items.get(n), ie.items.get(n), n),
                        cj.clone(),
                    );
                } else if ie.switches() > 0 {
                    out.distinct.push(crate::sim::hash_debug(&(&*prog, ie.chosen_seq(), which)));
                }
            }
            None => out.violation("C08:wrapper:execution-missing", format!("inner execution {} has no outer counterpart", k), cj.clone()),
        }
    }
    if out.sample.is_none() {
        let wname = ["UncontrolledNondeterminismCheckScheduler", "AnnotationScheduler", "MetricsScheduler"][which];
        out.sample = Some(json!({"wrapper": wname, "program": &*prog, "executions_inside": i.execs.len(), "executions_outside": o.execs.len()}));
    }
    let _ = Policy::Uniform;
    out
}
