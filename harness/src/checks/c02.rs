//! C02 — no interleaving is unreachable: a choice point precedes every visible operation.
//!
//! Oracle E: for tiny programs the set of outcomes (per-thread results + termination) that the
//! reference model allows is computed exhaustively (that is computing the oracle); the real
//! runtime's choice tree for the same program is then explored by scripted schedules. Every
//! outcome the runtime produces must be allowed by the model, and when the runtime's tree was
//! exhausted every model outcome must have been produced. Only a provably unreachable outcome
//! is a violation; "not found within budget" is evidence, never an alarm.
use super::common::*;
use crate::coord::{Batch, Check, RunOut, Tier};
use crate::model::{enumerate_outcomes, norm_result, op_for_label, parse_deadlock_tasks, Outcome};
use crate::prog::{gen_program, run_program, take_monitor_violations, GenCfg, Op, Program};
use crate::sim::{hash_debug, quiet_config, run_recorded, Ending, ExecTrace, FollowSched, Rng};
use serde_json::{json, Value};
use std::collections::BTreeSet;
use std::sync::Arc;

pub fn check() -> Check {
    Check {
        id: "C02",
        level: "exploration",
        rule: "per run: a seeded tiny program (2-3 threads, 1-3 operations each, one primitive family at a time or mixed: mutex/rwlock/try-locks, condvar, barrier, once + is_completed, atomics, channels with endpoint drops, park/unpark, joins); the model's outcome set is enumerated; the runtime's choice tree is explored exhaustively by scripted schedules up to a leaf budget. Violations: an observed outcome the model does not allow, or — when the tree was exhausted — a model outcome that no schedule produces (keyed by the kind of operation that lacks a preceding choice point). Batches choicepoints / atomic-choicepoints check the local form on larger programs and on every atomic type (10 integer types and bool, all operations): a visible operation that completes without any scheduling decision since the same task's previous operation lacks its choice point. Distinct = (program, schedule); non-trivial = program whose model outcome set has at least 2 elements",
        assumptions: &["outcome = per-thread operation results plus termination verdict; barrier leader identity and task ids are not part of the outcome", "the reference model may over-approximate only in ways argued harmless in DESIGN.md (absorbing fast paths)", "programs whose runtime tree exceeds the leaf budget are inconclusive (counted, never alarmed)"],
        real_components: "real: shuttle-std primitives and shuttle-engine runtime explored through the harness's scripted FollowSched; model: outcome enumeration in harness/src/model.rs",
        batches: |t: Tier| vec![Batch::new("tiny", t.pick(2500, 60000), 50), Batch::new("known", 2, 1), Batch::new("choicepoints", t.pick(12000, 200000), 400), Batch::new("atomic-choicepoints", t.pick(6000, 100000), 400)],
        run,
        replay,
        probes: &["programs_exhausted", "programs_with_2+_outcomes", "outcomes_compared", "inconclusive_budget", "deadlock_outcomes", "atomic_ops_with_choice_point_checked"],
    }
}

fn gen_tiny(rng: &mut Rng) -> Program {
    let mut cfg = GenCfg::none();
    cfg.max_bodies = rng.range(2, 3);
    cfg.max_ops = rng.range(1, 3);
    cfg.join_prob = 4;
    match rng.below(9) {
        0 => {
            cfg.mutex = true;
            cfg.trylock = true;
        }
        1 => {
            cfg.rwlock = true;
            cfg.trylock = true;
        }
        2 => {
            cfg.mutex = true;
            cfg.condvar = true;
        }
        3 => cfg.barrier = true,
        4 => cfg.once = true,
        5 => cfg.atomic = true,
        6 | 7 => {
            cfg.chan = true;
            cfg.trylock = true;
            if rng.chance(1, 2) {
                cfg.atomic = true;
            }
        }
        _ => {
            cfg.park = true;
            cfg.atomic = true;
        }
    }
    if rng.chance(1, 4) {
        cfg.atomic = true;
    }
    gen_program(rng, &cfg)
}

fn observed_outcome(p: &Program, ex: &ExecTrace, ending: &Ending) -> Option<Outcome> {
    let bm = super::families::body_map(p, ex);
    let mut results: Vec<Vec<String>> = vec![vec![]; p.bodies.len()];
    for e in &ex.events {
        if e.kind != "E" || e.op.starts_with('x') {
            continue;
        }
        let b = *bm.get(&e.task)?;
        let (op, _) = op_for_label(p, b, &e.op)?;
        results[b].push(norm_result(&op, &e.val));
    }
    let deadlock = match ending {
        Ending::Returned(_) => None,
        Ending::Panicked(m) => {
            let ids = parse_deadlock_tasks(m)?;
            let mut bs: Vec<usize> = ids.iter().filter_map(|t| bm.get(t).cloned()).collect();
            bs.sort();
            Some(bs)
        }
    };
    Some(Outcome { results, deadlock })
}

/// kind of operation without a preceding choice point that can explain a missing outcome
fn classify(p: &Program) -> String {
    let mut kinds: BTreeSet<&str> = BTreeSet::new();
    for b in &p.bodies {
        for o in b {
            match o {
                Op::DropTx(_) | Op::DropRx(_) => {
                    kinds.insert("mpsc-endpoint-drop");
                }
                Op::IsCompleted(_) => {
                    kinds.insert("once-is_completed");
                }
                Op::BarrierWait(x) => {
                    // arrival order only matters when more waits are issued than one generation takes
                    let total: usize = p.bodies.iter().flatten().filter(|o| matches!(o, Op::BarrierWait(y) if y == x)).count();
                    if total > p.res.barriers[*x].max(1) {
                        kinds.insert("barrier-arrival-with-more-waits-than-bound");
                    }
                }
                _ => {}
            }
        }
    }
    if kinds.is_empty() {
        let mut ks: BTreeSet<String> = BTreeSet::new();
        for b in &p.bodies {
            for o in b {
                ks.insert(format!("{:?}", o).split('(').next().unwrap_or("").to_string());
            }
        }
        format!("other:{}", ks.into_iter().collect::<Vec<_>>().join("+"))
    } else {
        kinds.into_iter().collect::<Vec<_>>().join("+")
    }
}

fn check_program(p: &Program, budget: usize, out: &mut RunOut) {
    let cj = json!({"c02": p, "budget": budget});
    // allowed: with spurious park wake-ups (permitted); required: without them (never required)
    let (model, required) = match (enumerate_outcomes(p, 200_000, true), enumerate_outcomes(p, 200_000, false)) {
        (Some(m), Some(r)) => (m, r),
        _ => {
            out.count("model_state_cap", 1);
            return;
        }
    };
    if model.len() >= 2 {
        out.count("programs_with_2+_outcomes", 1);
    }
    let prog = Arc::new(p.clone());
    // independent enumeration of the runtime's choice tree by choice prefixes
    let mut work: Vec<Vec<u32>> = vec![vec![]];
    let mut seen_real: BTreeSet<Outcome> = BTreeSet::new();
    let mut leaves = 0usize;
    let mut exhausted = true;
    while let Some(prefix) = work.pop() {
        if leaves >= budget {
            exhausted = false;
            break;
        }
        let p2 = prog.clone();
        let plen = prefix.len();
        let _ = take_monitor_violations();
        let (ending, rt) = run_recorded(FollowSched::new(7, prefix, true), quiet_config(), move || run_program(&p2));
        let _ = take_monitor_violations();
        leaves += 1;
        out.evals += 1;
        let ex = match rt.execs.first() {
            Some(e) => e,
            None => continue,
        };
        out.decisions += ex.decisions().count() as u64;
        if let Ending::Panicked(m) = &ending {
            if !m.starts_with("deadlock!") {
                out.violation(format!("C02:unexpected-panic:{}", m.chars().take(40).map(|c| if c.is_ascii_alphanumeric() { c } else { '-' }).collect::<String>()), m.clone(), cj.clone());
                return;
            }
            out.count("deadlock_outcomes", 1);
        }
        for (k, d) in ex.decisions().enumerate() {
            if k < plen {
                continue;
            }
            if let Some(c) = d.chosen {
                for alt in &d.offered {
                    if *alt != c {
                        let mut np: Vec<u32> = ex.decisions().take(k).filter_map(|d| d.chosen).collect();
                        np.push(*alt);
                        work.push(np);
                    }
                }
            }
        }
        if ex.switches() > 0 {
            out.distinct.push(hash_debug(&(p, ex.chosen_seq())));
        }
        match observed_outcome(p, ex, &ending) {
            Some(o) => {
                out.count("outcomes_compared", 1);
                if !model.contains(&o) {
                    out.violation(
                        "C02:outcome-not-allowed-by-model",
                        format!("schedule {:?} produced {:?}, which no interleaving of the model allows (model has {} outcomes)", ex.chosen_seq(), o, model.len()),
                        cj.clone(),
                    );
                    return;
                }
                seen_real.insert(o);
            }
            None => {
                out.count("outcome_not_observable", 1);
            }
        }
    }
    if !exhausted {
        out.count("inconclusive_budget", 1);
        return;
    }
    out.count("programs_exhausted", 1);
    out.count("runtime_leaves", leaves as u64);
    let missing: Vec<&Outcome> = required.iter().filter(|o| !seen_real.contains(*o)).collect();
    if let Some(m) = missing.first() {
        out.violation(
            format!("C02:unreachable-outcome:{}", classify(p)),
            format!(
                "the model allows outcome {:?} but none of the {} schedules of the runtime's exhausted choice tree produces it ({} of {} model outcomes reached)",
                m,
                leaves,
                seen_real.len(),
                model.len()
            ),
            cj.clone(),
        );
    }
    if out.sample.is_none() && model.len() >= 2 {
        out.sample = Some(json!({"program": p, "model_outcomes": model.len(), "runtime_schedules": leaves, "outcomes_reached": seen_real.len()}));
    }
}

/// pinned witnesses of the known findings F2 (mpsc endpoint drop) and F18 (barrier arrival)
fn witness(idx: u64) -> Program {
    use crate::prog::Resources;
    if idx == 0 {
        Program {
            res: Resources { chans: vec![None], rx_owner: vec![0], ..Default::default() },
            bodies: vec![vec![Op::Spawn(1), Op::DropRx(0), Op::TryRecv(0)], vec![Op::Send(0), Op::DropTx(0)]],
        }
    } else {
        Program {
            res: Resources { barriers: vec![2], ..Default::default() },
            bodies: vec![
                vec![Op::Spawn(1), Op::BarrierWait(0), Op::Join(0)],
                vec![Op::Spawn(2), Op::BarrierWait(0), Op::BarrierWait(0), Op::BarrierWait(0), Op::Join(0)],
                vec![Op::BarrierWait(0), Op::BarrierWait(0), Op::BarrierWait(0)],
            ],
        }
    }
}

fn run(batch: &str, idx: u64, seed: u64, tier: Tier) -> RunOut {
    let mut rng = Rng::new(seed);
    let mut out = RunOut::default();
    if batch == "known" {
        check_program(&witness(idx), 6000, &mut out);
        return out;
    }
    if batch == "atomic-choicepoints" {
        // the same local form on every atomic type (10 integer types, bool) and operation
        super::c04::atomic_choicepoint_run(&mut rng, &mut out);
        return out;
    }
    if batch == "choicepoints" {
        // local form of the property on medium-sized programs: a visible operation that completes without
        // any scheduling decision since the task's previous operation lacks its choice point, unless it
        // is one of the absorbing fast paths argued harmless in DESIGN.md (reads of a state that can no
        // longer change, purely task-local operations, a cancellation that nobody could observe).
        let mut cfg = crate::prog::GenCfg::swarm(&mut rng);
        cfg.sem = rng.chance(1, 4);
        let prog = crate::prog::gen_program(&mut rng, &cfg);
        let mut sim = crate::sim::SimCfg::new(rng.next_u64());
        sim.policy = random_policy(&mut rng);
        let case = ProgCase { prog, sim, max_steps: None };
        let r = run_case(&case);
        out.evals += r.rt.execs.len() as u64;
        for (i, ex) in r.rt.execs.iter().enumerate() {
            out.decisions += ex.decisions().count() as u64;
            if ex.switches() > 0 {
                out.distinct.push(hash_debug(&(&case.prog, ex.chosen_seq())));
            }
            let ending = exec_ending(&r, i);
            let ls = crate::model::lockstep(&case.prog, ex, ending);
            if let Err(m) = &ls {
                // a task that has just started an operation whose arrival is visible to others (FIFO position,
                // rendezvous) must be offered before it arrives: "enabled task not offered" right after a
                // start is exactly a missing choice point
                if m.class == "enabled-task-not-offered" || m.class == "offered-set-inconsistent" {
                    out.violation(format!("C02:model:{}", m.class), format!("exec {} step {}: {}", i, m.step, m.detail), case_json(&case));
                }
            }
            if let Ok(st) = ls {
                for (kind, (n, example)) in &st.same_step {
                    out.count(&format!("same_step_completion_{}", kind), *n);
                    const HARMLESS: [&str; 15] = ["CallOnce", "LazyGet", "StaticOnce", "Park", "Rand", "ScopeEnd", "ThreadInfo", "LabelSet", "LabelGet", "TlsWith", "ResetSteps", "SemCancel", "CatchBegin", "CatchEnd", "Fail"];
                    if HARMLESS.contains(&kind.as_str()) {
                        continue;
                    }
                    out.violation(
                        format!("C02:no-choice-point-before:{}", kind),
                        format!("{} completed without any scheduling decision since the task's previous operation ({} times in this execution, e.g. {})", kind, n, example),
                        case_json(&case),
                    );
                }
            }
        }
        return out;
    }
    let p = gen_tiny(&mut rng);
    check_program(&p, tier.pick(600, 6000) as usize, &mut out);
    out
}

fn replay(case: &Value) -> RunOut {
    let mut out = RunOut::default();
    if super::c04::atomic_choicepoint_replay(case, &mut out) {
        return out;
    }
    if let Some(c) = case_from_json(case) {
        let r = run_case(&c);
        for (i, ex) in r.rt.execs.iter().enumerate() {
            let ls = crate::model::lockstep(&c.prog, ex, exec_ending(&r, i));
            if let Err(m) = &ls {
                if m.class == "enabled-task-not-offered" || m.class == "offered-set-inconsistent" {
                    out.violation(format!("C02:model:{}", m.class), m.detail.clone(), case.clone());
                }
            }
            if let Ok(st) = ls {
                for (kind, (n, example)) in &st.same_step {
                    if !["CallOnce", "LazyGet", "StaticOnce", "Park", "Rand", "ScopeEnd", "ThreadInfo", "LabelSet", "LabelGet", "TlsWith", "ResetSteps", "SemCancel", "CatchBegin", "CatchEnd", "Fail"].contains(&kind.as_str()) {
                        out.violation(format!("C02:no-choice-point-before:{}", kind), format!("{} x{} e.g. {}", kind, n, example), case.clone());
                    }
                }
            }
        }
        return out;
    }
    if let Some(p) = case.get("c02").and_then(|c| serde_json::from_value::<Program>(c.clone()).ok()) {
        let budget = case.get("budget").and_then(|b| b.as_u64()).unwrap_or(6000) as usize;
        check_program(&p, budget, &mut out);
    }
    let _ = ProgCase { prog: Program::default(), sim: crate::sim::SimCfg::new(0), max_steps: None };
    out
}
