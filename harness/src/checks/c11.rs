//! C11 — PCT: priority discipline (black-box), exact iteration count, determinism, and the
//! probabilistic guarantee on planted depth-d bugs.
//!
//! Black-box model of what PCT may do between two decisions (from the property statement):
//! every task has a priority; the offered task with the highest priority runs; the order changes
//! only (i) when a task is created, (ii) when the running task yields (it drops to the bottom),
//! (iii) at <= depth-1 change points, each of which drops the *running* task to the bottom, and
//! only at decisions with more than one offered task.
//!
//! From a decision trace we learn order facts: "x was chosen at decision t while o was offered"
//! means x is above o at t. If later o is chosen while x is offered, x must have been dropped in
//! between. The only silent way is a change point at a multi-choice, non-yield decision at which x
//! was the running task; explicit yields of x and task creations explain the drop for free. Each
//! unexplained flip therefore yields an interval on x's own timeline that must contain a change
//! point; the minimum number of points stabbing all intervals (greedy, per task) is a lower bound
//! on the number of change points PCT used, which must be <= depth-1. A flip with an EMPTY
//! interval means a task lost priority although it was never running: a violation by itself.

use super::schedutil::*;
use crate::coord::{Batch, Check, RunOut, Tier};
use crate::prog::{gen_program, run_program, take_monitor_violations, GenCfg, Program};
use crate::sim::{derive, hash_debug, quiet_config, run_recorded, Decision, Ending, ExecTrace, Rng, RunTrace};
use serde::{Deserialize, Serialize};
use serde_json::{json, Value};
use shuttle::scheduler::PctScheduler;
use std::collections::BTreeMap;
use std::sync::Arc;

const FIXED: u64 = 0xC11_5EED_0001;
const Z: f64 = 6.5;

#[derive(Clone, Debug, Serialize, Deserialize)]
pub enum Workload {
    Prog(Program),
    Shape(Shape),
}

#[derive(Clone, Debug, Serialize, Deserialize)]
pub struct Case {
    pub work: Workload,
    pub seed: u64,
    pub depth: usize,
    pub iters: usize,
}

pub fn check() -> Check {
    Check {
        id: "C11",
        level: "exploration",
        rule: "trace batches draw a workload (tree shapes with yields, locks, joins, spawn trees, 'wide' shapes with more than 16 tasks; prog.rs programs over all primitive families), a PCT seed, depth 1-5 and 2-12 iterations; every execution from the 2nd on is analysed with the black-box priority model (order facts from decisions, flips explained only by yield / task creation / change point of the running task; minimum number of change points by interval stabbing <= depth-1; no task loses priority while not running); the run must perform exactly the requested iterations and two runs with the same seed must be identical. The rate batch uses fixed internal seeds: planted depth-1/2/3 bugs with n = 2..4 tasks, >= 4e4 iterations each, hit rate (after PCT's step estimate has settled) one-sided against 1/(n*k^(d-1)) with k = PCT's own estimate = max number of multi-choice decisions, alarm only if rate + 6.5 sigma < guarantee. The positions batch (fixed seeds too) runs two yielding tasks at depth 2 and 3 and looks at the LAST multi-choice decision of every execution of maximal length k: whenever that decision is one at which a change point would be visible (running task offered, not yielding), it must sometimes be one (a preemption there is a depth-d bug like any other; alarm only if it never happens although >= 100 are expected). Distinct = (workload, seed, depth) hash; non-trivial = a run with a multi-choice decision",
        assumptions: &[
            "a white-box check of PCT's internal priorities (hook H1 of the design) is not possible without an accessor in the crate under test; only the black-box consequences are checked",
            "iteration 1 of a PCT run (the step-estimation run, no change points) is excluded from the priority analysis, as in the property statement",
            "statistical clauses use fixed internal seeds (not VERIF_SEED): deterministic on a given tree; one-sided test, 6.5 sigma",
            "n counts all tasks of the planted-bug program including the main thread",
        ],
        real_components: "real: PctScheduler, shuttle-engine runtime, shuttle-std primitives; oracle: black-box priority model + interval stabbing, fixed-seed hit-rate statistics",
        batches,
        run,
        replay,
        probes: &[
            "pct_runs",
            "executions_analysed",
            "switches_caused_by_yield",
            "order_flips_explained_by_creation",
            "order_flips_needing_change_point",
            "executions_at_depth_limit",
            "executions_with_2+_change_points",
            "wide_shape_over_16_tasks",
            "same_seed_runs_compared",
            "no_concurrency_panic",
            "rate_tests_depth1",
            "rate_tests_depth2",
            "rate_tests_depth3",
            "position_tests",
            "preemptions_at_the_last_multi_choice_step",
        ],
    }
}

fn batches(t: Tier) -> Vec<Batch> {
    vec![
        Batch::new("trace-shape", t.pick(4000, 80000), 100),
        Batch::new("trace-prog", t.pick(4000, 80000), 100),
        Batch::new("trace-wide", t.pick(300, 6000), 20),
        Batch::new("rates", RATE_CONFIGS.len() as u64 * t.pick(1, 3), 1),
        Batch::new("positions", POS_CONFIGS.len() as u64 * t.pick(1, 3), 1),
    ]
}

// ---------------------------------------------------------------------------------------------
// black-box analysis
// ---------------------------------------------------------------------------------------------

#[derive(Default, Debug)]
pub struct Analysis {
    pub violations: Vec<(String, String)>,
    pub change_points_needed: usize,
    pub by_yield: u64,
    pub by_creation: u64,
    pub needing_cp: u64,
    pub multi_choice: usize,
}

fn stab(mut iv: Vec<(usize, usize)>) -> usize {
    // intervals are inclusive index ranges; greedy by right end
    iv.sort_by_key(|x| x.1);
    let mut last: Option<usize> = None;
    let mut n = 0;
    for (lo, hi) in iv {
        if let Some(p) = last {
            if p >= lo {
                continue;
            }
        }
        last = Some(hi);
        n += 1;
    }
    n
}

pub fn analyse(decs: &[&Decision], depth: usize) -> Analysis {
    let mut an = Analysis::default();
    // above[(a, b)] = t : a was chosen at decision t while b was offered
    let mut above: BTreeMap<(u32, u32), (usize, bool)> = BTreeMap::new();
    // decisions at which a change point could have dropped task o
    let mut timeline: BTreeMap<u32, Vec<usize>> = BTreeMap::new();
    let mut intervals: BTreeMap<u32, Vec<(usize, usize)>> = BTreeMap::new();
    // last decision at which o was dropped by an explicit yield / at which a task was created
    let mut last_yield_drop: BTreeMap<u32, usize> = BTreeMap::new();
    let mut last_creation: Option<usize> = None;
    let mut max_seen: i64 = -1;
    for (j, d) in decs.iter().enumerate() {
        let x = match d.chosen {
            Some(x) => x,
            None => break,
        };
        let multi = d.offered.len() > 1;
        if multi {
            an.multi_choice += 1;
        }
        let newmax = d.offered.iter().map(|o| *o as i64).max().unwrap_or(-1);
        if newmax > max_seen {
            if max_seen >= 0 {
                last_creation = Some(j);
            }
            max_seen = newmax;
        }
        if let Some(c) = d.current {
            if multi {
                if d.yielding {
                    if x != c {
                        an.by_yield += 1;
                    }
                    last_yield_drop.insert(c, j);
                    // c is now below every other task
                    let dead: Vec<(u32, u32)> = above.keys().filter(|k| k.0 == c).cloned().collect();
                    for k in dead {
                        above.remove(&k);
                    }
                    for t in 0..=max_seen.max(0) as u32 {
                        if t != c {
                            above.insert((t, c), (j, true));
                        }
                    }
                } else {
                    timeline.entry(c).or_default().push(j);
                }
            }
        }
        for o in &d.offered {
            let o = *o;
            if o == x {
                continue;
            }
            if let Some((t, from_yield)) = above.get(&(o, x)).cloned() {
                // o was above x at t, now x is above o: o was dropped in (t, j]
                let yielded = last_yield_drop.get(&o).map(|y| *y > t).unwrap_or(false);
                let created = last_creation.map(|c| c > t).unwrap_or(false);
                if yielded {
                    // unreachable in practice: facts about a yielding task are dropped at the yield
                } else if created {
                    an.by_creation += 1;
                } else {
                    let tl = timeline.get(&o).map(|v| v.as_slice()).unwrap_or(&[]);
                    let lo = tl.partition_point(|p| *p <= t);
                    let hi = tl.partition_point(|p| *p <= j);
                    if lo >= hi {
                        an.violations.push((
                            if from_yield { "C11:priority-order-inconsistent-after-yield".to_string() } else { "C11:priority-lost-while-not-running".to_string() },
                            format!(
                                "task {} was {} task {} at decision {}, but at decision {} task {} is chosen although {} is offered; in between task {} never yielded, no task was created, and {} was never the running task at a multi-choice decision (decision {}: {:?})",
                                o, if from_yield { "above (because of the explicit yield of)" } else { "chosen over" }, x, t, j, x, o, o, o, j, d
                            ),
                        ));
                    } else {
                        an.needing_cp += 1;
                        intervals.entry(o).or_default().push((lo, hi - 1));
                    }
                }
                above.remove(&(o, x));
            }
            above.insert((x, o), (j, false));
        }
    }
    an.change_points_needed = intervals.into_values().map(stab).sum();
    if an.change_points_needed > depth.saturating_sub(1) {
        an.violations.push((
            "C11:more-change-points-than-depth-allows".to_string(),
            format!(
                "depth {}: the decision trace needs at least {} change points (order flips that neither a yield nor a task creation explains), allowed {}",
                depth,
                an.change_points_needed,
                depth.saturating_sub(1)
            ),
        ));
    }
    an
}

// ---------------------------------------------------------------------------------------------
// trace batches
// ---------------------------------------------------------------------------------------------

fn body_of(w: &Workload) -> Body {
    match w {
        Workload::Prog(p) => {
            let p = Arc::new(p.clone());
            Arc::new(move || run_program(&p))
        }
        Workload::Shape(s) => shape_body(s),
    }
}

fn wide_shape(rng: &mut Rng) -> Shape {
    // more than 16 tasks: PCT's priority table starts with 16 slots
    let w = rng.range(16, 22);
    let mut bodies = vec![vec![]; w + 1];
    for j in 1..=w {
        bodies[0].push(Step::Spawn(j));
        if rng.chance(1, 4) {
            bodies[0].push(Step::Yield);
        }
        let n = rng.range(0, 2);
        for _ in 0..n {
            bodies[j].push(match rng.below(3) {
                0 => Step::Yield,
                1 => Step::Inc(0),
                _ => Step::Lock(0, vec![]),
            });
        }
    }
    if rng.chance(1, 2) {
        let j = rng.range(1, w);
        bodies[0].push(Step::Join(j));
    }
    Shape { atomics: 1, mutexes: 1, bodies }
}

fn gen_case(batch: &str, rng: &mut Rng) -> Case {
    let work = match batch {
        "trace-wide" => Workload::Shape(wide_shape(rng)),
        "trace-shape" => {
            let cfg = ShapeCfg { bodies: (2, 6), steps: (0, 6), rand: rng.chance(1, 4), locks: rng.chance(1, 2), joins: rng.chance(1, 2), dependent: rng.chance(1, 3), yields: rng.chance(3, 4), nested_spawn: rng.chance(1, 2) };
            Workload::Shape(gen_shape(rng, &cfg))
        }
        _ => {
            let mut cfg = GenCfg::swarm(rng);
            cfg.yields = rng.chance(2, 3);
            cfg.max_ops = rng.range(3, 7);
            Workload::Prog(gen_program(rng, &cfg))
        }
    };
    Case { work, seed: rng.next_u64(), depth: rng.range(1, 5), iters: rng.range(2, 12) }
}

fn run_pct(c: &Case) -> (Ending, RunTrace) {
    let body = body_of(&c.work);
    let _ = take_monitor_violations();
    let r = run_recorded(PctScheduler::new_from_seed(c.seed, c.depth, c.iters), quiet_config(), move || body());
    let _ = take_monitor_violations();
    r
}

fn exec_diff(a: &ExecTrace, b: &ExecTrace) -> Option<String> {
    if a.seed != b.seed {
        return Some(format!("seeds differ: {} vs {}", a.seed, b.seed));
    }
    if a.items != b.items {
        let n = a.items.iter().zip(b.items.iter()).position(|(x, y)| x != y).unwrap_or(a.items.len().min(b.items.len()));
        return Some(format!("decision/draw traces differ at item {}: {:?} vs {:?}", n, a.items.get(n), b.items.get(n)));
    }
    crate::sim::events_diff(a, b)
}

fn expected_panic(m: &str) -> bool {
    m.starts_with("deadlock! blocked tasks") || m.starts_with("fail:") || m.contains("did not exercise any concurrency")
}

fn check_case(c: &Case, out: &mut RunOut) -> Option<(Ending, RunTrace)> {
    std::env::remove_var("SHUTTLE_RANDOM_SEED");
    let cj = || json!({"c11": c});
    let a = run_pct(c);
    let b = run_pct(c);
    out.count("pct_runs", 1);
    out.evals += (a.1.execs.len() + b.1.execs.len()) as u64;
    // (b) determinism + iteration count
    let mut same = a.0 == b.0 && a.1.execs.len() == b.1.execs.len();
    let mut why = format!("endings {:?} vs {:?}, {} vs {} executions", a.0, b.0, a.1.execs.len(), b.1.execs.len());
    if same {
        for (i, (x, y)) in a.1.execs.iter().zip(b.1.execs.iter()).enumerate() {
            if let Some(d) = exec_diff(x, y) {
                same = false;
                why = format!("iteration {}: {}", i, d);
                break;
            }
        }
    }
    if !same {
        out.violation("C11:same-seed-runs-differ", format!("PCT seed {} depth {} x {}: {}", c.seed, c.depth, c.iters, why), cj());
        return None;
    }
    out.count("same_seed_runs_compared", 1);
    match &a.0 {
        Ending::Returned(n) => {
            if *n != c.iters || a.1.execs.len() != c.iters {
                out.violation("C11:iteration-count", format!("asked for {} iterations: Runner returned {}, {} executions were started", c.iters, n, a.1.execs.len()), cj());
            }
        }
        Ending::Panicked(m) => {
            if !expected_panic(m) {
                out.violation("C11:unexpected-panic", m.clone(), cj());
                return None;
            }
            if m.contains("did not exercise any concurrency") {
                out.count("no_concurrency_panic", 1);
                // legal only if iteration 1 had no multi-choice decision
                let multi = a.1.execs.first().map(|e| e.decisions().any(|d| d.offered.len() > 1)).unwrap_or(false);
                if multi || a.1.execs.len() != 1 {
                    out.violation("C11:no-concurrency-panic-despite-choices", format!("{} executions, first had a multi-choice decision: {}", a.1.execs.len(), multi), cj());
                }
            }
        }
    }
    // (a) black-box priority analysis of iterations >= 2
    let mut any_multi = false;
    for (i, ex) in a.1.execs.iter().enumerate() {
        let decs: Vec<&Decision> = ex.decisions().collect();
        out.decisions += decs.len() as u64;
        if decs.iter().any(|d| d.offered.len() > 1) {
            any_multi = true;
        }
        if i == 0 {
            continue;
        }
        let an = analyse(&decs, c.depth);
        out.count("executions_analysed", 1);
        out.count("switches_caused_by_yield", an.by_yield);
        out.count("order_flips_explained_by_creation", an.by_creation);
        out.count("order_flips_needing_change_point", an.needing_cp);
        if c.depth > 1 && an.change_points_needed == c.depth - 1 {
            out.count("executions_at_depth_limit", 1);
        }
        if an.change_points_needed >= 2 {
            out.count("executions_with_2+_change_points", 1);
        }
        if decs.iter().any(|d| d.offered.iter().any(|o| *o >= 16)) {
            out.count("wide_shape_over_16_tasks", 1);
        }
        for (k, d) in an.violations {
            out.violation(k, format!("PCT seed {} depth {} iteration {}: {}", c.seed, c.depth, i, d), cj());
        }
    }
    if any_multi {
        out.distinct.push(hash_debug(&(&c.work, c.seed, c.depth)));
    }
    Some(a)
}

// ---------------------------------------------------------------------------------------------
// planted bugs
// ---------------------------------------------------------------------------------------------

#[derive(Clone, Copy, Debug, Serialize, Deserialize)]
pub struct Bug {
    pub depth: usize,
    /// all tasks including main
    pub n: usize,
    pub pre: usize,
    pub post: usize,
    /// depth 3 only: the second change point must fall on the LAST multi-choice decision of the
    /// longest execution (A does all but its last operation, then B all but its last, then A's
    /// last, then B's last); pre / post are the operation counts of A and B
    #[serde(default)]
    pub tail: bool,
}

const RATE_CONFIGS: &[Bug] = &[
    Bug { depth: 1, n: 2, pre: 2, post: 2, tail: false },
    Bug { depth: 1, n: 3, pre: 2, post: 2, tail: false },
    Bug { depth: 1, n: 4, pre: 1, post: 1, tail: false },
    Bug { depth: 2, n: 2, pre: 2, post: 2, tail: false },
    Bug { depth: 2, n: 3, pre: 2, post: 1, tail: false },
    Bug { depth: 2, n: 3, pre: 4, post: 4, tail: false },
    Bug { depth: 2, n: 4, pre: 1, post: 1, tail: false },
    Bug { depth: 3, n: 2, pre: 1, post: 1, tail: false },
    Bug { depth: 3, n: 3, pre: 1, post: 1, tail: false },
    Bug { depth: 3, n: 3, pre: 2, post: 2, tail: false },
    Bug { depth: 3, n: 4, pre: 1, post: 0, tail: false },
    Bug { depth: 3, n: 2, pre: 3, post: 3, tail: true },
    Bug { depth: 3, n: 2, pre: 2, post: 4, tail: true },
];

const HIT: u32 = 0xB06;

fn bug_body(b: Bug) -> Body {
    use shuttle::sync::atomic::{AtomicUsize, Ordering::SeqCst};
    use shuttle::thread;
    Arc::new(move || {
        let x = Arc::new(AtomicUsize::new(0));
        let y = Arc::new(AtomicUsize::new(0));
        let pad = Arc::new(AtomicUsize::new(0));
        if b.tail {
            // A = main (pre operations), B = the spawned thread (post operations), one scheduling
            // point per operation. Hit iff A's first pre-1 operations precede B's first, B's first
            // post-1 precede A's last, and A's last precedes B's last.
            let saw_a = Arc::new(std::sync::atomic::AtomicBool::new(false));
            let bb = {
                let (x, y, saw_a) = (x.clone(), y.clone(), saw_a.clone());
                move || {
                    if x.load(SeqCst) == b.pre - 1 {
                        saw_a.store(true, std::sync::atomic::Ordering::SeqCst);
                    }
                    for _ in 0..b.post.saturating_sub(2) {
                        y.fetch_add(1, SeqCst);
                    }
                    if y.load(SeqCst) >= 1000 && saw_a.load(std::sync::atomic::Ordering::SeqCst) {
                        mark(HIT);
                    }
                }
            };
            thread::spawn(bb);
            for _ in 0..b.pre - 1 {
                x.fetch_add(1, SeqCst);
            }
            // A's last operation (one read-modify-write, one scheduling point): succeeds only if B
            // has done all but its last operation; B's final load then sees the marker
            let _ = y.compare_exchange(b.post.saturating_sub(2), 1000, SeqCst, SeqCst);
            let _ = pad;
            return;
        }
        match b.depth {
            1 => {
                // hit iff the last worker performs its first operation after everybody else is done
                let done = x.clone();
                for j in 1..b.n {
                    let done = done.clone();
                    let pad = pad.clone();
                    let last = j == b.n - 1;
                    let n = b.n;
                    thread::spawn(move || {
                        if last {
                            if done.load(SeqCst) == n - 1 {
                                mark(HIT);
                            }
                            for _ in 0..b.post {
                                pad.fetch_add(1, SeqCst);
                            }
                        } else {
                            for _ in 0..b.pre {
                                pad.fetch_add(1, SeqCst);
                            }
                            done.fetch_add(1, SeqCst);
                        }
                    });
                }
                done.fetch_add(1, SeqCst);
            }
            2 => {
                // A opens a one-step window (x == 1); hit iff B's first operation falls into it
                let a = {
                    let x = x.clone();
                    let pad = pad.clone();
                    move || {
                        for _ in 0..b.pre {
                            pad.fetch_add(1, SeqCst);
                        }
                        x.store(1, SeqCst);
                        x.store(2, SeqCst);
                        for _ in 0..b.post {
                            pad.fetch_add(1, SeqCst);
                        }
                    }
                };
                let bb = {
                    let x = x.clone();
                    move || {
                        if x.load(SeqCst) == 1 {
                            mark(HIT);
                        }
                    }
                };
                if b.n == 2 {
                    thread::spawn(bb);
                    a();
                } else {
                    thread::spawn(a);
                    thread::spawn(bb);
                    for _ in 3..b.n {
                        let pad = pad.clone();
                        thread::spawn(move || {
                            pad.fetch_add(1, SeqCst);
                        });
                    }
                }
            }
            _ => {
                // two nested windows: B reads x inside A's window, then A reads y inside B's window
                let saw = Arc::new(std::sync::atomic::AtomicBool::new(false));
                let a = {
                    let (x, y, pad, saw) = (x.clone(), y.clone(), pad.clone(), saw.clone());
                    move || {
                        for _ in 0..b.pre {
                            pad.fetch_add(1, SeqCst);
                        }
                        x.store(1, SeqCst);
                        x.store(2, SeqCst);
                        for _ in 0..b.post {
                            pad.fetch_add(1, SeqCst);
                        }
                        if y.load(SeqCst) == 1 && saw.load(std::sync::atomic::Ordering::SeqCst) {
                            mark(HIT);
                        }
                    }
                };
                let bb = {
                    let (x, y, saw) = (x.clone(), y.clone(), saw.clone());
                    move || {
                        if x.load(SeqCst) == 1 {
                            saw.store(true, std::sync::atomic::Ordering::SeqCst);
                        }
                        y.store(1, SeqCst);
                        y.store(2, SeqCst);
                    }
                };
                if b.n == 2 {
                    thread::spawn(bb);
                    a();
                } else {
                    thread::spawn(a);
                    thread::spawn(bb);
                    for _ in 3..b.n {
                        let pad = pad.clone();
                        thread::spawn(move || {
                            pad.fetch_add(1, SeqCst);
                        });
                    }
                }
            }
        }
    })
}

fn run_rates(idx: u64, tier: Tier, out: &mut RunOut) {
    std::env::remove_var("SHUTTLE_RANDOM_SEED");
    let bug = RATE_CONFIGS[(idx as usize) % RATE_CONFIGS.len()];
    let round = idx / RATE_CONFIGS.len() as u64;
    let fixed = derive(FIXED, "rates", idx);
    let iters = tier.pick(40_000, 200_000) as usize;
    let body = bug_body(bug);
    let (ending, execs) = run_tapped(PctScheduler::new_from_seed(fixed, bug.depth, iters), quiet_config(), body, true);
    out.evals += execs.len() as u64;
    let case = json!({"c11rate": idx, "tier": tier.name()});
    if ending != Ending::Returned(iters) || execs.len() != iters {
        out.violation("C11:iteration-count", format!("planted bug {:?}: asked for {} iterations, run ended {:?} after {} executions", bug, iters, ending, execs.len()), case);
        return;
    }
    // PCT's own estimate of k: the maximum number of multi-choice decisions seen so far
    let mc: Vec<usize> = execs.iter().map(|e| e.multi_choice()).collect();
    let k = mc.iter().cloned().max().unwrap_or(0);
    let settled = mc.iter().position(|m| *m == k).unwrap_or(0);
    let counted = &execs[(settled + 1).max(1)..];
    let m = counted.len();
    let hits = counted.iter().filter(|e| e.marks.contains(&HIT)).count();
    for e in &execs {
        out.decisions += e.decs.len() as u64;
    }
    if m < iters / 2 {
        out.violation("C11:harness:estimate-settled-too-late", format!("planted bug {:?}: k={} first reached at iteration {}", bug, k, settled), case);
        return;
    }
    let g = 1.0 / (bug.n as f64 * (k as f64).powi(bug.depth as i32 - 1));
    let rate = hits as f64 / m as f64;
    let sigma = (g * (1.0 - g) / m as f64).sqrt();
    out.count(&format!("rate_tests_depth{}", bug.depth), 1);
    out.distinct.push(hash_debug(&(idx, fixed)));
    let row = json!({"bug": bug, "round": round, "fixed_seed": fixed, "k": k, "settled_at": settled, "iterations_counted": m, "hits": hits, "rate": (rate * 1e5).round() / 1e5, "guarantee": (g * 1e5).round() / 1e5, "alarm_below": ((g - Z * sigma) * 1e5).round() / 1e5});
    if std::env::var("VERIF_C11_DEBUG").is_ok() {
        eprintln!("{}", row);
        if let Some(e) = counted.iter().find(|e| e.marks.contains(&HIT)) {
            eprintln!("first hit: {:?}", e.decs.iter().map(|d| (d.n, d.current, d.chosen, d.yielding)).collect::<Vec<_>>());
        }
        if let Some(e) = counted.iter().find(|e| e.multi_choice() == k) {
            eprintln!("first of length k: {:?} hit={}", e.decs.iter().map(|d| (d.n, d.current, d.chosen, d.yielding)).collect::<Vec<_>>(), e.marks.contains(&HIT));
        }
    }
    if rate + Z * sigma < g {
        out.violation(
            format!("C11:hit-rate-below-guarantee:d{}n{}", bug.depth, bug.n),
            format!(
                "planted depth-{} bug with n={} tasks (pre {}, post {}), PCT seed {} depth {}: {} hits in {} iterations = {:.5}, guarantee 1/(n*k^(d-1)) = {:.5} with k = {} (PCT's own estimate); {:.1} sigma below",
                bug.depth,
                bug.n,
                bug.pre,
                bug.post,
                fixed,
                bug.depth,
                hits,
                m,
                rate,
                g,
                k,
                (g - rate) / sigma
            ),
            case,
        );
    }
    if hits == 0 {
        out.count("rate_test_without_any_hit", 1);
    }
    if out.sample.is_none() {
        out.sample = Some(row);
    }
}

// ---------------------------------------------------------------------------------------------
// change-point positions: the last multi-choice step must be reachable
// ---------------------------------------------------------------------------------------------

/// (depth, rounds of A, rounds of B): A = main and B = the spawned thread alternate
/// `fetch_add; yield_now` and end with one more `fetch_add`. Yields demote the running task for
/// free, so executions of maximal length need no change point and every index up to k-1 is the
/// position of a possible depth-2 bug.
const POS_CONFIGS: &[(usize, usize, usize)] = &[(3, 2, 3), (3, 2, 2), (3, 1, 2), (2, 2, 2)];

fn run_positions(idx: u64, tier: Tier, out: &mut RunOut) {
    use shuttle::sync::atomic::{AtomicUsize, Ordering::SeqCst};
    use shuttle::thread;
    std::env::remove_var("SHUTTLE_RANDOM_SEED");
    let (depth, ra, rb) = POS_CONFIGS[(idx as usize) % POS_CONFIGS.len()];
    let fixed = derive(FIXED, "positions", idx);
    let iters = tier.pick(40_000, 200_000) as usize;
    let body: Body = Arc::new(move || {
        let x = Arc::new(AtomicUsize::new(0));
        let y = x.clone();
        thread::spawn(move || {
            for _ in 0..rb {
                y.fetch_add(1, SeqCst);
                thread::yield_now();
            }
            y.fetch_add(1, SeqCst);
        });
        for _ in 0..ra {
            x.fetch_add(1, SeqCst);
            thread::yield_now();
        }
        x.fetch_add(1, SeqCst);
    });
    let (ending, execs) = run_tapped(PctScheduler::new_from_seed(fixed, depth, iters), quiet_config(), body, true);
    out.evals += execs.len() as u64;
    let case = json!({"c11pos": idx, "tier": tier.name()});
    if ending != Ending::Returned(iters) || execs.len() != iters {
        out.violation("C11:iteration-count", format!("positions workload {:?}: asked for {} iterations, run ended {:?} after {} executions", (depth, ra, rb), iters, ending, execs.len()), case);
        return;
    }
    let mc: Vec<usize> = execs.iter().map(|e| e.multi_choice()).collect();
    let k = mc.iter().cloned().max().unwrap_or(0);
    let settled = mc.iter().position(|m| *m == k).unwrap_or(0);
    let counted = &execs[(settled + 1).max(1)..];
    let mut candidates = 0u64;
    let mut preempted = 0u64;
    for e in counted {
        out.decisions += e.decs.len() as u64;
        if e.multi_choice() != k {
            continue;
        }
        let last = match e.decs.iter().rev().find(|d| d.n > 1) {
            Some(d) => d,
            None => continue,
        };
        let vis = |d: &TapDec| d.n > 1 && d.current != 255 && d.current < 64 && (d.mask >> d.current) & 1 == 1 && !d.yielding;
        let visible = vis(last);
        // change points already spent before the last step: visible preemptions that are not
        // explained by the creation of a task (a decision that offers a task for the first time)
        let n_multi = e.decs.iter().filter(|d| d.n > 1).count();
        let mut seen_mask = 0u64;
        let mut spent = 0usize;
        let mut multi_seen = 0usize;
        for d in e.decs.iter() {
            let fresh = d.mask & !seen_mask != 0;
            seen_mask |= d.mask;
            if d.n > 1 {
                multi_seen += 1;
                if multi_seen < n_multi && !fresh && vis(d) && d.chosen != d.current {
                    spent += 1;
                }
            }
        }
        if visible && spent < depth - 1 {
            candidates += 1;
            if last.chosen != last.current {
                preempted += 1;
            }
        }
    }
    out.count("position_tests", 1);
    out.count("preemptions_at_the_last_multi_choice_step", preempted);
    out.distinct.push(hash_debug(&("pos", idx, fixed)));
    let row = json!({"positions_workload": {"depth": depth, "rounds_a": ra, "rounds_b": rb}, "fixed_seed": fixed, "k": k, "settled_at": settled, "executions_of_length_k_with_a_visible_last_step": candidates, "preempted_there": preempted});
    if std::env::var("VERIF_C11_DEBUG").is_ok() {
        eprintln!("{}", row);
    }
    if preempted == 0 && k > 1 && candidates as f64 / (k as f64 - 1.0) >= 100.0 {
        out.violation(
            format!("C11:last-step-never-a-change-point:d{}", depth),
            format!(
                "two yielding tasks ({} / {} rounds), PCT seed {} depth {}: in {} executions of maximal length k = {} the last multi-choice decision was one at which the running task could have been demoted, and it never was (about {:.0} expected if change points are placed over all k-1 steps): a depth-{} bug that needs the preemption there has hit probability 0 < 1/(n*k^(d-1))",
                ra, rb, fixed, depth, candidates, k, candidates as f64 / (k as f64 - 1.0), depth
            ),
            case,
        );
    }
    if out.sample.is_none() {
        out.sample = Some(row);
    }
}

fn run(batch: &str, idx: u64, seed: u64, tier: Tier) -> RunOut {
    let mut out = RunOut::default();
    if batch == "rates" {
        run_rates(idx, tier, &mut out);
        return out;
    }
    if batch == "positions" {
        run_positions(idx, tier, &mut out);
        return out;
    }
    let mut rng = Rng::new(seed);
    let case = gen_case(batch, &mut rng);
    let r = check_case(&case, &mut out);
    if out.sample.is_none() {
        if let Some(r) = r {
            if r.1.execs.len() > 1 && r.1.execs[1].switches() > 2 {
                out.sample = Some(json!({"workload": case.work, "seed": case.seed, "depth": case.depth, "iterations": case.iters, "iteration_2_chosen": r.1.execs[1].chosen_seq()}));
            }
        }
    }
    out
}

fn replay(case: &Value) -> RunOut {
    let mut out = RunOut::default();
    if let Some(c) = case.get("c11").and_then(|c| serde_json::from_value::<Case>(c.clone()).ok()) {
        check_case(&c, &mut out);
    } else if let Some(idx) = case.get("c11rate").and_then(|c| c.as_u64()) {
        let tier = if case.get("tier").and_then(|t| t.as_str()) == Some("thorough") { Tier::Thorough } else { Tier::Quick };
        run_rates(idx, tier, &mut out);
    } else if let Some(idx) = case.get("c11pos").and_then(|c| c.as_u64()) {
        let tier = if case.get("tier").and_then(|t| t.as_str()) == Some("thorough") { Tier::Thorough } else { Tier::Quick };
        run_positions(idx, tier, &mut out);
    }
    out
}
