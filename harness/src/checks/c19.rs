//! C19 — the tokio-compatible primitives keep tokio's documented contracts.
//!
//! Seeded async (and blocking) programs over shuttle-tokio-impl-inner run under SimSched; oracles:
//! model-independent history monitors, the lockstep powerset checker over reference models of the
//! tokio contracts, exclusion monitors in the interpreter, the scheduler-contract monitor.

use super::c19_gen::{directed, gen_program, DIRECTED, FAMILIES};
use super::c19_lock::{history_monitors, lockstep, Mismatch, Stats};
use super::c19_micro_b::op_for_label;
use super::c19_model::Hyp;
use super::c19_prog::{neutralize_timeouts, run_tprogram, take_monitor_violations, uses_timeouts, Op, TProgram};
use super::common::random_policy;
use crate::coord::{Batch, Check, RunOut, Tier};
use crate::sim::{contract_findings, hash_debug, quiet_config, run_recorded, Ending, ExecTrace, Rng, RunTrace, SimCfg, SimSched};
use serde::{Deserialize, Serialize};
use serde_json::{json, Value};
use std::collections::{BTreeMap, BTreeSet};
use std::sync::Arc;

pub fn check() -> Check {
    Check {
        id: "C19",
        level: "exploration",
        rule: "each run draws a program over one family of tokio-compatible primitives (Semaphore, Mutex, RwLock, mpsc bounded/unbounded, oneshot, watch incl. cloned senders, Notify, task spawn/JoinHandle/abort; a mixed family; a directed batch of scenario templates), 2-4 bodies (async tasks and plain threads using the blocking variants) of 1-5 operations, fault combinators drawn from the seed (cancel_future after 0/1/2 polls, abort, drop_endpoint, close, timeout + trigger_timeouts), a scheduling policy and a seed; the real wrappers run under SimSched for 3 executions; history monitors, the lockstep powerset oracle over reference models written from the tokio documentation, exclusion monitors and the deadlock / panic verdict are checked. Distinct = (program, chosen task sequence); non-trivial = at least one switch between tasks",
        assumptions: &[
            "reference models in harness/src/checks/c19_model.rs / c19_micro_*.rs encode the documented tokio semantics (tokio 1.53 docs and source consulted)",
            "programs are small (<= 4 bodies, <= 5 operations each plus spawns/joins)",
            "entry points that are unimplemented!() (poll_recv, reserve*, mpsc Sender::closed) are not generated",
        ],
        real_components: "real: shuttle-engine runtime, BatchSemaphore, shuttle-std future executor, every wrapper under wrappers/tokio/impls/tokio/inner/src/{sync,task,time}; model: c19_model/c19_micro_* used only as oracle",
        batches,
        run,
        replay,
        probes: &[
            "fault_cancel_future_fired",
            "fault_abort_took_effect",
            "fault_abort_cancelled_pending_op",
            "fault_drop_endpoint",
            "fault_close",
            "fault_timeout_fired",
            "blocking_variant_completed",
            "deadlock_verdict_confirmed",
            "ending_pass",
        ],
    }
}

fn batches(t: Tier) -> Vec<Batch> {
    vec![
        Batch::new("directed", t.pick(1800, 36000), 25),
        // programs using time::timeout + trigger_timeouts (see c19_prog::neutralize_timeouts)
        Batch::new("timeout", t.pick(1500, 36000), 25),
        Batch::new("swarm", t.pick(13000, 330000), 25),
        Batch::new("mixed", t.pick(2200, 60000), 25),
    ]
}

thread_local! {
    static SHRUNK: std::cell::RefCell<BTreeSet<String>> = const { std::cell::RefCell::new(BTreeSet::new()) };
}

#[derive(Clone, Debug, Serialize, Deserialize)]
pub struct TCase {
    pub prog: TProgram,
    pub sim: SimCfg,
}

#[derive(Clone, Debug)]
pub struct Finding {
    pub key: String,
    pub detail: String,
}

pub struct TRun {
    pub ending: Ending,
    pub rt: RunTrace,
    pub monitors: Vec<String>,
}

pub fn run_case(case: &TCase) -> TRun {
    let prog = Arc::new(case.prog.clone());
    let _ = take_monitor_violations();
    let (ending, rt) = run_recorded(SimSched::new(case.sim.clone()), quiet_config(), move || run_tprogram(&prog));
    if uses_timeouts(&case.prog) {
        neutralize_timeouts();
    }
    TRun { ending, rt, monitors: take_monitor_violations() }
}

fn hypotheses() -> Vec<(&'static str, Hyp)> {
    vec![
        ("mpsc:capacity-not-returned:blocking_recv", Hyp { cap_not_returned: Some("blocking_recv"), ..Default::default() }),
        ("mpsc:capacity-not-returned:try_recv", Hyp { cap_not_returned: Some("try_recv"), ..Default::default() }),
        ("mpsc:capacity-not-returned:recv", Hyp { cap_not_returned: Some("recv"), ..Default::default() }),
        ("notify:dropped-notified-loses-notification", Hyp { dropped_notified_no_forward: true, ..Default::default() }),
        ("notify:notify_waiters-clears-permit", Hyp { nw_clears_permit: true, ..Default::default() }),
        ("notify:notify_waiters-skips-unpolled-waiters", Hyp { nw_skips_init: true, ..Default::default() }),
    ]
}

fn family_of(op: &Op) -> &'static str {
    match op.core() {
        Op::Spawn(_) | Op::Join(_) | Op::Abort(_) | Op::DropHandle(_) | Op::IsFinished(_) | Op::Yield => "task",
        Op::Acquire(..) | Op::TryAcquire(..) | Op::Release(_) | Op::AddPermits(..) | Op::Forget(_) | Op::Split(..) | Op::Merge(_) | Op::CloseSem(_) | Op::SemClosed(_) | Op::Available(_) => "semaphore",
        Op::Lock(_) | Op::TryLock(_) | Op::Unlock(_) => "mutex",
        Op::Read(_) | Op::Write(_) | Op::TryRead(_) | Op::TryWrite(_) | Op::UnlockRead(_) | Op::UnlockWrite(_) | Op::Downgrade(_) => "rwlock",
        Op::Send(_) | Op::TrySend(_) | Op::Recv(_) | Op::TryRecv(_) | Op::CloseRx(_) | Op::DropTx(_) | Op::DropRx(_) | Op::Capacity(_) | Op::TxClosed(_) => "mpsc",
        Op::OsSend(_) | Op::OsRecv(_) | Op::OsTryRecv(_) | Op::OsClose(_) | Op::OsDropTx(_) | Op::OsDropRx(_) | Op::OsTxClosed(_) => "oneshot",
        Op::WSend(_) | Op::WSendReplace(_) | Op::WSendIfModified(..) | Op::WBorrow(_) | Op::WBorrowUpdate(_) | Op::WTxBorrow(_) | Op::WChanged(_) | Op::WHasChanged(_) | Op::WSubscribe(_) | Op::WDropRx(_) | Op::WDropTx(_) | Op::WRxCount(_) | Op::WClosed(_) => "watch",
        Op::NCreate(..) | Op::NEnable(_) | Op::NAwait(_) | Op::NDrop(_) | Op::Notified(_) | Op::NotifyOne(_) | Op::NotifyWaiters(_) => "notify",
        Op::Trigger(_) | Op::Cancel(..) | Op::Timeout(_) => "time",
    }
}

/// operations in flight (Start without End / Cancel) at the end of an execution: (body, op)
fn in_flight(p: &TProgram, ex: &ExecTrace) -> Vec<(usize, Op)> {
    let mut body_of: BTreeMap<u32, usize> = BTreeMap::new();
    let mut open: BTreeMap<usize, String> = BTreeMap::new();
    for e in &ex.events {
        if e.kind == "B" {
            if let Ok(b) = e.op.parse::<usize>() {
                body_of.insert(e.task, b);
            }
        }
        if let Some(b) = body_of.get(&e.task) {
            match e.kind.as_str() {
                "S" => {
                    open.insert(*b, e.op.clone());
                }
                "E" | "C" => {
                    open.remove(b);
                }
                _ => {}
            }
        }
    }
    open.into_iter().filter_map(|(b, l)| op_for_label(p, b, &l).map(|(o, _)| (b, o))).collect()
}

/// Name a mismatch: the first defect hypothesis under which the whole execution is explained
/// (others that explain it too are listed), else a generic key from the mismatch itself.
fn name_mismatch(case: &TCase, ex: &ExecTrace, ending: Option<&str>, m: &Mismatch) -> (String, String) {
    let mut explained: Vec<&'static str> = vec![];
    for (key, h) in hypotheses() {
        // only hypotheses about primitives the program uses
        if (key.starts_with("mpsc") && case.prog.res.chans.iter().all(|b| b.is_none())) || (key.starts_with("notify") && case.prog.res.notifies == 0 && case.prog.res.watches.is_empty()) {
            continue;
        }
        if lockstep(&case.prog, &h, ex, ending).is_ok() {
            explained.push(key);
        }
    }
    if let Some(first) = explained.first() {
        let also = if explained.len() > 1 { format!(" [also explained by {:?}]", &explained[1..]) } else { String::new() };
        return (format!("C19:{}", first), also);
    }
    let key = match &m.op {
        Some(op) => format!("C19:{}:{}:{}", family_of(op), m.class, op.kind()),
        None => format!("C19:model:{}", m.class),
    };
    (key, String::new())
}

pub fn findings_of(case: &TCase, run: &TRun, stats: &mut Vec<Stats>) -> Vec<Finding> {
    let mut f = vec![];
    for m in &run.monitors {
        let cls = if m.contains("mutex") { "mutex:exclusion" } else { "rwlock:exclusion" };
        f.push(Finding { key: format!("C19:{}", cls), detail: m.clone() });
    }
    for c in contract_findings(&run.rt) {
        f.push(Finding { key: "C19:scheduler-contract".into(), detail: c });
    }
    let n = run.rt.execs.len();
    for (i, ex) in run.rt.execs.iter().enumerate() {
        let ending: Option<&str> = match &run.ending {
            Ending::Panicked(m) if i + 1 == n => Some(m.as_str()),
            _ => None,
        };
        if let Some(msg) = ending {
            if !msg.starts_with("deadlock!") {
                let fl = in_flight(&case.prog, ex);
                let key = if msg.contains("num_permits > 0") && fl.iter().any(|(_, o)| matches!(o.core(), Op::Acquire(_, 0) | Op::TryAcquire(_, 0))) {
                    "C19:semaphore:acquire-zero-panics".to_string()
                } else if msg.starts_with("exceeded max_steps") {
                    "C19:step-bound-hang".to_string()
                } else {
                    let cls: String = msg.chars().take(48).map(|c| if c.is_ascii_alphanumeric() { c } else { '-' }).collect();
                    let fam = fl.first().map(|(_, o)| family_of(o)).unwrap_or("none");
                    format!("C19:unexpected-panic:{}:{}", fam, cls)
                };
                f.push(Finding { key, detail: format!("exec {}: panic {:?}; operations in flight {:?}", i, msg, fl) });
            }
        }
        let t0 = std::time::Instant::now();
        let lr = lockstep(&case.prog, &Hyp::default(), ex, ending);
        if std::env::var("C19_TIMING").is_ok() {
            eprintln!("TIMING lockstep exec {} {:?} events {} -> {} max_states {:?}", i, t0.elapsed(), ex.events.len(), lr.is_ok(), lr.as_ref().ok().map(|s| s.max_states));
        }
        match lr {
            Ok(st) => stats.push(st),
            Err(m) => {
                let (key, also) = name_mismatch(case, ex, ending, &m);
                f.push(Finding { key, detail: format!("exec {} step {}: {}: {}{}", i, m.step, m.class, m.detail, also) });
            }
        }
        for (k, d) in history_monitors(&case.prog, ex) {
            f.push(Finding { key: format!("C19:history:{}", k), detail: format!("exec {}: {}", i, d) });
        }
    }
    f
}

fn shrink_candidates(p: &TProgram) -> Vec<TProgram> {
    let mut v = vec![];
    for b in (0..p.bodies.len()).rev() {
        if b > 0 && !p.bodies[b].ops.is_empty() {
            let mut q = p.clone();
            q.bodies[b].ops.clear();
            v.push(q);
        }
        for i in (0..p.bodies[b].ops.len()).rev() {
            let mut q = p.clone();
            q.bodies[b].ops.remove(i);
            v.push(q);
            if let Op::Cancel(inner, ..) | Op::Timeout(inner) = &p.bodies[b].ops[i] {
                let mut q = p.clone();
                q.bodies[b].ops[i] = (**inner).clone();
                v.push(q);
            }
        }
        if p.bodies[b].thread {
            let mut q = p.clone();
            q.bodies[b].thread = false;
            v.push(q);
        }
    }
    v
}

fn shrink_case(case: &TCase, key: &str, budget: usize) -> TCase {
    let mut best = case.clone();
    let mut tries = 0;
    loop {
        let mut improved = false;
        for cand in shrink_candidates(&best.prog) {
            if tries >= budget {
                return best;
            }
            tries += 1;
            let mut c = best.clone();
            c.prog = cand;
            let run = run_case(&c);
            let mut st = vec![];
            if findings_of(&c, &run, &mut st).iter().any(|f| f.key == key) {
                best = c;
                improved = true;
                break;
            }
        }
        if !improved {
            return best;
        }
    }
}

fn count_probes(case: &TCase, run: &TRun, out: &mut RunOut) {
    for ex in &run.rt.execs {
        let mut body_of: BTreeMap<u32, usize> = BTreeMap::new();
        for e in &ex.events {
            if e.kind == "B" {
                if let Ok(b) = e.op.parse::<usize>() {
                    body_of.insert(e.task, b);
                }
            }
            let b = match body_of.get(&e.task) {
                Some(b) => *b,
                None => continue,
            };
            match e.kind.as_str() {
                "C" => out.count("fault_abort_cancelled_pending_op", 1),
                "X" if e.val == "aborted" => out.count("fault_abort_took_effect", 1),
                "E" => {
                    let op = match op_for_label(&case.prog, b, &e.op) {
                        Some((o, _)) => o,
                        None => continue,
                    };
                    if e.val == "cancelled" {
                        out.count("fault_cancel_future_fired", 1);
                        out.count(&format!("cancelled_{}", op.kind()), 1);
                    }
                    if e.val == "elapsed" {
                        out.count("fault_timeout_fired", 1);
                    }
                    if e.val == "skip" || e.val == "ready:skip" {
                        continue;
                    }
                    match op.core() {
                        Op::DropTx(_) | Op::DropRx(_) | Op::OsDropTx(_) | Op::OsDropRx(_) | Op::WDropRx(_) | Op::WDropTx(_) | Op::DropHandle(_) | Op::NDrop(_) => out.count("fault_drop_endpoint", 1),
                        Op::CloseRx(_) | Op::CloseSem(_) | Op::OsClose(_) => out.count("fault_close", 1),
                        Op::Abort(_) => out.count("fault_abort_called", 1),
                        Op::Send(_) | Op::Recv(_) | Op::Lock(_) | Op::Read(_) | Op::Write(_) | Op::OsRecv(_) if case.prog.bodies[b].thread => {
                            out.count("blocking_variant_completed", 1);
                            out.count(&format!("blocking_{}", op.kind()), 1);
                        }
                        Op::WSend(_) if e.val == "err" => out.count("watch_send_without_receiver", 1),
                        _ => {}
                    }
                }
                _ => {}
            }
        }
    }
}

pub fn process(case: &TCase, out: &mut RunOut, shrink: bool) -> TRun {
    let run = run_case(case);
    let mut stats = vec![];
    let findings = findings_of(case, &run, &mut stats);
    out.evals += run.rt.execs.len() as u64;
    for ex in &run.rt.execs {
        out.decisions += ex.decisions().count() as u64;
        if ex.switches() > 0 {
            out.distinct.push(hash_debug(&(&case.prog, ex.chosen_seq())));
        }
    }
    for st in &stats {
        out.count("lockstep_steps", st.steps as u64);
        for (k, v) in &st.probes {
            out.count(k, *v);
        }
        if st.max_states > 500 {
            out.count("executions_with_over_500_model_states", 1);
        }
    }
    count_probes(case, &run, out);
    out.count(&format!("family_{}", case.prog.family), 1);
    match &run.ending {
        Ending::Panicked(m) if m.starts_with("deadlock!") => out.count("ending_deadlock", 1),
        Ending::Panicked(_) => out.count("ending_other_panic", 1),
        Ending::Returned(_) => out.count("ending_pass", 1),
    }
    let mut seen = BTreeSet::new();
    for f in findings {
        if !seen.insert(f.key.clone()) {
            continue;
        }
        // shrink the first occurrence of a key in this process only (the coordinator keeps the
        // first occurrence per key in (batch, index) order, which is the shrunk one)
        let first = SHRUNK.with(|s| s.borrow_mut().insert(f.key.clone()));
        let c = if shrink && first { shrink_case(case, &f.key, 80) } else { case.clone() };
        out.violation(f.key.clone(), f.detail.clone(), json!({ "tcase": c }));
    }
    run
}

pub fn gen_case(batch: &str, idx: u64, rng: &mut Rng) -> TCase {
    let prog = match batch {
        "directed" => directed(idx as usize % DIRECTED, rng),
        "mixed" => gen_program(rng, "mixed", false),
        "timeout" => {
            let fam = FAMILIES[rng.below(FAMILIES.len())];
            gen_program(rng, fam, true)
        }
        _ => {
            let fam = FAMILIES[rng.below(FAMILIES.len() - 1)];
            gen_program(rng, fam, false)
        }
    };
    let mut sim = SimCfg::new(rng.next_u64());
    sim.policy = random_policy(rng);
    sim.execs = 3;
    sim.spurious = false;
    TCase { prog, sim }
}

fn run(batch: &str, idx: u64, seed: u64, _tier: Tier) -> RunOut {
    let mut rng = Rng::new(seed);
    let mut out = RunOut::default();
    let case = gen_case(batch, idx, &mut rng);
    if std::env::var("C19_PRINT_CASE").is_ok() {
        eprintln!("CASE {}", serde_json::to_string(&json!({ "case": { "tcase": case } })).unwrap());
    }
    let r = process(&case, &mut out, true);
    if out.sample.is_none() && r.rt.execs.first().map(|e| e.switches() > 1).unwrap_or(false) {
        out.sample = Some(json!({"program": case.prog, "policy": format!("{:?}", case.sim.policy), "chosen": r.rt.execs[0].chosen_seq(), "ending": format!("{:?}", r.ending)}));
    }
    out
}

fn replay(case: &Value) -> RunOut {
    let mut out = RunOut::default();
    if let Some(c) = case.get("tcase").and_then(|c| serde_json::from_value::<TCase>(c.clone()).ok()) {
        process(&c, &mut out, false);
    }
    out
}

pub fn dump_case(case: &Value) -> bool {
    let c = match case.get("tcase").and_then(|c| serde_json::from_value::<TCase>(c.clone()).ok()) {
        Some(c) => c,
        None => return false,
    };
    println!("family {} resources: {:?}", c.prog.family, c.prog.res);
    for (b, body) in c.prog.bodies.iter().enumerate() {
        println!("body {}{}: {:?}", b, if body.thread { " (thread)" } else { "" }, body.ops);
    }
    println!("sim: {:?}", c.sim);
    let run = run_case(&c);
    for (i, ex) in run.rt.execs.iter().enumerate() {
        println!("--- exec {}", i);
        let ds: Vec<_> = ex.decisions().collect();
        for (k, d) in ds.iter().enumerate() {
            println!("decision {}: offered {:?} -> {:?}", k, d.offered, d.chosen);
            for e in ex.events.iter().filter(|e| e.step as usize == k + 1) {
                println!("      t{} {} {} = {}", e.task, e.kind, e.op, e.val);
            }
        }
    }
    println!("ending: {:?}", run.ending);
    let mut st = vec![];
    for f in findings_of(&c, &run, &mut st) {
        println!("finding: {} :: {}", f.key, f.detail);
    }
    true
}
