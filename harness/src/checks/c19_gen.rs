//! C19 — seeded program generator (swarm style: one primitive family per program, plus a mixed
//! family) and the directed scenario templates.

use super::c19_prog::{Body, Op, Res, TProgram};
use crate::sim::Rng;

pub const FAMILIES: &[&str] = &["sem", "mutex", "rwlock", "mpsc", "oneshot", "watch", "notify", "task", "mixed"];

fn cancel(rng: &mut Rng, op: Op) -> Op {
    Op::Cancel(Box::new(op), rng.below(3) as u8, rng.chance(1, 2))
}

/// wrap an awaiting operation into a fault combinator with some probability
fn maybe_fault(rng: &mut Rng, op: Op, body: usize, timeouts: &mut Vec<usize>) -> Op {
    // `timeouts` starts with the marker usize::MAX when time::timeout may be generated
    let allow = timeouts.first() == Some(&usize::MAX);
    match rng.below(10) {
        0 | 1 | 2 => cancel(rng, op),
        3 | 4 | 5 if allow => {
            timeouts.push(body);
            Op::Timeout(Box::new(op))
        }
        _ => op,
    }
}

struct G<'a> {
    rng: &'a mut Rng,
    res: Res,
    nb: usize,
    timeouts: Vec<usize>,
}

impl G<'_> {
    fn sem_op(&mut self, b: usize) -> Op {
        let s = self.rng.below(self.res.sems.len());
        let n = match self.rng.below(16) {
            0 => 0,
            1..=9 => 1,
            10..=13 => 2,
            _ => 3,
        } as u32;
        match self.rng.below(20) {
            0..=5 => {
                let op = Op::Acquire(s, n);
                maybe_fault(self.rng, op, b, &mut self.timeouts)
            }
            6 | 7 => Op::TryAcquire(s, n),
            8..=11 => Op::Release(s),
            12 => Op::AddPermits(s, self.rng.range(1, 2)),
            13 => Op::Forget(s),
            14 => Op::Split(s, self.rng.range(0, 2) as u32),
            15 => Op::Merge(s),
            16 => {
                if self.rng.chance(1, 3) {
                    Op::CloseSem(s)
                } else {
                    Op::Available(s)
                }
            }
            17 => Op::Available(s),
            18 => Op::SemClosed(s),
            _ => Op::Yield,
        }
    }
    fn mutex_op(&mut self, b: usize) -> Op {
        let m = self.rng.below(self.res.mutexes);
        match self.rng.below(10) {
            0..=3 => {
                let op = Op::Lock(m);
                maybe_fault(self.rng, op, b, &mut self.timeouts)
            }
            4 => Op::TryLock(m),
            5..=8 => Op::Unlock(m),
            _ => Op::Yield,
        }
    }
    fn rw_op(&mut self, b: usize) -> Op {
        let r = self.rng.below(self.res.rwlocks.len());
        match self.rng.below(16) {
            0..=2 => {
                let op = Op::Read(r);
                maybe_fault(self.rng, op, b, &mut self.timeouts)
            }
            3..=5 => {
                let op = Op::Write(r);
                maybe_fault(self.rng, op, b, &mut self.timeouts)
            }
            6 => Op::TryRead(r),
            7 => Op::TryWrite(r),
            8..=10 => Op::UnlockRead(r),
            11..=13 => Op::UnlockWrite(r),
            14 => Op::Downgrade(r),
            _ => Op::Yield,
        }
    }
    fn mpsc_op(&mut self, b: usize, recv_methods: u8) -> Op {
        let c = self.rng.below(self.res.chans.len());
        let is_rx = self.res.chan_rx[c] == b;
        let is_tx = self.res.chan_tx[c].contains(&b);
        if is_rx && (!is_tx || self.rng.chance(1, 2)) {
            match self.rng.below(14) {
                0..=8 => {
                    // receive with one of the allowed methods (bit 0 = recv, bit 1 = try_recv)
                    let use_try = match recv_methods {
                        1 => false,
                        2 => true,
                        _ => self.rng.chance(1, 2),
                    };
                    if use_try {
                        Op::TryRecv(c)
                    } else {
                        let op = Op::Recv(c);
                        maybe_fault(self.rng, op, b, &mut self.timeouts)
                    }
                }
                9 => Op::CloseRx(c),
                10 => Op::DropRx(c),
                11 => Op::TryRecv(c),
                _ => Op::Yield,
            }
        } else {
            match self.rng.below(14) {
                0..=5 => {
                    let op = Op::Send(c);
                    maybe_fault(self.rng, op, b, &mut self.timeouts)
                }
                6..=8 => Op::TrySend(c),
                9 | 10 => Op::Capacity(c),
                11 => Op::DropTx(c),
                12 => Op::TxClosed(c),
                _ => Op::Yield,
            }
        }
    }
    fn oneshot_op(&mut self, b: usize) -> Op {
        let o = self.rng.below(self.res.oneshots.len());
        let (tb, rb) = self.res.oneshots[o];
        if rb == b && (tb != b || self.rng.chance(1, 2)) {
            match self.rng.below(10) {
                0..=4 => {
                    let op = Op::OsRecv(o);
                    maybe_fault(self.rng, op, b, &mut self.timeouts)
                }
                5 | 6 => Op::OsTryRecv(o),
                7 => Op::OsClose(o),
                8 => Op::OsDropRx(o),
                _ => Op::Yield,
            }
        } else {
            match self.rng.below(8) {
                0..=4 => Op::OsSend(o),
                5 => Op::OsDropTx(o),
                6 => Op::OsTxClosed(o),
                _ => Op::Yield,
            }
        }
    }
    fn watch_op(&mut self, b: usize) -> Op {
        let w = self.rng.below(self.res.watches.len());
        let (tb, _) = self.res.watches[w].clone();
        let holds_tx = tb == b || self.res.watch_tx_clones.get(w).map(|v| v.contains(&b)).unwrap_or(false);
        if holds_tx && self.rng.chance(2, 3) {
            match self.rng.below(14) {
                0..=4 => Op::WSend(w),
                5 => Op::WSendReplace(w),
                6 => Op::WSendIfModified(w, self.rng.chance(1, 2)),
                7 => Op::WTxBorrow(w),
                8 => Op::WSubscribe(w),
                9 => Op::WRxCount(w),
                10 => Op::WDropTx(w),
                11 => {
                    let op = Op::WClosed(w);
                    cancel(self.rng, op)
                }
                _ => Op::Yield,
            }
        } else {
            match self.rng.below(14) {
                0..=4 => {
                    let op = Op::WChanged(w);
                    maybe_fault(self.rng, op, b, &mut self.timeouts)
                }
                5 | 6 => Op::WBorrow(w),
                7 | 8 => Op::WBorrowUpdate(w),
                9 | 10 => Op::WHasChanged(w),
                11 => Op::WDropRx(w),
                _ => Op::Yield,
            }
        }
    }
    fn notify_op(&mut self, b: usize) -> Op {
        let n = self.rng.below(self.res.notifies);
        let slot = self.rng.below(2);
        match self.rng.below(20) {
            0..=3 => Op::NotifyOne(n),
            4 | 5 => Op::NotifyWaiters(n),
            6..=8 => {
                let op = Op::Notified(n);
                maybe_fault(self.rng, op, b, &mut self.timeouts)
            }
            9..=11 => Op::NCreate(n, slot),
            12 | 13 => Op::NEnable(slot),
            14 | 15 => {
                let op = Op::NAwait(slot);
                maybe_fault(self.rng, op, b, &mut self.timeouts)
            }
            16 | 17 => Op::NDrop(slot),
            _ => Op::Yield,
        }
    }
    fn family_op(&mut self, fam: &str, b: usize, recv_methods: u8) -> Op {
        match fam {
            "sem" | "task" => self.sem_op(b),
            "mutex" => self.mutex_op(b),
            "rwlock" => self.rw_op(b),
            "mpsc" => self.mpsc_op(b, recv_methods),
            "oneshot" => self.oneshot_op(b),
            "watch" => self.watch_op(b),
            "notify" => self.notify_op(b),
            _ => {
                let f = ["sem", "mutex", "rwlock", "mpsc", "oneshot", "watch", "notify"][self.rng.below(7)];
                self.family_op(f, b, recv_methods)
            }
        }
    }
}

pub fn gen_program(rng: &mut Rng, family: &str, allow_timeout: bool) -> TProgram {
    let nchildren = rng.range(1, 3);
    let nb = nchildren + 1;
    let mut res = Res::default();
    let mixed = family == "mixed";
    let pick_body = |rng: &mut Rng| rng.below(nb);
    if matches!(family, "sem" | "task") || mixed {
        let k = if rng.chance(1, 4) { 2 } else { 1 };
        res.sems = (0..k).map(|_| rng.range(0, 3)).collect();
    }
    if family == "mutex" || mixed {
        res.mutexes = if rng.chance(1, 3) { 2 } else { 1 };
    }
    if family == "rwlock" || mixed {
        res.rwlocks = vec![*rng.pick(&[0usize, 0, 1, 2, 2, 3])];
    }
    if family == "mpsc" || mixed {
        let k = if rng.chance(1, 5) { 2 } else { 1 };
        for _ in 0..k {
            res.chans.push(*rng.pick(&[None, Some(1), Some(1), Some(1), Some(2), Some(3)]));
            let rx = pick_body(rng);
            res.chan_rx.push(rx);
            let mut txs: Vec<usize> = (0..nb).filter(|b| (*b != rx && rng.chance(2, 3)) || (*b == rx && rng.chance(1, 6))).collect();
            if txs.is_empty() {
                txs.push((rx + 1) % nb);
            }
            res.chan_tx.push(txs);
        }
    }
    if family == "oneshot" || mixed {
        let k = if rng.chance(1, 3) { 2 } else { 1 };
        for _ in 0..k {
            let t = pick_body(rng);
            let r = if rng.chance(1, 6) { t } else { (t + 1 + rng.below(nb - 1)) % nb };
            res.oneshots.push((t, r));
        }
    }
    if family == "watch" || mixed {
        let t = pick_body(rng);
        let rs: Vec<usize> = (0..nb).filter(|b| *b != t && rng.chance(3, 4)).collect();
        res.watches.push((t, rs));
        // sometimes further bodies hold clones of the sender (several tasks can wait in `closed()`)
        let clones: Vec<usize> = if rng.chance(1, 3) { (0..nb).filter(|b| *b != t && rng.chance(1, 2)).collect() } else { vec![] };
        res.watch_tx_clones.push(clones);
    }
    if family == "notify" || mixed {
        res.notifies = if rng.chance(1, 5) { 2 } else { 1 };
    }
    // thread bodies (blocking variants) only where a blocking variant exists
    let allow_threads = matches!(family, "mpsc" | "mutex" | "rwlock" | "oneshot" | "mixed");
    let mut g = G { rng, res, nb, timeouts: if allow_timeout { vec![usize::MAX] } else { vec![] } };
    let recv_methods: u8 = match g.rng.below(4) {
        0 => 1,
        1 => 2,
        _ => 3,
    };
    let mut bodies: Vec<Body> = vec![];
    for b in 0..g.nb {
        let thread = b > 0 && allow_threads && g.rng.chance(1, 3);
        let k = g.rng.range(1, 5);
        let mut ops: Vec<Op> = (0..k).map(|_| g.family_op(family, b, recv_methods)).collect();
        if thread {
            // a plain thread cannot be the target of trigger_timeouts in a meaningful way; keep the
            // combinators (they run under block_on) but no Timeout
            for o in ops.iter_mut() {
                if let Op::Timeout(i) = o {
                    *o = (**i).clone();
                }
            }
        }
        bodies.push(Body { thread, ops });
    }
    // main: spawns (mostly first), faults on handles, joins
    let mut main: Vec<Op> = vec![];
    let own = std::mem::take(&mut bodies[0].ops);
    let late_spawn = g.rng.chance(1, 4);
    for c in 1..g.nb {
        main.push(Op::Spawn(c));
    }
    if late_spawn && !own.is_empty() {
        // move one own operation in front of the last spawn
        let at = main.len() - 1;
        main.insert(at, own[0].clone());
        main.extend(own.into_iter().skip(1));
    } else {
        main.extend(own);
    }
    // triggers for bodies that use Timeout
    let mut touts: Vec<usize> = g.timeouts.iter().cloned().filter(|b| *b != usize::MAX).collect();
    touts.sort();
    touts.dedup();
    for b in touts {
        if g.rng.chance(3, 4) {
            let trig = Op::Trigger(b);
            // by main or by some other body
            let who = g.rng.below(g.nb);
            if who == 0 || bodies[who].thread {
                let at = g.rng.range(nchildren.min(main.len()), main.len());
                main.insert(at, trig);
            } else {
                let at = g.rng.range(0, bodies[who].ops.len());
                bodies[who].ops.insert(at, trig);
            }
        }
    }
    let task_family = family == "task";
    for slot in 0..nchildren {
        let is_thread = bodies[slot + 1].thread;
        let r = g.rng.below(20);
        let abort_p = if task_family { 8 } else { 3 };
        if !is_thread && r < abort_p {
            main.push(Op::Abort(slot));
            if g.rng.chance(1, 4) {
                main.push(Op::Abort(slot));
            }
        } else if r == 19 {
            main.push(Op::DropHandle(slot));
        } else if task_family && r == 18 {
            main.push(Op::IsFinished(slot));
        }
    }
    let mut order: Vec<usize> = (0..nchildren).collect();
    g.rng.shuffle(&mut order);
    for slot in order {
        if g.rng.chance(9, 10) {
            let j = Op::Join(slot);
            if task_family && g.rng.chance(1, 4) {
                main.push(cancel(g.rng, j.clone()));
            }
            main.push(j);
        }
    }
    bodies[0].ops = main;
    TProgram { family: family.to_string(), res: g.res, bodies }
}

// ---------------------------------------------------------------------------------------------
// Directed scenario templates (run under drawn schedules like every other program)
// ---------------------------------------------------------------------------------------------

fn body(thread: bool, ops: Vec<Op>) -> Body {
    Body { thread, ops }
}

pub const DIRECTED: usize = 13;

pub fn directed(i: usize, rng: &mut Rng) -> TProgram {
    let mut res = Res::default();
    let (family, bodies) = match i % DIRECTED {
        // bounded channel, blocking sender / blocking receiver threads
        0 => {
            let b = rng.range(1, 2);
            let k = b + 1;
            res.chans = vec![Some(b)];
            res.chan_rx = vec![2];
            res.chan_tx = vec![vec![1]];
            ("mpsc", vec![body(false, vec![Op::Spawn(1), Op::Spawn(2), Op::Join(0), Op::Join(1)]), body(true, vec![Op::Send(0); k]), body(true, vec![Op::Recv(0); k])])
        }
        // the same with async tasks and recv / try_recv
        1 => {
            res.chans = vec![Some(1)];
            res.chan_rx = vec![0];
            res.chan_tx = vec![vec![0, 1]];
            let r = if rng.chance(1, 2) { Op::TryRecv(0) } else { Op::Recv(0) };
            ("mpsc", vec![body(false, vec![Op::TrySend(0), r.clone(), Op::Capacity(0), Op::Spawn(1), Op::Recv(0), r, Op::Capacity(0), Op::Join(0)]), body(false, vec![Op::Send(0), Op::Send(0)])])
        }
        // zero permits
        2 => {
            res.sems = vec![rng.range(0, 2)];
            let op = match rng.below(3) {
                0 => Op::Acquire(0, 0),
                1 => Op::TryAcquire(0, 0),
                _ => Op::Cancel(Box::new(Op::Acquire(0, 0)), 1, false),
            };
            ("sem", vec![body(false, vec![op, Op::Available(0)])])
        }
        // a Notified selected by notify_one is dropped before it completes
        3 => {
            res.notifies = 1;
            ("notify", vec![body(false, vec![Op::NCreate(0, 0), Op::NEnable(0), Op::Spawn(1), Op::Join(0), Op::NDrop(0), Op::Notified(0)]), body(false, vec![Op::NotifyOne(0)])])
        }
        // the same through a cancelled notified().await racing with notify_one and a second waiter
        4 => {
            res.notifies = 1;
            (
                "notify",
                vec![
                    body(false, vec![Op::Spawn(1), Op::Spawn(2), Op::Cancel(Box::new(Op::Notified(0)), 1 + rng.below(2) as u8, true), Op::Join(0), Op::Join(1)]),
                    body(false, vec![Op::Notified(0)]),
                    body(false, vec![Op::Yield, Op::NotifyOne(0)]),
                ],
            )
        }
        // notify_waiters reaches futures that were created but never polled
        5 => {
            res.notifies = 1;
            ("notify", vec![body(false, vec![Op::NCreate(0, 0), Op::NCreate(0, 1), Op::NEnable(1), Op::Spawn(1), Op::Join(0), Op::NAwait(0), Op::NAwait(1)]), body(false, vec![Op::NotifyWaiters(0)])])
        }
        // a stored permit survives notify_waiters
        6 => {
            res.notifies = 1;
            ("notify", vec![body(false, vec![Op::NotifyOne(0), Op::NotifyWaiters(0), Op::Notified(0)])])
        }
        // watch: changed() reports each version once
        7 => {
            res.watches = vec![(1, vec![0])];
            ("watch", vec![body(false, vec![Op::Spawn(1), Op::WChanged(0), Op::WBorrow(0), Op::Cancel(Box::new(Op::WChanged(0)), 1, true), Op::WHasChanged(0), Op::Join(0), Op::WChanged(0)]), body(false, vec![Op::WSend(0), Op::Yield])])
        }
        // add_permits wakes the queued waiter
        8 => {
            res.sems = vec![0];
            let k = rng.range(1, 2) as u32;
            ("sem", vec![body(false, vec![Op::Spawn(1), Op::Yield, Op::AddPermits(0, k as usize), Op::Join(0)]), body(false, vec![Op::Acquire(0, k), Op::Release(0)])])
        }
        // fair queue: a big request at the head blocks small ones; cancelling it lets them through
        9 => {
            res.sems = vec![1];
            ("sem", vec![body(false, vec![Op::Spawn(1), Op::Spawn(2), Op::Join(0), Op::Join(1)]), body(false, vec![Op::Cancel(Box::new(Op::Acquire(0, 2)), 2, true)]), body(false, vec![Op::Acquire(0, 1), Op::Release(0)])])
        }
        // abort a task that waits for a mutex held by main; the lock must stay usable
        10 => {
            res.mutexes = 1;
            ("task", vec![body(false, vec![Op::Lock(0), Op::Spawn(1), Op::Yield, Op::Abort(0), Op::Unlock(0), Op::Join(0), Op::Lock(0), Op::Unlock(0)]), body(false, vec![Op::Lock(0), Op::Unlock(0)])])
        }
        // watch: every clone of the sender waiting in closed() is released when the last receiver goes
        12 => {
            res.watches = vec![(1, vec![0])];
            res.watch_tx_clones = vec![vec![2]];
            let th = rng.chance(1, 3);
            let mut main = vec![Op::Spawn(1), Op::Spawn(2)];
            if rng.chance(1, 2) {
                main.push(Op::Yield);
            }
            main.extend([Op::WDropRx(0), Op::Join(0), Op::Join(1)]);
            ("watch", vec![body(false, main), body(th, vec![Op::WClosed(0)]), body(false, vec![Op::WClosed(0), Op::WTxBorrow(0)])])
        }
        // rwlock downgrade lets queued readers in, writers keep FIFO order
        _ => {
            res.rwlocks = vec![*rng.pick(&[0usize, 2])];
            ("rwlock", vec![body(false, vec![Op::Write(0), Op::Spawn(1), Op::Spawn(2), Op::Yield, Op::Downgrade(0), Op::Yield, Op::UnlockRead(0), Op::Join(0), Op::Join(1)]), body(false, vec![Op::Read(0), Op::UnlockRead(0)]), body(true, vec![Op::Write(0), Op::UnlockWrite(0)])])
        }
    };
    TProgram { family: family.to_string(), res, bodies }
}
