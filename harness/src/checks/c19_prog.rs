//! C19 — program DSL over the tokio-compatible primitives (shuttle-tokio-impl-inner) and the
//! interpreter that runs a program inside a Shuttle execution while logging Start / End / Cancel
//! / eXit events to the simulator's event log.
//!
//! Every operation is total: an operation whose precondition does not hold (unlock of a lock that
//! is not held, send without a sender, ...) is skipped with result "skip", identically in the
//! interpreter and in the reference model (c19_model.rs), so any sub-sequence of a program is a
//! program (which makes shrinking trivial).
//!
//! Logging never adds a scheduling point and never draws randomness.

use crate::sim::log;
use serde::{Deserialize, Serialize};
use shuttle_tokio_impl_inner as tk;
use std::future::Future;
use std::pin::Pin;
use std::sync::atomic::{AtomicU64, Ordering};
use std::sync::Arc;
use std::sync::Mutex as StdMutex;
use std::task::{Context, Poll};
use tk::sync::{mpsc, oneshot, watch, Notify};
use tk::sync::{Mutex, MutexGuard, OwnedMutexGuard, OwnedRwLockReadGuard, OwnedRwLockWriteGuard, OwnedSemaphorePermit, RwLock, RwLockReadGuard, RwLockWriteGuard, Semaphore, SemaphorePermit};

#[derive(Clone, Debug, PartialEq, Eq, Serialize, Deserialize, PartialOrd, Ord, Hash)]
pub enum Op {
    // ---- tasks ----
    Spawn(usize),
    Join(usize),
    Abort(usize),
    DropHandle(usize),
    IsFinished(usize),
    Yield,
    // ---- semaphore ----
    Acquire(usize, u32),
    TryAcquire(usize, u32),
    /// drop the oldest permit held on this semaphore
    Release(usize),
    AddPermits(usize, usize),
    /// forget the newest permit held on this semaphore
    Forget(usize),
    /// split k permits off the newest permit
    Split(usize, u32),
    /// merge the two newest permits
    Merge(usize),
    CloseSem(usize),
    SemClosed(usize),
    Available(usize),
    // ---- mutex ----
    Lock(usize),
    TryLock(usize),
    Unlock(usize),
    // ---- rwlock ----
    Read(usize),
    Write(usize),
    TryRead(usize),
    TryWrite(usize),
    UnlockRead(usize),
    UnlockWrite(usize),
    Downgrade(usize),
    // ---- mpsc ----
    Send(usize),
    TrySend(usize),
    Recv(usize),
    TryRecv(usize),
    CloseRx(usize),
    DropTx(usize),
    DropRx(usize),
    Capacity(usize),
    TxClosed(usize),
    // ---- oneshot ----
    OsSend(usize),
    OsRecv(usize),
    OsTryRecv(usize),
    OsClose(usize),
    OsDropTx(usize),
    OsDropRx(usize),
    OsTxClosed(usize),
    // ---- watch ----
    WSend(usize),
    WSendReplace(usize),
    WSendIfModified(usize, bool),
    WBorrow(usize),
    WBorrowUpdate(usize),
    WTxBorrow(usize),
    WChanged(usize),
    WHasChanged(usize),
    WSubscribe(usize),
    WDropRx(usize),
    WDropTx(usize),
    WRxCount(usize),
    WClosed(usize),
    // ---- notify ----
    /// (notify, slot): create a `Notified` future and keep it in the slot
    NCreate(usize, usize),
    NEnable(usize),
    NAwait(usize),
    NDrop(usize),
    /// `notify.notified().await`
    Notified(usize),
    NotifyOne(usize),
    NotifyWaiters(usize),
    // ---- fault combinators ----
    /// poll the inner operation's future at most `polls` times (a yield after each pending poll,
    /// one more yield if `gap`), then drop it
    Cancel(Box<Op>, u8, bool),
    /// `time::timeout(.., inner)`
    Timeout(Box<Op>),
    /// `time::trigger_timeouts` for the given body
    Trigger(usize),
}

impl Op {
    /// the innermost operation
    pub fn core(&self) -> &Op {
        match self {
            Op::Cancel(i, _, _) | Op::Timeout(i) => i.core(),
            o => o,
        }
    }
    pub fn kind(&self) -> String {
        let s = format!("{:?}", self.core());
        s.split('(').next().unwrap_or("").to_string()
    }
}

pub const NSLOTS: usize = 2;
/// rwlocks entry 0 = the default maximum
pub const MAX_READERS: usize = usize::MAX >> 3;

#[derive(Clone, Debug, PartialEq, Eq, Serialize, Deserialize, Default)]
pub struct Res {
    /// initial permits
    pub sems: Vec<usize>,
    pub mutexes: usize,
    /// max readers (0 = RwLock::new)
    pub rwlocks: Vec<usize>,
    /// bound (None = unbounded)
    pub chans: Vec<Option<usize>>,
    /// body owning the receiver
    pub chan_rx: Vec<usize>,
    /// bodies that start with a sender clone
    pub chan_tx: Vec<Vec<usize>>,
    /// (sender body, receiver body)
    pub oneshots: Vec<(usize, usize)>,
    /// (sender body, receiver bodies)
    pub watches: Vec<(usize, Vec<usize>)>,
    pub notifies: usize,
    /// per watch channel: further bodies that start with a clone of the sender
    #[serde(default)]
    pub watch_tx_clones: Vec<Vec<usize>>,
}

#[derive(Clone, Debug, PartialEq, Eq, Serialize, Deserialize, Default)]
pub struct Body {
    /// true: a plain shuttle thread using the blocking variants
    pub thread: bool,
    pub ops: Vec<Op>,
}

#[derive(Clone, Debug, PartialEq, Eq, Serialize, Deserialize, Default)]
pub struct TProgram {
    pub family: String,
    pub res: Res,
    pub bodies: Vec<Body>,
}

impl TProgram {
    pub fn op_count(&self) -> usize {
        self.bodies.iter().map(|b| b.ops.len()).sum()
    }
    pub fn rw_max(&self, r: usize) -> usize {
        match self.res.rwlocks[r] {
            0 => MAX_READERS,
            k => k,
        }
    }
}

pub fn unique_val(body: usize, idx: usize) -> u64 {
    (body as u64 + 1) * 1000 + idx as u64
}

pub fn ret_val(body: usize) -> u64 {
    7000 + body as u64
}

// ---------------------------------------------------------------------------------------------
// Direct monitors (exclusion) — collected per run
// ---------------------------------------------------------------------------------------------

// process-wide (runs execute on their own short-lived threads, one at a time per worker)
static MON: std::sync::Mutex<Vec<String>> = std::sync::Mutex::new(Vec::new());

pub fn take_monitor_violations() -> Vec<String> {
    std::mem::take(&mut *MON.lock().unwrap_or_else(|e| e.into_inner()))
}

fn mon_violation(s: String) {
    MON.lock().unwrap_or_else(|e| e.into_inner()).push(s);
}

static NONCE: AtomicU64 = AtomicU64::new(1);

#[derive(Clone, Debug, PartialEq, Eq)]
struct BodyLabel(u64, usize);

// ---------------------------------------------------------------------------------------------
// Interpreter state
// ---------------------------------------------------------------------------------------------

enum Tx {
    B(mpsc::Sender<u64>),
    U(mpsc::UnboundedSender<u64>),
}
enum Rx {
    B(mpsc::Receiver<u64>),
    U(mpsc::UnboundedReceiver<u64>),
}
enum Permit {
    B(SemaphorePermit<'static>),
    O(OwnedSemaphorePermit),
}
enum MG {
    B(MutexGuard<'static, u64>),
    O(OwnedMutexGuard<u64>),
}
impl MG {
    fn get(&mut self) -> &mut u64 {
        match self {
            MG::B(g) => &mut *g,
            MG::O(g) => &mut *g,
        }
    }
}
enum RG {
    B(RwLockReadGuard<'static, u64>),
    O(OwnedRwLockReadGuard<u64>),
}
impl RG {
    fn get(&self) -> u64 {
        match self {
            RG::B(g) => **g,
            RG::O(g) => **g,
        }
    }
}
enum WG {
    B(RwLockWriteGuard<'static, u64>),
    O(OwnedRwLockWriteGuard<u64>),
}
impl WG {
    fn get(&mut self) -> &mut u64 {
        match self {
            WG::B(g) => &mut *g,
            WG::O(g) => &mut *g,
        }
    }
}
enum Handle {
    A(tk::task::JoinHandle<u64>),
    T(shuttle::thread::JoinHandle<u64>),
}

#[derive(Default)]
struct Endpoints {
    tx: Vec<Option<Tx>>,
    rx: Vec<Option<Rx>>,
    ostx: Vec<Option<oneshot::Sender<u64>>>,
    osrx: Vec<Option<oneshot::Receiver<u64>>>,
    wtx: Vec<Option<watch::Sender<u64>>>,
    wrx: Vec<Option<watch::Receiver<u64>>>,
}

#[derive(Default)]
struct Mon {
    mutex: Vec<i32>,
    readers: Vec<i32>,
    writers: Vec<i32>,
}

pub struct Ctx {
    prog: Arc<TProgram>,
    nonce: u64,
    sems: Vec<Arc<Semaphore>>,
    mutexes: Vec<Arc<Mutex<u64>>>,
    rwlocks: Vec<Arc<RwLock<u64>>>,
    notifies: Vec<Arc<Notify>>,
    stash: StdMutex<Vec<Option<Endpoints>>>,
    spawned: StdMutex<Vec<bool>>,
    mon: StdMutex<Mon>,
}

impl Drop for Ctx {
    fn drop(&mut self) {
        // Endpoints of bodies that never started are leaked, not dropped: the context may be
        // released while the execution is being torn down (outside any task), where endpoint
        // destructors must not call back into Shuttle. Nobody can observe them any more.
        if let Ok(mut st) = self.stash.lock() {
            for e in st.drain(..) {
                std::mem::forget(e);
            }
        }
    }
}

/// A `'static` view of something kept alive by the `Arc<Ctx>` that every `Local` (and every body
/// future) owns; all borrowers are dropped before that `Arc` (see `Local::drop` and field order).
fn static_ref<T>(a: &Arc<T>) -> &'static T {
    // SAFETY: see above; Shuttle runs everything on one OS thread.
    unsafe { &*Arc::as_ptr(a) }
}

struct Local {
    body: usize,
    blocking: bool,
    owned: bool,
    nslots: Vec<Option<Pin<Box<tk::sync::futures::Notified<'static>>>>>,
    permits: Vec<Vec<Permit>>,
    mguards: Vec<Option<MG>>,
    rguards: Vec<Option<RG>>,
    wguards: Vec<Option<WG>>,
    ep: Endpoints,
    os_taken: Vec<bool>,
    handles: Vec<Option<Handle>>,
    ctx: Arc<Ctx>,
}

impl Ctx {
    fn new(prog: Arc<TProgram>) -> Arc<Ctx> {
        let r = &prog.res;
        let nb = prog.bodies.len();
        let mut stash: Vec<Option<Endpoints>> = (0..nb)
            .map(|_| {
                Some(Endpoints {
                    tx: (0..r.chans.len()).map(|_| None).collect(),
                    rx: (0..r.chans.len()).map(|_| None).collect(),
                    ostx: (0..r.oneshots.len()).map(|_| None).collect(),
                    osrx: (0..r.oneshots.len()).map(|_| None).collect(),
                    wtx: (0..r.watches.len()).map(|_| None).collect(),
                    wrx: (0..r.watches.len()).map(|_| None).collect(),
                })
            })
            .collect();
        for (c, bound) in r.chans.iter().enumerate() {
            match bound {
                Some(k) => {
                    let (tx, rx) = mpsc::channel::<u64>(*k);
                    for b in &r.chan_tx[c] {
                        stash[*b].as_mut().unwrap().tx[c] = Some(Tx::B(tx.clone()));
                    }
                    stash[r.chan_rx[c]].as_mut().unwrap().rx[c] = Some(Rx::B(rx));
                    // the original sender is dropped here, before any task runs
                }
                None => {
                    let (tx, rx) = mpsc::unbounded_channel::<u64>();
                    for b in &r.chan_tx[c] {
                        stash[*b].as_mut().unwrap().tx[c] = Some(Tx::U(tx.clone()));
                    }
                    stash[r.chan_rx[c]].as_mut().unwrap().rx[c] = Some(Rx::U(rx));
                }
            }
        }
        for (o, (tb, rb)) in r.oneshots.iter().enumerate() {
            let (tx, rx) = oneshot::channel::<u64>();
            stash[*tb].as_mut().unwrap().ostx[o] = Some(tx);
            stash[*rb].as_mut().unwrap().osrx[o] = Some(rx);
        }
        for (w, (tb, rbs)) in r.watches.iter().enumerate() {
            let (tx, rx) = watch::channel::<u64>(0);
            for b in rbs {
                stash[*b].as_mut().unwrap().wrx[w] = Some(rx.clone());
            }
            // the original receiver is dropped here (before any task runs): receiver_count = |rbs|
            drop(rx);
            for b in r.watch_tx_clones.get(w).map(|v| v.as_slice()).unwrap_or(&[]) {
                if *b != *tb && stash[*b].as_ref().unwrap().wtx[w].is_none() {
                    stash[*b].as_mut().unwrap().wtx[w] = Some(tx.clone());
                }
            }
            stash[*tb].as_mut().unwrap().wtx[w] = Some(tx);
        }
        Arc::new(Ctx {
            nonce: NONCE.fetch_add(1, Ordering::SeqCst),
            sems: r.sems.iter().map(|p| Arc::new(Semaphore::new(*p))).collect(),
            mutexes: (0..r.mutexes).map(|_| Arc::new(Mutex::new(0u64))).collect(),
            rwlocks: r
                .rwlocks
                .iter()
                .map(|k| Arc::new(if *k == 0 { RwLock::new(0u64) } else { RwLock::with_max_readers(0u64, *k) }))
                .collect(),
            notifies: (0..r.notifies).map(|_| Arc::new(Notify::new())).collect(),
            stash: StdMutex::new(stash),
            spawned: StdMutex::new(vec![false; nb]),
            mon: StdMutex::new(Mon { mutex: vec![0; r.mutexes], readers: vec![0; r.rwlocks.len()], writers: vec![0; r.rwlocks.len()] }),
            prog,
        })
    }
}

impl Local {
    fn new(ctx: Arc<Ctx>, body: usize, blocking: bool) -> Local {
        let r = &ctx.prog.res;
        let ep = ctx.stash.lock().unwrap()[body].take().unwrap_or_default();
        Local {
            body,
            blocking,
            owned: body % 2 == 0,
            nslots: (0..NSLOTS).map(|_| None).collect(),
            permits: (0..r.sems.len()).map(|_| vec![]).collect(),
            mguards: (0..r.mutexes).map(|_| None).collect(),
            rguards: (0..r.rwlocks.len()).map(|_| None).collect(),
            wguards: (0..r.rwlocks.len()).map(|_| None).collect(),
            os_taken: vec![false; r.oneshots.len()],
            ep,
            handles: vec![],
            ctx,
        }
    }

    /// Everything still held is released visibly: logged as implicit operations "x:<json op>".
    fn tail(&mut self) {
        let mut ops: Vec<Op> = vec![];
        for s in 0..self.nslots.len() {
            if self.nslots[s].is_some() {
                ops.push(Op::NDrop(s));
            }
        }
        for s in 0..self.permits.len() {
            for _ in 0..self.permits[s].len() {
                ops.push(Op::Release(s));
            }
        }
        for m in 0..self.mguards.len() {
            if self.mguards[m].is_some() {
                ops.push(Op::Unlock(m));
            }
        }
        for r in 0..self.rguards.len() {
            if self.rguards[r].is_some() {
                ops.push(Op::UnlockRead(r));
            }
            if self.wguards[r].is_some() {
                ops.push(Op::UnlockWrite(r));
            }
        }
        for c in 0..self.ep.tx.len() {
            if self.ep.tx[c].is_some() {
                ops.push(Op::DropTx(c));
            }
        }
        for c in 0..self.ep.rx.len() {
            if self.ep.rx[c].is_some() {
                ops.push(Op::DropRx(c));
            }
        }
        for o in 0..self.ep.ostx.len() {
            if self.ep.ostx[o].is_some() {
                ops.push(Op::OsDropTx(o));
            }
        }
        for o in 0..self.ep.osrx.len() {
            if self.ep.osrx[o].is_some() {
                ops.push(Op::OsDropRx(o));
            }
        }
        for w in 0..self.ep.wrx.len() {
            if self.ep.wrx[w].is_some() {
                ops.push(Op::WDropRx(w));
            }
        }
        for w in 0..self.ep.wtx.len() {
            if self.ep.wtx[w].is_some() {
                ops.push(Op::WDropTx(w));
            }
        }
        for h in 0..self.handles.len() {
            if self.handles[h].is_some() {
                ops.push(Op::DropHandle(h));
            }
        }
        for op in ops {
            let label = format!("x:{}", serde_json::to_string(&op).unwrap());
            log("S", label.clone(), "");
            let r = self.run_sync(usize::MAX, &op);
            log("E", label, r);
        }
    }
}

impl Local {
    /// Leak everything that is still held (used while an execution is being torn down: no
    /// destructor may call back into Shuttle then).
    fn forget_all(&mut self) {
        for v in self.nslots.drain(..) {
            std::mem::forget(v);
        }
        for v in self.permits.drain(..) {
            std::mem::forget(v);
        }
        for v in self.mguards.drain(..) {
            std::mem::forget(v);
        }
        for v in self.rguards.drain(..) {
            std::mem::forget(v);
        }
        for v in self.wguards.drain(..) {
            std::mem::forget(v);
        }
        std::mem::forget(std::mem::take(&mut self.ep));
        for v in self.handles.drain(..) {
            std::mem::forget(v);
        }
    }
}

/// Runs `forget_all` if the tail of a body is unwound (a detached task that is truncated while it
/// is suspended inside one of its implicit release operations).
struct ForgetOnUnwind<'a>(&'a mut Local);

impl Drop for ForgetOnUnwind<'_> {
    fn drop(&mut self) {
        if std::thread::panicking() {
            self.0.forget_all();
        }
    }
}

impl Drop for Local {
    fn drop(&mut self) {
        if std::thread::panicking() {
            // an execution is being torn down (panic, or forced unwind of a truncated detached
            // task): do not call back into Shuttle from destructors
            self.forget_all();
            return;
        }
        let g = ForgetOnUnwind(self);
        g.0.tail();
    }
}

// ---------------------------------------------------------------------------------------------
// Futures used by the interpreter
// ---------------------------------------------------------------------------------------------

type BoxFut<'a> = Pin<Box<dyn Future<Output = String> + 'a>>;

enum Prep<'a> {
    Done(String),
    Fut(BoxFut<'a>),
}

/// Drives a boxed operation future; with a limit it is dropped after that many pending polls
/// (fault `cancel_future`). Logs "C" (after the inner future has been dropped) when it is
/// dropped from outside before completing (abort of the task).
struct Driven<'a> {
    fut: Option<BoxFut<'a>>,
    label: String,
    left: Option<u8>,
    gap: bool,
}

impl Future for Driven<'_> {
    type Output = Option<String>;
    fn poll(mut self: Pin<&mut Self>, cx: &mut Context<'_>) -> Poll<Option<String>> {
        let this = &mut *self;
        if this.left == Some(0) {
            if this.gap {
                this.gap = false;
                cx.waker().wake_by_ref();
                return Poll::Pending;
            }
            let f = this.fut.take();
            drop(f);
            return Poll::Ready(None);
        }
        match this.fut.as_mut().unwrap().as_mut().poll(cx) {
            Poll::Ready(s) => {
                this.fut = None;
                Poll::Ready(Some(s))
            }
            Poll::Pending => {
                if let Some(l) = this.left.as_mut() {
                    *l -= 1;
                    cx.waker().wake_by_ref();
                }
                Poll::Pending
            }
        }
    }
}

impl Drop for Driven<'_> {
    fn drop(&mut self) {
        if let Some(f) = self.fut.take() {
            if std::thread::panicking() {
                std::mem::forget(f);
                return;
            }
            drop(f);
            log("C", self.label.clone(), "");
        }
    }
}

/// Top-level future of a spawned async body: logs "Q" whenever a poll of the body starts (used by
/// the abort monitor: no poll of the body may start after an abort took effect).
struct TaskFut {
    inner: Pin<Box<dyn Future<Output = u64>>>,
    body: usize,
}

impl Future for TaskFut {
    type Output = u64;
    fn poll(mut self: Pin<&mut Self>, cx: &mut Context<'_>) -> Poll<u64> {
        log("Q", self.body.to_string(), "");
        self.inner.as_mut().poll(cx)
    }
}

struct AssertSend<F>(F);
// SAFETY: Shuttle runs all tasks on one OS thread.
unsafe impl<F> Send for AssertSend<F> {}
impl<F: Future> Future for AssertSend<F> {
    type Output = F::Output;
    fn poll(self: Pin<&mut Self>, cx: &mut Context<'_>) -> Poll<F::Output> {
        // SAFETY: structural pinning of the only field
        unsafe { self.map_unchecked_mut(|s| &mut s.0) }.poll(cx)
    }
}

struct ExitLog {
    body: usize,
    ret: Option<u64>,
}

impl Drop for ExitLog {
    fn drop(&mut self) {
        if std::thread::panicking() {
            return;
        }
        match self.ret {
            Some(v) => log("X", self.body.to_string(), format!("ret:{}", v)),
            None => log("X", self.body.to_string(), "aborted"),
        }
    }
}

// ---------------------------------------------------------------------------------------------
// Running
// ---------------------------------------------------------------------------------------------

/// `time::timeout` keeps a per-OS-thread table of live timeouts. An execution that ends by a
/// panic (deadlock report, ...) leaks its task stacks and with them its table entries, whose
/// stale wakers a later `trigger_timeouts` would invoke. Called after a run, outside any
/// execution: marks every leftover entry expired (the first stale waker panics because there is
/// no execution; entries are marked before wakers are invoked) and clears the triggers, so that
/// runs in the same process cannot influence each other.
pub fn neutralize_timeouts() {
    let _ = std::panic::catch_unwind(|| tk::time::trigger_timeouts(|_| true));
    tk::time::clear_triggers();
}

pub fn uses_timeouts(p: &TProgram) -> bool {
    p.bodies.iter().any(|b| b.ops.iter().any(|o| matches!(o, Op::Timeout(_) | Op::Trigger(_))))
}

pub fn run_tprogram(prog: &Arc<TProgram>) {
    tk::time::clear_triggers();
    let ctx = Ctx::new(prog.clone());
    shuttle::future::block_on(body_async(ctx, 0));
}

async fn body_async(ctx: Arc<Ctx>, b: usize) -> u64 {
    let mut exit = ExitLog { body: b, ret: None };
    shuttle::current::set_label_for_task(shuttle::current::me(), BodyLabel(ctx.nonce, b));
    log("B", b.to_string(), "");
    let prog = ctx.prog.clone();
    let mut l = Local::new(ctx, b, false);
    for (i, op) in prog.bodies[b].ops.iter().enumerate() {
        exec_op(&mut l, i, op).await;
    }
    drop(l);
    exit.ret = Some(ret_val(b));
    ret_val(b)
}

fn body_thread(ctx: Arc<Ctx>, b: usize) -> u64 {
    let mut exit = ExitLog { body: b, ret: None };
    shuttle::current::set_label_for_task(shuttle::current::me(), BodyLabel(ctx.nonce, b));
    log("B", b.to_string(), "");
    let prog = ctx.prog.clone();
    let mut l = Local::new(ctx, b, true);
    for (i, op) in prog.bodies[b].ops.iter().enumerate() {
        shuttle::future::block_on(exec_op(&mut l, i, op));
    }
    drop(l);
    exit.ret = Some(ret_val(b));
    ret_val(b)
}

async fn exec_op(l: &mut Local, idx: usize, op: &Op) {
    let label = idx.to_string();
    log("S", label.clone(), "");
    let r = run_op(l, &label, idx, op).await;
    log("E", label, r);
}

async fn run_op(l: &mut Local, label: &str, idx: usize, op: &Op) -> String {
    match op {
        Op::Cancel(inner, polls, gap) => match l.prep(idx, inner) {
            Prep::Done(r) => format!("ready:{}", r),
            Prep::Fut(f) => {
                let d = Driven { fut: Some(f), label: label.to_string(), left: Some(*polls), gap: *gap };
                match d.await {
                    Some(r) => format!("ready:{}", r),
                    None => "cancelled".to_string(),
                }
            }
        },
        Op::Timeout(inner) => match l.prep(idx, inner) {
            Prep::Done(r) => format!("ready:{}", r),
            Prep::Fut(f) => {
                let t: BoxFut<'_> = Box::pin(async move {
                    match tk::time::timeout(std::time::Duration::from_secs(1), f).await {
                        Ok(r) => format!("ready:{}", r),
                        Err(_) => "elapsed".to_string(),
                    }
                });
                let d = Driven { fut: Some(t), label: label.to_string(), left: None, gap: false };
                d.await.unwrap()
            }
        },
        _ => match l.prep(idx, op) {
            Prep::Done(r) => r,
            Prep::Fut(f) => {
                let d = Driven { fut: Some(f), label: label.to_string(), left: None, gap: false };
                d.await.unwrap()
            }
        },
    }
}

fn skip<'a>() -> Prep<'a> {
    Prep::Done("skip".into())
}

impl Local {
    fn mon_mutex(&self, m: usize, d: i32) {
        let mut mon = self.ctx.mon.lock().unwrap();
        mon.mutex[m] += d;
        if mon.mutex[m] > 1 || mon.mutex[m] < 0 {
            mon_violation(format!("mutex {} has {} holders", m, mon.mutex[m]));
        }
    }
    fn mon_rw(&self, r: usize, dr: i32, dw: i32) {
        let maxr = self.ctx.prog.rw_max(r) as i64;
        let mut mon = self.ctx.mon.lock().unwrap();
        mon.readers[r] += dr;
        mon.writers[r] += dw;
        let (rd, wr) = (mon.readers[r], mon.writers[r]);
        if wr > 1 || (wr == 1 && rd > 0) || rd < 0 || wr < 0 || rd as i64 > maxr {
            mon_violation(format!("rwlock {} has {} readers and {} writers", r, rd, wr));
        }
    }

    /// Prepare an operation: either its result (synchronous operations, skips, blocking variants)
    /// or the future to await.
    fn prep<'a>(&'a mut self, idx: usize, op: &Op) -> Prep<'a> {
        let ctx = self.ctx.clone();
        let uv = unique_val(self.body, idx);
        match op {
            Op::Join(slot) => {
                let slot = *slot;
                match self.handles.get(slot).and_then(|h| h.as_ref()) {
                    None => skip(),
                    Some(Handle::T(_)) => {
                        let h = match self.handles[slot].take() {
                            Some(Handle::T(h)) => h,
                            _ => unreachable!(),
                        };
                        Prep::Done(match h.join() {
                            Ok(v) => format!("ok:{}", v),
                            Err(_) => "panicked".into(),
                        })
                    }
                    Some(Handle::A(_)) => {
                        let hs = &mut self.handles;
                        Prep::Fut(Box::pin(async move {
                            let r = match hs[slot].as_mut() {
                                Some(Handle::A(h)) => h.await,
                                _ => unreachable!(),
                            };
                            hs[slot] = None;
                            match r {
                                Ok(v) => format!("ok:{}", v),
                                Err(e) => {
                                    if e.is_cancelled() {
                                        "cancelled".into()
                                    } else {
                                        "joinerror".into()
                                    }
                                }
                            }
                        }))
                    }
                }
            }
            Op::Yield => {
                if self.blocking {
                    shuttle::thread::yield_now();
                    Prep::Done("".into())
                } else {
                    Prep::Fut(Box::pin(async move {
                        tk::task::yield_now().await;
                        String::new()
                    }))
                }
            }
            Op::Acquire(s, n) => {
                let (s, n) = (*s, *n);
                let owned = self.owned;
                let permits = &mut self.permits;
                Prep::Fut(Box::pin(async move {
                    if owned {
                        match ctx.sems[s].clone().acquire_many_owned(n).await {
                            Ok(p) => {
                                permits[s].push(Permit::O(p));
                                "ok".into()
                            }
                            Err(_) => "closed".into(),
                        }
                    } else {
                        match static_ref(&ctx.sems[s]).acquire_many(n).await {
                            Ok(p) => {
                                permits[s].push(Permit::B(p));
                                "ok".into()
                            }
                            Err(_) => "closed".into(),
                        }
                    }
                }))
            }
            Op::Lock(m) => {
                let m = *m;
                if self.mguards[m].is_some() {
                    return skip();
                }
                if self.blocking {
                    let mut g = MG::B(static_ref(&ctx.mutexes[m]).blocking_lock());
                    self.mon_mutex(m, 1);
                    let prev = *g.get();
                    *g.get() = uv;
                    self.mguards[m] = Some(g);
                    return Prep::Done(format!("ok:{}", prev));
                }
                let owned = self.owned;
                Prep::Fut(Box::pin(async move {
                    let mut g = if owned { MG::O(ctx.mutexes[m].clone().lock_owned().await) } else { MG::B(static_ref(&ctx.mutexes[m]).lock().await) };
                    self.mon_mutex(m, 1);
                    let prev = *g.get();
                    *g.get() = uv;
                    self.mguards[m] = Some(g);
                    format!("ok:{}", prev)
                }))
            }
            Op::Read(r) => {
                let r = *r;
                if self.rguards[r].is_some() || self.wguards[r].is_some() {
                    return skip();
                }
                if self.blocking {
                    let g = RG::B(static_ref(&ctx.rwlocks[r]).blocking_read());
                    self.mon_rw(r, 1, 0);
                    let v = g.get();
                    self.rguards[r] = Some(g);
                    return Prep::Done(format!("ok:{}", v));
                }
                let owned = self.owned;
                Prep::Fut(Box::pin(async move {
                    let g = if owned { RG::O(ctx.rwlocks[r].clone().read_owned().await) } else { RG::B(static_ref(&ctx.rwlocks[r]).read().await) };
                    self.mon_rw(r, 1, 0);
                    let v = g.get();
                    self.rguards[r] = Some(g);
                    format!("ok:{}", v)
                }))
            }
            Op::Write(r) => {
                let r = *r;
                if self.rguards[r].is_some() || self.wguards[r].is_some() {
                    return skip();
                }
                if self.blocking {
                    let mut g = WG::B(static_ref(&ctx.rwlocks[r]).blocking_write());
                    self.mon_rw(r, 0, 1);
                    let prev = *g.get();
                    *g.get() = uv;
                    self.wguards[r] = Some(g);
                    return Prep::Done(format!("ok:{}", prev));
                }
                let owned = self.owned;
                Prep::Fut(Box::pin(async move {
                    let mut g = if owned { WG::O(ctx.rwlocks[r].clone().write_owned().await) } else { WG::B(static_ref(&ctx.rwlocks[r]).write().await) };
                    self.mon_rw(r, 0, 1);
                    let prev = *g.get();
                    *g.get() = uv;
                    self.wguards[r] = Some(g);
                    format!("ok:{}", prev)
                }))
            }
            Op::Send(c) => {
                let c = *c;
                let blocking = self.blocking;
                match self.ep.tx[c].as_ref() {
                    None => skip(),
                    Some(Tx::U(t)) => Prep::Done(match t.send(uv) {
                        Ok(()) => "ok".into(),
                        Err(_) => "err".into(),
                    }),
                    Some(Tx::B(t)) => {
                        if blocking {
                            return Prep::Done(match t.blocking_send(uv) {
                                Ok(()) => "ok".into(),
                                Err(_) => "err".into(),
                            });
                        }
                        Prep::Fut(Box::pin(async move {
                            match t.send(uv).await {
                                Ok(()) => "ok".into(),
                                Err(_) => "err".into(),
                            }
                        }))
                    }
                }
            }
            Op::Recv(c) => {
                let c = *c;
                let blocking = self.blocking;
                match self.ep.rx[c].as_mut() {
                    None => skip(),
                    Some(rx) => {
                        if blocking {
                            let r = match rx {
                                Rx::B(r) => r.blocking_recv(),
                                Rx::U(r) => r.blocking_recv(),
                            };
                            return Prep::Done(match r {
                                Some(v) => v.to_string(),
                                None => "none".into(),
                            });
                        }
                        Prep::Fut(Box::pin(async move {
                            let r = match rx {
                                Rx::B(r) => r.recv().await,
                                Rx::U(r) => r.recv().await,
                            };
                            match r {
                                Some(v) => v.to_string(),
                                None => "none".into(),
                            }
                        }))
                    }
                }
            }
            Op::OsRecv(o) => {
                let o = *o;
                if self.ep.osrx[o].is_none() || self.os_taken[o] {
                    return skip();
                }
                if self.blocking {
                    let rx = self.ep.osrx[o].take().unwrap();
                    return Prep::Done(match rx.blocking_recv() {
                        Ok(v) => format!("ok:{}", v),
                        Err(_) => "err".into(),
                    });
                }
                let slot = &mut self.ep.osrx[o];
                Prep::Fut(Box::pin(async move {
                    let r = slot.as_mut().unwrap().await;
                    // the receiver is consumed by a completed receive
                    *slot = None;
                    match r {
                        Ok(v) => format!("ok:{}", v),
                        Err(_) => "err".into(),
                    }
                }))
            }
            Op::WChanged(w) => {
                let w = *w;
                match self.ep.wrx[w].as_mut() {
                    None => skip(),
                    Some(rx) => Prep::Fut(Box::pin(async move {
                        match rx.changed().await {
                            Ok(()) => "ok".into(),
                            Err(_) => "err".into(),
                        }
                    })),
                }
            }
            Op::WClosed(w) => {
                let w = *w;
                match self.ep.wtx[w].as_ref() {
                    None => skip(),
                    Some(tx) => Prep::Fut(Box::pin(async move {
                        tx.closed().await;
                        String::new()
                    })),
                }
            }
            Op::NAwait(slot) => {
                let slot = *slot;
                match self.nslots.get_mut(slot).and_then(|s| s.take()) {
                    None => skip(),
                    Some(f) => Prep::Fut(Box::pin(async move {
                        f.await;
                        "ok".into()
                    })),
                }
            }
            Op::Notified(n) => {
                let n = *n;
                // registered at creation, i.e. in the step that logs Start
                let f = static_ref(&ctx.notifies[n]).notified();
                Prep::Fut(Box::pin(async move {
                    f.await;
                    "ok".into()
                }))
            }
            // nested combinators are not generated; treat as the inner operation
            Op::Cancel(inner, _, _) | Op::Timeout(inner) => self.prep(idx, inner),
            _ => Prep::Done(self.run_sync(idx, op)),
        }
    }

    /// Operations that never await.
    fn run_sync(&mut self, idx: usize, op: &Op) -> String {
        let ctx = self.ctx.clone();
        let uv = if idx == usize::MAX { 0 } else { unique_val(self.body, idx) };
        match op {
            Op::Spawn(b) => {
                let b = *b;
                {
                    let mut sp = ctx.spawned.lock().unwrap();
                    if b == 0 || b >= sp.len() || sp[b] {
                        return "skip".into();
                    }
                    sp[b] = true;
                }
                let c2 = ctx.clone();
                if ctx.prog.bodies[b].thread {
                    let h = shuttle::thread::spawn(move || body_thread(c2, b));
                    self.handles.push(Some(Handle::T(h)));
                } else {
                    let fut = TaskFut { inner: Box::pin(body_async(c2, b)), body: b };
                    let h = tk::task::spawn(AssertSend(fut));
                    self.handles.push(Some(Handle::A(h)));
                }
                "ok".into()
            }
            Op::Abort(slot) => match self.handles.get(*slot).and_then(|h| h.as_ref()) {
                Some(Handle::A(h)) => {
                    h.abort();
                    "ok".into()
                }
                _ => "skip".into(),
            },
            Op::DropHandle(slot) => match self.handles.get_mut(*slot).and_then(|h| h.take()) {
                Some(h) => {
                    drop(h);
                    "ok".into()
                }
                None => "skip".into(),
            },
            Op::IsFinished(slot) => match self.handles.get(*slot).and_then(|h| h.as_ref()) {
                Some(Handle::A(h)) => h.is_finished().to_string(),
                Some(Handle::T(_)) => "skip".into(),
                None => "skip".into(),
            },
            Op::TryAcquire(s, n) => {
                let r = if self.owned {
                    ctx.sems[*s].clone().try_acquire_many_owned(*n).map(Permit::O)
                } else {
                    static_ref(&ctx.sems[*s]).try_acquire_many(*n).map(Permit::B)
                };
                match r {
                    Ok(p) => {
                        self.permits[*s].push(p);
                        "ok".into()
                    }
                    Err(tk::sync::TryAcquireError::Closed) => "closed".into(),
                    Err(tk::sync::TryAcquireError::NoPermits) => "nopermits".into(),
                }
            }
            Op::Release(s) => {
                if self.permits[*s].is_empty() {
                    return "skip".into();
                }
                let p = self.permits[*s].remove(0);
                let n = match &p {
                    Permit::B(p) => p.num_permits(),
                    Permit::O(p) => p.num_permits(),
                };
                drop(p);
                format!("ok:{}", n)
            }
            Op::AddPermits(s, k) => {
                ctx.sems[*s].add_permits(*k);
                "".into()
            }
            Op::Forget(s) => match self.permits[*s].pop() {
                None => "skip".into(),
                Some(p) => {
                    let n = match &p {
                        Permit::B(p) => p.num_permits(),
                        Permit::O(p) => p.num_permits(),
                    };
                    match p {
                        Permit::B(p) => p.forget(),
                        Permit::O(p) => p.forget(),
                    }
                    format!("ok:{}", n)
                }
            },
            Op::Split(s, k) => match self.permits[*s].last_mut() {
                None => "skip".into(),
                Some(p) => {
                    let r = match p {
                        Permit::B(p) => p.split(*k as usize).map(Permit::B),
                        Permit::O(p) => p.split(*k as usize).map(Permit::O),
                    };
                    match r {
                        Some(np) => {
                            self.permits[*s].push(np);
                            "some".into()
                        }
                        None => "none".into(),
                    }
                }
            },
            Op::Merge(s) => {
                if self.permits[*s].len() < 2 {
                    return "skip".into();
                }
                let b = self.permits[*s].pop().unwrap();
                let a = self.permits[*s].last_mut().unwrap();
                let n = match (a, b) {
                    (Permit::B(a), Permit::B(b)) => {
                        a.merge(b);
                        a.num_permits()
                    }
                    (Permit::O(a), Permit::O(b)) => {
                        a.merge(b);
                        a.num_permits()
                    }
                    _ => unreachable!(),
                };
                format!("ok:{}", n)
            }
            Op::CloseSem(s) => {
                ctx.sems[*s].close();
                "".into()
            }
            Op::SemClosed(s) => ctx.sems[*s].is_closed().to_string(),
            Op::Available(s) => ctx.sems[*s].available_permits().to_string(),
            Op::TryLock(m) => {
                if self.mguards[*m].is_some() {
                    return "skip".into();
                }
                let r = if self.owned { ctx.mutexes[*m].clone().try_lock_owned().map(MG::O) } else { static_ref(&ctx.mutexes[*m]).try_lock().map(MG::B) };
                match r {
                    Ok(mut g) => {
                        self.mon_mutex(*m, 1);
                        let prev = *g.get();
                        *g.get() = uv;
                        self.mguards[*m] = Some(g);
                        format!("ok:{}", prev)
                    }
                    Err(_) => "wouldblock".into(),
                }
            }
            Op::Unlock(m) => match self.mguards[*m].take() {
                Some(g) => {
                    self.mon_mutex(*m, -1);
                    drop(g);
                    "ok".into()
                }
                None => "skip".into(),
            },
            Op::TryRead(r) => {
                if self.rguards[*r].is_some() || self.wguards[*r].is_some() {
                    return "skip".into();
                }
                let res = if self.owned { ctx.rwlocks[*r].clone().try_read_owned().map(RG::O) } else { static_ref(&ctx.rwlocks[*r]).try_read().map(RG::B) };
                match res {
                    Ok(g) => {
                        self.mon_rw(*r, 1, 0);
                        let v = g.get();
                        self.rguards[*r] = Some(g);
                        format!("ok:{}", v)
                    }
                    Err(_) => "wouldblock".into(),
                }
            }
            Op::TryWrite(r) => {
                if self.rguards[*r].is_some() || self.wguards[*r].is_some() {
                    return "skip".into();
                }
                let res = if self.owned { ctx.rwlocks[*r].clone().try_write_owned().map(WG::O) } else { static_ref(&ctx.rwlocks[*r]).try_write().map(WG::B) };
                match res {
                    Ok(mut g) => {
                        self.mon_rw(*r, 0, 1);
                        let prev = *g.get();
                        *g.get() = uv;
                        self.wguards[*r] = Some(g);
                        format!("ok:{}", prev)
                    }
                    Err(_) => "wouldblock".into(),
                }
            }
            Op::UnlockRead(r) => match self.rguards[*r].take() {
                Some(g) => {
                    self.mon_rw(*r, -1, 0);
                    drop(g);
                    "ok".into()
                }
                None => "skip".into(),
            },
            Op::UnlockWrite(r) => match self.wguards[*r].take() {
                Some(g) => {
                    self.mon_rw(*r, 0, -1);
                    drop(g);
                    "ok".into()
                }
                None => "skip".into(),
            },
            Op::Downgrade(r) => match self.wguards[*r].take() {
                Some(g) => {
                    // from the monitor's point of view the writer becomes a reader atomically
                    self.mon_rw(*r, 1, -1);
                    let rg = match g {
                        WG::B(g) => RG::B(g.downgrade()),
                        WG::O(g) => RG::O(g.downgrade()),
                    };
                    self.rguards[*r] = Some(rg);
                    "ok".into()
                }
                None => "skip".into(),
            },
            Op::TrySend(c) => match self.ep.tx[*c].as_ref() {
                Some(Tx::B(t)) => match t.try_send(uv) {
                    Ok(()) => "ok".into(),
                    Err(mpsc::error::TrySendError::Full(_)) => "full".into(),
                    Err(mpsc::error::TrySendError::Closed(_)) => "closed".into(),
                },
                _ => "skip".into(),
            },
            Op::TryRecv(c) => match self.ep.rx[*c].as_mut() {
                None => "skip".into(),
                Some(rx) => {
                    let r = match rx {
                        Rx::B(r) => r.try_recv(),
                        Rx::U(r) => r.try_recv(),
                    };
                    match r {
                        Ok(v) => v.to_string(),
                        Err(mpsc::error::TryRecvError::Empty) => "empty".into(),
                        Err(mpsc::error::TryRecvError::Disconnected) => "disc".into(),
                    }
                }
            },
            Op::CloseRx(c) => match self.ep.rx[*c].as_mut() {
                None => "skip".into(),
                Some(Rx::B(r)) => {
                    r.close();
                    "".into()
                }
                Some(Rx::U(r)) => {
                    r.close();
                    "".into()
                }
            },
            Op::DropTx(c) => match self.ep.tx[*c].take() {
                Some(t) => {
                    drop(t);
                    "ok".into()
                }
                None => "skip".into(),
            },
            Op::DropRx(c) => match self.ep.rx[*c].take() {
                Some(r) => {
                    drop(r);
                    "ok".into()
                }
                None => "skip".into(),
            },
            Op::Capacity(c) => match self.ep.tx[*c].as_ref() {
                Some(Tx::B(t)) => t.capacity().to_string(),
                _ => "skip".into(),
            },
            Op::TxClosed(c) => match self.ep.tx[*c].as_ref() {
                Some(Tx::B(t)) => t.is_closed().to_string(),
                Some(Tx::U(t)) => t.is_closed().to_string(),
                None => "skip".into(),
            },
            Op::OsSend(o) => match self.ep.ostx[*o].take() {
                Some(t) => match t.send(uv) {
                    Ok(()) => "ok".into(),
                    Err(_) => "err".into(),
                },
                None => "skip".into(),
            },
            Op::OsTryRecv(o) => match self.ep.osrx[*o].as_mut() {
                None => "skip".into(),
                Some(r) => match r.try_recv() {
                    Ok(v) => {
                        self.os_taken[*o] = true;
                        format!("ok:{}", v)
                    }
                    Err(oneshot::error::TryRecvError::Empty) => "empty".into(),
                    Err(oneshot::error::TryRecvError::Closed) => "closed".into(),
                },
            },
            Op::OsClose(o) => match self.ep.osrx[*o].as_mut() {
                None => "skip".into(),
                Some(r) => {
                    r.close();
                    "".into()
                }
            },
            Op::OsDropTx(o) => match self.ep.ostx[*o].take() {
                Some(t) => {
                    drop(t);
                    "ok".into()
                }
                None => "skip".into(),
            },
            Op::OsDropRx(o) => match self.ep.osrx[*o].take() {
                Some(r) => {
                    drop(r);
                    "ok".into()
                }
                None => "skip".into(),
            },
            Op::OsTxClosed(o) => match self.ep.ostx[*o].as_ref() {
                Some(t) => t.is_closed().to_string(),
                None => "skip".into(),
            },
            Op::WSend(w) => match self.ep.wtx[*w].as_ref() {
                Some(t) => match t.send(uv) {
                    Ok(()) => "ok".into(),
                    Err(_) => "err".into(),
                },
                None => "skip".into(),
            },
            Op::WSendReplace(w) => match self.ep.wtx[*w].as_ref() {
                Some(t) => t.send_replace(uv).to_string(),
                None => "skip".into(),
            },
            Op::WSendIfModified(w, modify) => match self.ep.wtx[*w].as_ref() {
                Some(t) => {
                    let m = *modify;
                    t.send_if_modified(|v| {
                        if m {
                            *v = uv;
                        }
                        m
                    })
                    .to_string()
                }
                None => "skip".into(),
            },
            Op::WBorrow(w) => match self.ep.wrx[*w].as_ref() {
                Some(r) => {
                    let v = *r.borrow();
                    v.to_string()
                }
                None => "skip".into(),
            },
            Op::WBorrowUpdate(w) => match self.ep.wrx[*w].as_mut() {
                Some(r) => {
                    let v = *r.borrow_and_update();
                    v.to_string()
                }
                None => "skip".into(),
            },
            Op::WTxBorrow(w) => match self.ep.wtx[*w].as_ref() {
                Some(t) => {
                    let v = *t.borrow();
                    v.to_string()
                }
                None => "skip".into(),
            },
            Op::WHasChanged(w) => match self.ep.wrx[*w].as_ref() {
                Some(r) => match r.has_changed() {
                    Ok(b) => b.to_string(),
                    Err(_) => "err".into(),
                },
                None => "skip".into(),
            },
            Op::WSubscribe(w) => {
                if self.ep.wrx[*w].is_some() {
                    return "skip".into();
                }
                match self.ep.wtx[*w].as_ref() {
                    Some(t) => {
                        self.ep.wrx[*w] = Some(t.subscribe());
                        "ok".into()
                    }
                    None => "skip".into(),
                }
            }
            Op::WDropRx(w) => match self.ep.wrx[*w].take() {
                Some(r) => {
                    drop(r);
                    "ok".into()
                }
                None => "skip".into(),
            },
            Op::WDropTx(w) => match self.ep.wtx[*w].take() {
                Some(t) => {
                    drop(t);
                    "ok".into()
                }
                None => "skip".into(),
            },
            Op::WRxCount(w) => match self.ep.wtx[*w].as_ref() {
                Some(t) => t.receiver_count().to_string(),
                None => "skip".into(),
            },
            Op::NCreate(n, slot) => {
                if *slot >= self.nslots.len() || self.nslots[*slot].is_some() {
                    return "skip".into();
                }
                self.nslots[*slot] = Some(Box::pin(static_ref(&ctx.notifies[*n]).notified()));
                "ok".into()
            }
            Op::NEnable(slot) => match self.nslots.get_mut(*slot).and_then(|s| s.as_mut()) {
                Some(f) => f.as_mut().enable().to_string(),
                None => "skip".into(),
            },
            Op::NDrop(slot) => match self.nslots.get_mut(*slot).and_then(|s| s.take()) {
                Some(f) => {
                    drop(f);
                    "ok".into()
                }
                None => "skip".into(),
            },
            Op::NotifyOne(n) => {
                ctx.notifies[*n].notify_one();
                "".into()
            }
            Op::NotifyWaiters(n) => {
                ctx.notifies[*n].notify_waiters();
                "".into()
            }
            Op::Trigger(b) => {
                let (nonce, b) = (ctx.nonce, *b);
                tk::time::trigger_timeouts(move |labels| labels.get::<BodyLabel>() == Some(&BodyLabel(nonce, b)));
                "".into()
            }
            // awaiting operations never come here
            _ => "skip".into(),
        }
    }
}

/// Does this operation possibly await (i.e. is handled by `prep` with a future)?
pub fn may_await(op: &Op) -> bool {
    matches!(
        op.core(),
        Op::Join(_) | Op::Yield | Op::Acquire(..) | Op::Lock(_) | Op::Read(_) | Op::Write(_) | Op::Send(_) | Op::Recv(_) | Op::OsRecv(_) | Op::WChanged(_) | Op::WClosed(_) | Op::NAwait(_) | Op::Notified(_)
    )
}
