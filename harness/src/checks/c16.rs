//! C16 — schedule strings round-trip exactly and malformed strings are rejected.
//!
//! The round-trip half is input generation (seeded, boundary biased) plus every schedule that
//! real simulated executions record; the malformed half is a stored-artefact fault sweep: every
//! truncation point of every sample, version byte changes, non-hex characters, declared length
//! beyond the payload, whitespace re-wrapping.

use crate::coord::{Batch, Check, RunOut, Tier};
use crate::prog::{gen_program, run_program, GenCfg};
use crate::sim::{self, hash_str, quiet_config, run_recorded, vec_to_schedule, Rng, SimCfg, SimSched};
use serde_json::{json, Value};
use shuttle_engine::scheduler::serialization::{deserialize_schedule, serialize_schedule};
use shuttle_engine::scheduler::Schedule;
use std::sync::Arc;

pub fn check() -> Check {
    Check {
        id: "C16",
        level: "fault_enumeration",
        rule: "schedules are generated from the run seed with ids biased to 2^k-1/2^k, seeds needing 1..10 varint bytes, lengths around the 76-column wrap, empty/random-only/task-only mixes, plus the schedules recorded by real simulated executions; every sample is round-tripped in six layouts (as printed, flat, re-wrapped with mixed whitespace, padded / interleaved with blanks, tabs and CR but no line feed, CRLF line ends) and then corrupted at EVERY truncation point (exhaustive per sample), by every version byte class, by non-hex characters and by a declared length beyond the payload (by 1 bit up to 2^64-1). A case is distinct by the hash of the input string; non-trivial = a schedule with at least one step or a corrupted string",
        assumptions: &[
            "the decoder is called in-process inside catch_unwind; a process abort is caught by the coordinator as a worker abort",
            "a truncated string may decode only to None or (when only padding bytes were cut) to the original schedule",
        ],
        real_components: "real: shuttle_engine::scheduler::serialization (serialize_schedule, deserialize_schedule), the runtime's schedule recording for the sim batch; stub: none",
        batches,
        run,
        replay,
        probes: &["roundtrip_ok", "truncations", "version_changes", "nonhex", "declared_len_beyond_payload", "wrapped_multiline", "from_simulated_runs"],
    }
}

fn batches(t: Tier) -> Vec<Batch> {
    vec![
        Batch::new("roundtrip", t.pick(400, 8000), 25),
        Batch::new("corrupt", t.pick(600, 12000), 25),
        Batch::new("sim", t.pick(200, 4000), 25),
    ]
}

fn gen_schedule(rng: &mut Rng) -> Schedule {
    let seed = match rng.below(6) {
        0 => 0,
        1 => rng.next_u64() & 0x7f,
        2 => {
            let k = rng.below(64) as u32;
            let base = 1u64 << k;
            match rng.below(3) {
                0 => base.wrapping_sub(1),
                1 => base,
                _ => base.wrapping_add(1),
            }
        }
        3 => u64::MAX - rng.below(3) as u64,
        _ => rng.next_u64(),
    };
    let len = match rng.below(8) {
        0 => 0,
        1 => rng.range(1, 3),
        2 => rng.range(30, 44), // around the 76 column wrap for small ids
        3 => rng.range(70, 160),
        4 => rng.range(280, 320),
        _ => rng.range(1, 60),
    };
    let id_kind = rng.below(6);
    let maxbits = match id_kind {
        0 => 1,
        1 => rng.range(1, 4),
        2 => rng.range(5, 16),
        3 => rng.range(17, 40),
        4 => rng.range(41, 64),
        _ => rng.range(1, 8),
    } as u32;
    let rand_pct = match rng.below(5) {
        0 => 0,
        1 => 100,
        _ => rng.below(60) as u32,
    };
    let mut s = Schedule::new(seed);
    for _ in 0..len {
        if (rng.below(100) as u32) < rand_pct {
            s.push_random();
        } else {
            let k = rng.below(maxbits as usize + 1) as u32;
            let mask = if maxbits >= 64 { u64::MAX } else { (1u64 << maxbits) - 1 };
            let id: u64 = match rng.below(4) {
                0 => 0,
                1 => if k >= 64 { u64::MAX } else { (1u64 << k).wrapping_sub(1) },
                2 => 1u64 << k.min(63),
                _ => rng.next_u64() & mask,
            };
            s.push_task((id as usize).into());
        }
    }
    s
}

fn sched_json(s: &Schedule) -> Value {
    use shuttle_engine::scheduler::ScheduleStep;
    // task ids go up to 2^64-1: written as decimal strings, "r" = random marker
    let steps: Vec<String> = s
        .steps
        .iter()
        .map(|st| match st {
            ScheduleStep::Task(t) => usize::from(*t).to_string(),
            ScheduleStep::Random => "r".to_string(),
        })
        .collect();
    json!({"seed": s.seed.to_string(), "steps": steps})
}

fn sched_from_json(v: &Value) -> Schedule {
    let seed: u64 = v["seed"].as_str().and_then(|s| s.parse().ok()).unwrap_or(0);
    let mut s = Schedule::new(seed);
    for x in v["steps"].as_array().cloned().unwrap_or_default() {
        match x.as_str() {
            Some("r") => s.push_random(),
            Some(d) => s.push_task(d.parse::<usize>().unwrap_or(0).into()),
            None => {
                // legacy numeric form
                match x.as_i64() {
                    Some(n) if n >= 0 => s.push_task((n as usize).into()),
                    _ => s.push_random(),
                }
            }
        }
    }
    s
}

fn decode(input: &str) -> Result<Option<Schedule>, String> {
    let inp = input.to_string();
    match std::panic::catch_unwind(move || deserialize_schedule(&inp)) {
        Ok(r) => Ok(r),
        Err(p) => Err(sim::payload_to_string(&*p)),
    }
}

fn check_roundtrip(s: &Schedule, out: &mut RunOut, rng: &mut Rng) {
    let enc = serialize_schedule(s);
    if enc.contains('\n') {
        out.count("wrapped_multiline", 1);
    }
    let flat: String = enc.chars().filter(|c| !c.is_whitespace()).collect();
    // re-wrapped at a random width with surrounding whitespace
    let w = rng.range(1, 90);
    let mut rewrapped = String::from(" \n\t");
    for (i, c) in flat.chars().enumerate() {
        if i > 0 && i % w == 0 {
            rewrapped.push_str(if rng.chance(1, 2) { "\n" } else { " \r\n" });
        }
        rewrapped.push(c);
    }
    rewrapped.push_str("\n  ");
    // surrounding / interior whitespace other than line feeds (a string copied out of a log line,
    // a file with CR line ends): no '\n' anywhere
    let pads = [" ", "\t", "\r", "  \t "];
    let padded = format!("{}{}{}", pads[rng.below(4)], flat, pads[rng.below(4)]);
    let w2 = rng.range(2, 90);
    let mut spaced = String::new();
    for (i, c) in flat.chars().enumerate() {
        if i > 0 && i % w2 == 0 {
            spaced.push_str(pads[rng.below(4)]);
        }
        spaced.push(c);
    }
    let crlf = enc.replace('\n', "\r\n");
    for (name, text) in [("as-printed", enc.clone()), ("flat", flat.clone()), ("rewrapped", rewrapped), ("padded-no-linefeed", padded), ("spaced-no-linefeed", spaced), ("crlf", crlf)] {
        match decode(&text) {
            Ok(Some(d)) if d == *s => out.count("roundtrip_ok", 1),
            Ok(other) => out.violation(
                "C16:roundtrip-mismatch",
                format!("layout {}: decoded {:?} for schedule {:?}", name, other.map(|d| sim::schedule_to_vec(&d)), sim::schedule_to_vec(s)),
                json!({"kind": "roundtrip", "orig": sched_json(s), "input": text}),
            ),
            Err(p) => out.violation(
                "C16:roundtrip-panic",
                format!("layout {}: decoder panicked: {}", name, p),
                json!({"kind": "roundtrip", "orig": sched_json(s), "input": text}),
            ),
        }
    }
    out.distinct.push(hash_str(&flat));
    out.evals += 6;
}

/// malformed input must give None (or, for truncations, the original schedule)
fn check_malformed(kind: &str, input: &str, orig: Option<&Schedule>, out: &mut RunOut) {
    out.evals += 1;
    out.distinct.push(hash_str(input) ^ hash_str(kind));
    match decode(input) {
        Ok(None) => {}
        Ok(Some(d)) => {
            if kind == "truncation" && orig.map(|o| *o == d).unwrap_or(false) {
                out.count("truncation_of_padding_only", 1);
            } else {
                out.violation(
                    format!("C16:malformed-accepted:{}", kind),
                    format!("{} input {:?} decoded into {:?}", kind, input, sim::schedule_to_vec(&d)),
                    json!({"kind": kind, "input": input, "orig": orig.map(sched_json)}),
                );
            }
        }
        Err(p) => out.violation(
            format!("C16:decoder-panic:{}", kind),
            format!("{} input {:?}: decoder panicked: {}", kind, if input.len() > 120 { &input[..120] } else { input }, p),
            json!({"kind": kind, "input": input, "orig": orig.map(sched_json)}),
        ),
    }
}

fn varint(mut v: u64) -> Vec<u8> {
    let mut o = vec![];
    loop {
        let c = (v & 0x7f) as u8;
        v >>= 7;
        if v == 0 {
            o.push(c);
            return o;
        }
        o.push(c | 0x80);
    }
}

fn hex(b: &[u8]) -> String {
    b.iter().map(|x| format!("{:02x}", x)).collect()
}

fn corrupt(s: &Schedule, out: &mut RunOut, rng: &mut Rng) {
    let enc = serialize_schedule(s);
    let flat: String = enc.chars().filter(|c| !c.is_whitespace()).collect();
    // every truncation point (proper prefixes), of the flat and of the printed form
    for cut in 0..flat.len() {
        check_malformed("truncation", &flat[..cut], Some(s), out);
        out.count("truncations", 1);
    }
    if enc.len() != flat.len() {
        for cut in (0..enc.len()).step_by(7) {
            check_malformed("truncation", &enc[..cut], Some(s), out);
            out.count("truncations", 1);
        }
    }
    // the empty string and whitespace only
    check_malformed("empty", "", None, out);
    check_malformed("empty", " \n\t ", None, out);
    // version byte
    for v in [0x00u8, 0x90, 0x92, 0x11, 0x19, 0xff, rng.below(256) as u8] {
        if v == 0x91 {
            continue;
        }
        let mut t = flat.clone();
        t.replace_range(0..2, &format!("{:02x}", v));
        check_malformed("version", &t, None, out);
        out.count("version_changes", 1);
    }
    // non-hex characters
    if !flat.is_empty() {
        for _ in 0..4 {
            let pos = rng.below(flat.len());
            let mut t: Vec<char> = flat.chars().collect();
            t[pos] = *rng.pick(&['g', 'z', '-', 'G', '#', 'x']);
            let t: String = t.into_iter().collect();
            check_malformed("nonhex", &t, None, out);
            out.count("nonhex", 1);
        }
        let mut t = flat.clone();
        t.insert(rng.below(flat.len() + 1), 'q');
        check_malformed("nonhex", &t, None, out);
    }
    // declared length larger than the payload (a string cut short relative to what it announces)
    let (seed, steps) = sim::schedule_to_vec(s);
    let max_id = steps.iter().filter(|x| **x >= 0).map(|x| *x as u64).max().unwrap_or(0);
    let bits = (64 - max_id.leading_zeros()).max(1) as u64;
    let payload: Vec<u8> = {
        // re-derive the payload bytes from the serialised form: header is magic + 3 varints
        let all = hexdecode(&flat);
        let hdr = 1 + varint(bits).len() + varint(steps.len() as u64).len() + varint(seed).len();
        all[hdr..].to_vec()
    };
    for extra in [1u64, 9, 1000, 1 << 20, 1 << 40, 1 << 59, 1 << 62, u64::MAX - payload.len() as u64 * 8] {
        let declared = payload.len() as u64 * 8 + extra;
        let mut b = vec![0x91u8];
        b.extend(varint(bits));
        b.extend(varint(declared));
        b.extend(varint(seed));
        b.extend(&payload);
        check_malformed("declared-len-beyond-payload", &hex(&b), None, out);
        out.count("declared_len_beyond_payload", 1);
    }
}

fn hexdecode(s: &str) -> Vec<u8> {
    (0..s.len() / 2).map(|i| u8::from_str_radix(&s[2 * i..2 * i + 2], 16).unwrap()).collect()
}

fn run(batch: &str, _idx: u64, seed: u64, _tier: Tier) -> RunOut {
    let mut rng = Rng::new(seed);
    let mut out = RunOut::default();
    match batch {
        "roundtrip" => {
            for _ in 0..40 {
                let s = gen_schedule(&mut rng);
                check_roundtrip(&s, &mut out, &mut rng);
                if out.sample.is_none() && s.len() > 3 {
                    out.sample = Some(json!({"schedule": sched_json(&s), "encoded": serialize_schedule(&s)}));
                }
            }
        }
        "corrupt" => {
            for _ in 0..4 {
                let s = gen_schedule(&mut rng);
                corrupt(&s, &mut out, &mut rng);
                if out.sample.is_none() && s.len() > 2 {
                    let enc = serialize_schedule(&s);
                    out.sample = Some(json!({"schedule": sched_json(&s), "encoded": enc, "corruptions": "every proper prefix; version byte 00/90/92/11/19/ff; non-hex chars; declared length beyond payload"}));
                }
            }
        }
        "sim" => {
            // schedules as the runtime records them for real executions
            let cfg = GenCfg::swarm(&mut rng);
            let prog = Arc::new(gen_program(&mut rng, &cfg));
            let mut sc = SimCfg::new(rng.next_u64());
            sc.execs = 3;
            let p2 = prog.clone();
            let (_end, rt) = run_recorded(SimSched::new(sc), quiet_config(), move || run_program(&p2));
            let _ = crate::prog::take_monitor_violations();
            for e in &rt.execs {
                if let Some((seed, steps)) = &e.recorded {
                    let s = vec_to_schedule(*seed, steps);
                    check_roundtrip(&s, &mut out, &mut rng);
                    corrupt(&s, &mut out, &mut rng);
                    out.count("from_simulated_runs", 1);
                    out.decisions += e.decisions().count() as u64;
                    if out.sample.is_none() {
                        out.sample = Some(json!({"program": &*prog, "recorded_schedule": sched_json(&s), "encoded": serialize_schedule(&s)}));
                    }
                }
            }
        }
        _ => {}
    }
    out
}

fn replay(case: &Value) -> RunOut {
    let mut out = RunOut::default();
    let kind = case["kind"].as_str().unwrap_or("");
    let input = case["input"].as_str().unwrap_or("");
    let orig = if case["orig"].is_null() { None } else { Some(sched_from_json(&case["orig"])) };
    if kind == "roundtrip" {
        let s = orig.unwrap_or_default();
        match decode(input) {
            Ok(Some(d)) if d == s => {}
            Ok(other) => out.violation("C16:roundtrip-mismatch", format!("decoded {:?}", other.map(|d| sim::schedule_to_vec(&d))), case.clone()),
            Err(p) => out.violation("C16:roundtrip-panic", p, case.clone()),
        }
    } else {
        check_malformed(kind, input, orig.as_ref(), &mut out);
    }
    out
}
