//! C06 — mpsc channels deliver each message exactly once, in order, within capacity.
use super::families::*;
use crate::coord::{Batch, Check, Tier};

const FAM: Family = Family { prop: "C06", gen: gen_c06 };

pub fn check() -> Check {
    Check {
        id: "C06",
        level: "exploration",
        rule: "per run: a seeded program with 1-3 sender threads and one receiver over channels of capacity unbounded/0/1/2 (send, try_send, recv, try_recv, endpoint drops at arbitrary points incl. last sender with receiver blocked and receiver with senders blocked), a policy and a seed; oracle: lockstep reference model (queue + capacity + FIFO waiting senders + rendezvous hand-off) and model-independent history monitors (received ⊆ sent, no duplicate, receive order = completion order of successful sends, capacity never exceeded, no message skipped). Unique payloads. Distinct = (program, chosen sequence); non-trivial = at least one switch",
        assumptions: &["one receiver per channel (std's Receiver is not Sync)", "blocked senders are released in arrival order (the documented hand-off of the implementation)"],
        real_components: "real: shuttle-std mpsc (channel, sync_channel), shuttle-engine runtime; model only as oracle",
        batches: |t: Tier| vec![Batch::new("chan", t.pick(24000, 400000), 500)],
        run: |b, _i, seed, t| run_family(&FAM, b, seed, t),
        replay: |c| replay_family(&FAM, c),
        probes: &["send_ok", "send_err", "recv_value", "recv_disc", "try_send_full", "try_send_ok", "try_recv_empty", "try_recv_value", "ending_deadlock"],
    }
}
