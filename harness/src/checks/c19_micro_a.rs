//! C19 — micro-operations, part A: tasks, Semaphore, Mutex, RwLock, mpsc.
//! `micro_a` returns None when the operation belongs to part B.

use super::c19_model::*;
use super::c19_prog::{Op, TProgram};

fn done(n: MState, r: Res) -> Option<Vec<Out>> {
    Some(vec![Out::Done(n, r)])
}
fn cont(n: MState, j: u8) -> Option<Vec<Out>> {
    Some(vec![Out::Cont(n, j)])
}
fn skip(n: MState) -> Option<Vec<Out>> {
    done(n, ex("skip"))
}

/// Two-phase acquisition on a fair semaphore. `sel` picks the semaphore, `fin` applies the
/// completion (holder bookkeeping) and gives the result. Micro 0 = arrive, micro 1 = wait.
fn acquire2(
    s: &MState,
    t: usize,
    j: u8,
    n: usize,
    sel: SemSel,
    fin: &dyn Fn(&mut MState) -> Res,
    closed_res: &str,
) -> Option<Vec<Out>> {
    let mut m = s.clone();
    if j == 0 {
        // a request for zero permits behind a queue: tokio completes it at once, a strictly FIFO
        // implementation queues it; the documentation does not say — both are accepted
        let zero_behind_queue = n == 0 && !sem_of(&mut m, sel).closed && !sem_of(&mut m, sel).queue.is_empty();
        match sem_of(&mut m, sel).arrive(t, n) {
            Arr::Ok => {
                let r = fin(&mut m);
                done(m, r)
            }
            Arr::Closed => done(m, ex(closed_res)),
            Arr::Queued => {
                let mut outs = vec![Out::Cont(m, 1)];
                if zero_behind_queue {
                    let mut m2 = s.clone();
                    let r = fin(&mut m2);
                    outs.push(Out::Done(m2, r));
                }
                Some(outs)
            }
        }
    } else {
        match sem_of(&mut m, sel).poll_granted(t) {
            Some(true) => {
                let r = fin(&mut m);
                done(m, r)
            }
            Some(false) => done(m, ex(closed_res)),
            None => None,
        }
    }
}

pub fn micro_a(p: &TProgram, h: &Hyp, s: &MState, t: usize, op: &Op, j: u8, uv: u64) -> Option<Option<Vec<Out>>> {
    let mut n = s.clone();
    let r = match op {
        // ------------------------------------------------------------------ tasks
        Op::Spawn(b) => {
            let b = *b;
            if b == 0 || b >= s.tasks.len() || s.tasks[b].st != TSt::NotSpawned {
                return Some(skip(n));
            }
            n.tasks[b].st = TSt::Ready;
            n.tasks[t].handles.push(Some(b));
            done(n, ex("ok"))
        }
        Op::Join(slot) => match s.tasks[t].handles.get(*slot).cloned().flatten() {
            None => skip(n),
            Some(b) => {
                let fin = matches!(s.tasks[b].st, TSt::Exiting | TSt::Done);
                if fin {
                    n.tasks[t].handles[*slot] = None;
                    let r = join_result(s, b);
                    done(n, r)
                } else {
                    None
                }
            }
        },
        Op::Abort(slot) => match s.tasks[t].handles.get(*slot).cloned().flatten() {
            Some(b) if !s.tasks[b].thread => {
                if !matches!(s.tasks[b].st, TSt::Exiting | TSt::Done) {
                    n.tasks[b].abort_req = true;
                }
                done(n, ex("ok"))
            }
            _ => skip(n),
        },
        Op::DropHandle(slot) => match s.tasks[t].handles.get(*slot).cloned().flatten() {
            Some(b) => {
                n.tasks[b].detached = true;
                n.tasks[t].handles[*slot] = None;
                done(n, ex("ok"))
            }
            None => skip(n),
        },
        Op::IsFinished(slot) => match s.tasks[t].handles.get(*slot).cloned().flatten() {
            Some(b) if !s.tasks[b].thread => match s.tasks[b].st {
                TSt::Done => done(n, ex("true")),
                TSt::Exiting => done(n, Res::Any),
                _ => done(n, ex("false")),
            },
            _ => skip(n),
        },
        Op::Yield => done(n, ex("")),
        // ------------------------------------------------------------------ semaphore
        Op::Acquire(si, k) => {
            let (si, k) = (*si, *k);
            acquire2(
                s,
                t,
                j,
                k as usize,
                SemSel::Sem(si),
                &|m| {
                    m.tasks[t].permits[si].push(k);
                    ex("ok")
                },
                "closed",
            )
        }
        Op::TryAcquire(si, k) => {
            let zero_behind_queue = *k == 0 && !s.sems[*si].closed && !s.sems[*si].queue.is_empty();
            match n.sems[*si].try_acq(*k as usize) {
                0 => {
                    n.tasks[t].permits[*si].push(*k);
                    done(n, ex("ok"))
                }
                1 => {
                    let mut outs = vec![Out::Done(n, ex("nopermits"))];
                    if zero_behind_queue {
                        let mut m2 = s.clone();
                        m2.tasks[t].permits[*si].push(0);
                        outs.push(Out::Done(m2, ex("ok")));
                    }
                    Some(outs)
                }
                _ => done(n, ex("closed")),
            }
        }
        Op::Release(si) => {
            if s.tasks[t].permits[*si].is_empty() {
                return Some(skip(n));
            }
            let k = n.tasks[t].permits[*si].remove(0);
            n.sems[*si].release(k as usize);
            done(n, ex(format!("ok:{}", k)))
        }
        Op::AddPermits(si, k) => {
            n.sems[*si].release(*k);
            done(n, ex(""))
        }
        Op::Forget(si) => match n.tasks[t].permits[*si].pop() {
            Some(k) => done(n, ex(format!("ok:{}", k))),
            None => skip(n),
        },
        Op::Split(si, k) => match n.tasks[t].permits[*si].last_mut() {
            None => skip(n),
            Some(p) => {
                if *k <= *p {
                    *p -= *k;
                    n.tasks[t].permits[*si].push(*k);
                    done(n, ex("some"))
                } else {
                    done(n, ex("none"))
                }
            }
        },
        Op::Merge(si) => {
            if s.tasks[t].permits[*si].len() < 2 {
                return Some(skip(n));
            }
            let b = n.tasks[t].permits[*si].pop().unwrap();
            let a = n.tasks[t].permits[*si].last_mut().unwrap();
            *a += b;
            let tot = *a;
            done(n, ex(format!("ok:{}", tot)))
        }
        Op::CloseSem(si) => {
            n.sems[*si].close();
            done(n, ex(""))
        }
        Op::SemClosed(si) => done(n, ex(s.sems[*si].closed.to_string())),
        Op::Available(si) => done(n, ex(s.sems[*si].avail.to_string())),
        // ------------------------------------------------------------------ mutex
        Op::Lock(mi) => {
            let mi = *mi;
            if s.tasks[t].mheld[mi] {
                return Some(skip(n));
            }
            acquire2(
                s,
                t,
                j,
                1,
                SemSel::Mutex(mi),
                &|m| {
                    let prev = m.mutexes[mi].val;
                    m.mutexes[mi].val = uv;
                    m.tasks[t].mheld[mi] = true;
                    ex(format!("ok:{}", prev))
                },
                "closed",
            )
        }
        Op::TryLock(mi) => {
            if s.tasks[t].mheld[*mi] {
                return Some(skip(n));
            }
            if n.mutexes[*mi].sem.try_acq(1) == 0 {
                let prev = n.mutexes[*mi].val;
                n.mutexes[*mi].val = uv;
                n.tasks[t].mheld[*mi] = true;
                done(n, ex(format!("ok:{}", prev)))
            } else {
                done(n, ex("wouldblock"))
            }
        }
        Op::Unlock(mi) => {
            if !s.tasks[t].mheld[*mi] {
                return Some(skip(n));
            }
            n.tasks[t].mheld[*mi] = false;
            n.mutexes[*mi].sem.release(1);
            done(n, ex("ok"))
        }
        // ------------------------------------------------------------------ rwlock
        Op::Read(ri) | Op::Write(ri) => {
            let ri = *ri;
            if s.tasks[t].rheld[ri] != 0 {
                return Some(skip(n));
            }
            let write = matches!(op, Op::Write(_));
            let need = if write { s.rws[ri].max } else { 1 };
            acquire2(
                s,
                t,
                j,
                need,
                SemSel::Rw(ri),
                &|m| {
                    let prev = m.rws[ri].val;
                    if write {
                        m.rws[ri].val = uv;
                        m.tasks[t].rheld[ri] = 2;
                    } else {
                        m.tasks[t].rheld[ri] = 1;
                    }
                    ex(format!("ok:{}", prev))
                },
                "closed",
            )
        }
        Op::TryRead(ri) | Op::TryWrite(ri) => {
            let ri = *ri;
            if s.tasks[t].rheld[ri] != 0 {
                return Some(skip(n));
            }
            let write = matches!(op, Op::TryWrite(_));
            let need = if write { s.rws[ri].max } else { 1 };
            if n.rws[ri].sem.try_acq(need) == 0 {
                let prev = n.rws[ri].val;
                if write {
                    n.rws[ri].val = uv;
                    n.tasks[t].rheld[ri] = 2;
                } else {
                    n.tasks[t].rheld[ri] = 1;
                }
                done(n, ex(format!("ok:{}", prev)))
            } else {
                done(n, ex("wouldblock"))
            }
        }
        Op::UnlockRead(ri) => {
            if s.tasks[t].rheld[*ri] != 1 {
                return Some(skip(n));
            }
            n.tasks[t].rheld[*ri] = 0;
            n.rws[*ri].sem.release(1);
            done(n, ex("ok"))
        }
        Op::UnlockWrite(ri) => {
            if s.tasks[t].rheld[*ri] != 2 {
                return Some(skip(n));
            }
            n.tasks[t].rheld[*ri] = 0;
            let k = n.rws[*ri].max;
            n.rws[*ri].sem.release(k);
            done(n, ex("ok"))
        }
        Op::Downgrade(ri) => {
            if s.tasks[t].rheld[*ri] != 2 {
                return Some(skip(n));
            }
            n.tasks[t].rheld[*ri] = 1;
            let k = n.rws[*ri].max - 1;
            n.rws[*ri].sem.release(k);
            done(n, ex("ok"))
        }
        // ------------------------------------------------------------------ mpsc
        Op::Send(c) => {
            let c = *c;
            if !s.tasks[t].tx[c] {
                return Some(skip(n));
            }
            let bounded = s.chans[c].bound.is_some();
            match j {
                0 => {
                    if !bounded {
                        if s.chans[c].cap.closed {
                            return Some(done(n, ex("err")));
                        }
                        n.chans[c].buf.push_back(uv);
                        return Some(cont(n, 2));
                    }
                    match n.chans[c].cap.arrive(t, 1) {
                        Arr::Ok => {
                            n.chans[c].buf.push_back(uv);
                            cont(n, 2)
                        }
                        Arr::Closed => done(n, ex("err")),
                        Arr::Queued => cont(n, 1),
                    }
                }
                1 => match n.chans[c].cap.poll_granted(t) {
                    Some(true) => {
                        if s.chans[c].cap.closed {
                            // granted a slot before the channel was closed: tokio completes the
                            // send, the documentation also allows the error
                            let e = n.clone();
                            n.chans[c].buf.push_back(uv);
                            Some(vec![Out::Done(e, ex("err")), Out::Cont(n, 2)])
                        } else {
                            n.chans[c].buf.push_back(uv);
                            cont(n, 2)
                        }
                    }
                    Some(false) => done(n, ex("err")),
                    None => None,
                },
                _ => {
                    n.chans[c].published += 1;
                    done(n, ex("ok"))
                }
            }
        }
        Op::TrySend(c) => {
            let c = *c;
            if !s.tasks[t].tx[c] || s.chans[c].bound.is_none() {
                return Some(skip(n));
            }
            match j {
                0 => match n.chans[c].cap.try_acq(1) {
                    0 => {
                        n.chans[c].buf.push_back(uv);
                        cont(n, 1)
                    }
                    1 => done(n, ex("full")),
                    _ => done(n, ex("closed")),
                },
                _ => {
                    n.chans[c].published += 1;
                    done(n, ex("ok"))
                }
            }
        }
        Op::Recv(c) | Op::TryRecv(c) => {
            let c = *c;
            if !s.tasks[t].rx[c] {
                return Some(skip(n));
            }
            let is_try = matches!(op, Op::TryRecv(_));
            match j {
                0 | 1 => {
                    if s.chans[c].published > 0 {
                        n.chans[c].published -= 1;
                        let v = n.chans[c].buf.pop_front().unwrap_or(u64::MAX);
                        n.tasks[t].tmp = v;
                        if n.chans[c].buf.is_empty() && n.chans[c].senders == 0 {
                            n.chans[c].recv_closed = true;
                        }
                        cont(n, 2)
                    } else if s.chans[c].recv_closed {
                        done(n, ex(if is_try { "disc" } else { "none" }))
                    } else if is_try {
                        if s.chans[c].cap.closed && s.chans[c].buf.is_empty() {
                            // closed by the receiver, drained, senders still alive: tokio's text says
                            // Empty ("outstanding senders"), tokio 1.53 answers Disconnected ("there
                            // will never be any more data") — both accepted
                            let m = n.clone();
                            Some(vec![Out::Done(n, ex("empty")), Out::Done(m, ex("disc"))])
                        } else {
                            done(n, ex("empty"))
                        }
                    } else if j == 0 && s.chans[c].cap.closed && s.chans[c].buf.is_empty() {
                        // closed by the receiver and drained
                        done(n, ex("none"))
                    } else if j == 0 {
                        cont(n, 1)
                    } else {
                        None
                    }
                }
                _ => {
                    if s.chans[c].bound.is_some() && h.cap_not_returned != Some(recv_method(s, t, op)) {
                        n.chans[c].cap.release(1);
                    }
                    let v = s.tasks[t].tmp;
                    done(n, ex(v.to_string()))
                }
            }
        }
        Op::CloseRx(c) => {
            if !s.tasks[t].rx[*c] {
                return Some(skip(n));
            }
            n.chans[*c].cap.close();
            done(n, ex(""))
        }
        Op::DropTx(c) => {
            let c = *c;
            if !s.tasks[t].tx[c] {
                return Some(skip(n));
            }
            match j {
                0 => {
                    n.tasks[t].tx[c] = false;
                    n.chans[c].senders -= 1;
                    if n.chans[c].senders > 0 {
                        done(n, ex("ok"))
                    } else {
                        // keep the "has sender" precondition true for micro 1
                        n.tasks[t].tx[c] = true;
                        cont(n, 1)
                    }
                }
                _ => {
                    n.tasks[t].tx[c] = false;
                    n.chans[c].cap.close();
                    if n.chans[c].buf.is_empty() {
                        n.chans[c].recv_closed = true;
                    }
                    done(n, ex("ok"))
                }
            }
        }
        Op::DropRx(c) => {
            let c = *c;
            if !s.tasks[t].rx[c] {
                return Some(skip(n));
            }
            n.tasks[t].rx[c] = false;
            n.chans[c].cap.close();
            n.chans[c].buf.clear();
            n.chans[c].published = 0;
            done(n, ex("ok"))
        }
        Op::Capacity(c) => {
            if !s.tasks[t].tx[*c] || s.chans[*c].bound.is_none() {
                return Some(skip(n));
            }
            if s.chans[*c].cap.closed {
                done(n, Res::Any)
            } else {
                done(n, ex(s.chans[*c].cap.avail.to_string()))
            }
        }
        Op::TxClosed(c) => {
            if !s.tasks[t].tx[*c] {
                return Some(skip(n));
            }
            done(n, ex(s.chans[*c].cap.closed.to_string()))
        }
        _ => return None,
    };
    let _ = p;
    Some(r)
}
