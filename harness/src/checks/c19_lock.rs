//! C19 — the lockstep powerset checker over the reference model, the model-independent history
//! monitors, and the naming of violations through defect hypotheses.

use super::c19_micro_b::{cancel_effect, micro, must_run, op_for_label, DROPPING};
use super::c19_model::*;
use super::c19_prog::{Op, TProgram};
use crate::sim::{Decision, Event, ExecTrace};
use std::collections::{BTreeMap, BTreeSet};

#[derive(Clone, Debug)]
pub struct Mismatch {
    pub class: String,
    pub detail: String,
    pub step: usize,
    /// operation the mismatch is about, if any
    pub op: Option<Op>,
}

#[derive(Clone, Debug, Default)]
pub struct Stats {
    pub steps: usize,
    pub max_states: usize,
    pub probes: BTreeMap<String, u64>,
}

const MAX_STATES: usize = 3000;

fn advance_one(p: &TProgram, h: &Hyp, s0: &MState, t: usize, evs: &[&Event], out: &mut BTreeSet<MState>) {
    let mut stack: Vec<(MState, usize)> = vec![(s0.clone(), 0)];
    let mut seen: BTreeSet<(MState, usize)> = BTreeSet::new();
    while let Some((s, ei)) = stack.pop() {
        if !seen.insert((s.clone(), ei)) {
            continue;
        }
        if seen.len() > 20000 {
            return;
        }
        let task = &s.tasks[t];
        let next = evs.get(ei).copied();
        // "Q" (a poll of the body starts) carries no model information
        if let Some(e) = next {
            if e.kind == "Q" {
                stack.push((s.clone(), ei + 1));
                continue;
            }
        }
        match &task.st {
            TSt::NotSpawned | TSt::Done => continue,
            TSt::Ready => match next {
                Some(e) if e.kind == "B" => {
                    let mut n = s.clone();
                    n.tasks[t].st = TSt::Idle;
                    stack.push((n, ei + 1));
                }
                // aborted before it ever ran: the body future is dropped unpolled, nothing is logged
                None => {
                    out.insert(s.clone());
                    if task.abort_req {
                        let mut n = s.clone();
                        n.tasks[t].st = TSt::Done;
                        n.tasks[t].outcome = 2;
                        out.insert(n);
                    }
                }
                _ => {}
            },
            TSt::Exiting => {
                if next.is_none() {
                    out.insert(s.clone());
                    let mut d = s.clone();
                    d.tasks[t].st = TSt::Done;
                    out.insert(d);
                }
            }
            TSt::Idle => match next {
                None => {
                    out.insert(s.clone());
                }
                Some(e) => match e.kind.as_str() {
                    "S" => {
                        if op_for_label(p, t, &e.op).is_some() {
                            let mut n = s.clone();
                            n.tasks[t].st = TSt::Pending { micro: 0 };
                            n.tasks[t].label = e.op.clone();
                            stack.push((n, ei + 1));
                        }
                    }
                    "X" => {
                        let mut n = s.clone();
                        n.tasks[t].st = TSt::Exiting;
                        if e.val == "aborted" {
                            if !task.abort_req {
                                continue;
                            }
                            n.tasks[t].outcome = 2;
                        } else {
                            n.tasks[t].outcome = 1;
                        }
                        stack.push((n, ei + 1));
                    }
                    _ => {}
                },
            },
            TSt::Pending { micro: j } => {
                let (op, uv) = match op_for_label(p, t, &task.label) {
                    Some(x) => x,
                    None => continue,
                };
                let core = op.core().clone();
                let wrapped = matches!(op, Op::Cancel(..) | Op::Timeout(_));
                if let Some(e) = next {
                    let is_cancel = (e.kind == "C" && e.op == task.label)
                        || (e.kind == "E"
                            && e.op == task.label
                            && ((matches!(op, Op::Cancel(..)) && e.val == "cancelled") || (matches!(op, Op::Timeout(_)) && e.val == "elapsed" && s.triggered[t])));
                    if is_cancel {
                        if e.kind == "C" && !task.abort_req {
                            continue;
                        }
                        if *j == DROPPING {
                            let mut n = s.clone();
                            n.tasks[t].st = TSt::Idle;
                            n.tasks[t].tmp = 0;
                            n.tasks[t].label.clear();
                            stack.push((n, ei + 1));
                            continue;
                        }
                        if let Some(ns) = cancel_effect(h, &s, t, &core, *j) {
                            for mut n in ns {
                                n.tasks[t].st = TSt::Idle;
                                n.tasks[t].tmp = 0;
                                n.tasks[t].label.clear();
                                stack.push((n, ei + 1));
                            }
                        }
                        continue;
                    }
                }
                if next.is_none() {
                    out.insert(s.clone());
                }
                // dropping a `Notified` that notify_one had selected forwards the notification and
                // only then reaches a scheduling point: the effect may precede the End / Cancel event
                let selected = match &core {
                    Op::Notified(ni) if *j >= 1 => s.notifies[*ni].st(task.tmp as u32) == Some(3),
                    Op::NAwait(slot) => matches!(task.nslots.get(*slot).cloned().flatten(), Some((ni, id)) if s.notifies[ni].st(id) == Some(3)),
                    _ => false,
                };
                if *j != DROPPING && selected && (matches!(op, Op::Cancel(..)) || (matches!(op, Op::Timeout(_)) && s.triggered[t]) || task.abort_req) {
                    if let Some(ns) = cancel_effect(h, &s, t, &core, *j) {
                        for mut n in ns {
                            n.tasks[t].st = TSt::Pending { micro: DROPPING };
                            stack.push((n, ei));
                        }
                    }
                }
                if let Some(outs) = micro(p, h, &s, t, &core, *j, uv) {
                    for o in outs {
                        match o {
                            Out::Cont(mut n, nj) => {
                                n.tasks[t].st = TSt::Pending { micro: nj };
                                stack.push((n, ei));
                            }
                            Out::Done(mut n, res) => {
                                if let Some(e) = next {
                                    if e.kind == "E" && e.op == task.label {
                                        let ok = if wrapped {
                                            e.val.strip_prefix("ready:").map(|v| res.matches(v)).unwrap_or(false)
                                        } else {
                                            res.matches(&e.val)
                                        };
                                        if ok {
                                            n.tasks[t].st = TSt::Idle;
                                            n.tasks[t].tmp = 0;
                                            n.tasks[t].label.clear();
                                            stack.push((n, ei + 1));
                                        }
                                    }
                                }
                            }
                        }
                    }
                }
            }
        }
    }
}

/// At a reported deadlock every task sits at a wait point. Starting from model state `s0`, let
/// every pending operation run its silent micro-operations; Ok if some reachable state has no
/// task that can complete an operation or start one. Err = (a state, a task that can run in it).
fn quiesce(p: &TProgram, h: &Hyp, s0: &MState) -> Result<(), (MState, usize)> {
    let nb = p.bodies.len();
    let mut stack = vec![s0.clone()];
    let mut seen: BTreeSet<MState> = BTreeSet::new();
    let mut witness: Option<(MState, usize)> = None;
    while let Some(s) = stack.pop() {
        if !seen.insert(s.clone()) || seen.len() > 2000 {
            continue;
        }
        let mut runnable: Option<usize> = None;
        let mut succ: Vec<MState> = vec![];
        for t in 0..nb {
            match &s.tasks[t].st {
                TSt::NotSpawned | TSt::Done | TSt::Exiting => {}
                TSt::Ready | TSt::Idle => runnable = Some(t),
                TSt::Pending { micro: j } => {
                    let (op, uv) = match op_for_label(p, t, &s.tasks[t].label) {
                        Some(x) => x,
                        None => continue,
                    };
                    if *j == DROPPING || enabled_by_wrapper(p, h, &s, t) {
                        runnable = Some(t);
                        continue;
                    }
                    if let Some(outs) = micro(p, h, &s, t, op.core(), *j, uv) {
                        for o in outs {
                            match o {
                                Out::Done(..) => runnable = Some(t),
                                Out::Cont(mut n, nj) => {
                                    n.tasks[t].st = TSt::Pending { micro: nj };
                                    succ.push(n);
                                }
                            }
                        }
                    }
                }
            }
        }
        match runnable {
            None if succ.is_empty() => return Ok(()),
            Some(t) if witness.is_none() => witness = Some((s.clone(), t)),
            _ => {}
        }
        if runnable.is_none() || true {
            stack.extend(succ);
        }
    }
    Err(witness.unwrap_or((s0.clone(), 0)))
}

/// enabled regardless of the operation's own guard: aborted task, cancel combinator (self-waking),
/// fired timeout
fn enabled_by_wrapper(p: &TProgram, _h: &Hyp, s: &MState, t: usize) -> bool {
    if s.tasks[t].abort_req && !s.tasks[t].thread {
        return true;
    }
    match op_for_label(p, t, &s.tasks[t].label) {
        Some((op, _)) if super::c19_micro_b::sync_blocking(s, t, &op) => false,
        Some((Op::Cancel(..), _)) => true,
        Some((Op::Timeout(_), _)) => s.triggered[t],
        _ => false,
    }
}

pub fn brief(s: &MState) -> String {
    let ts: Vec<String> = s.tasks.iter().enumerate().map(|(i, t)| format!("b{}:{:?}@{}", i, t.st, t.label)).collect();
    format!(
        "tasks[{}] sems{:?} mutex{:?} rw{:?} chan{:?} one{:?} watch{:?} notify{:?}",
        ts.join(" "),
        s.sems.iter().map(|m| (m.avail, m.closed, m.queue.clone(), m.granted.clone())).collect::<Vec<_>>(),
        s.mutexes.iter().map(|m| (m.sem.avail, m.sem.queue.clone(), m.sem.granted.clone())).collect::<Vec<_>>(),
        s.rws.iter().map(|m| (m.sem.avail, m.sem.queue.clone(), m.sem.granted.clone())).collect::<Vec<_>>(),
        s.chans.iter().map(|c| (c.cap.avail, c.cap.closed, c.cap.queue.clone(), c.buf.len(), c.published, c.senders, c.recv_closed)).collect::<Vec<_>>(),
        s.ones,
        s.watches,
        s.notifies
    )
}

/// The lockstep check of one execution under hypothesis `h`. `ending`: None = returned normally,
/// Some(msg) = panic payload.
pub fn lockstep(p: &TProgram, h: &Hyp, ex: &ExecTrace, ending: Option<&str>) -> Result<Stats, Mismatch> {
    let mut stats = Stats::default();
    let decisions: Vec<&Decision> = ex.decisions().collect();
    let mut by_step: BTreeMap<u32, Vec<&Event>> = BTreeMap::new();
    for e in &ex.events {
        by_step.entry(e.step).or_default().push(e);
    }
    let mut body_of: BTreeMap<u32, usize> = BTreeMap::new();
    let mut next_tid: u32 = 1;
    let mut set: BTreeSet<MState> = BTreeSet::new();
    set.insert(init_state(p));
    let nb = p.bodies.len();
    let mm = |class: &str, detail: String, step: usize, op: Option<Op>| Mismatch { class: class.to_string(), detail, step, op };

    for (k, d) in decisions.iter().enumerate() {
        let chosen = match d.chosen {
            Some(c) => c,
            None => {
                stats.steps = k;
                return Ok(stats);
            }
        };
        let evs: Vec<&Event> = by_step.get(&((k + 1) as u32)).map(|v| v.iter().filter(|e| e.task == chosen).cloned().collect()).unwrap_or_default();
        // task ids are handed out in creation order: main is 0, the k-th completed Spawn creates k
        if k == 0 {
            body_of.insert(0, 0);
        }
        if let Some(e) = evs.iter().find(|e| e.kind == "B") {
            if let Ok(b) = e.op.parse::<usize>() {
                match body_of.get(&chosen) {
                    Some(x) if *x == b => {}
                    other => return Err(mm("task-id-mapping", format!("task {} begins body {} but creation order says {:?}", chosen, b, other), k + 1, None)),
                }
            }
        }
        // ---- prune model states in which a task that must be runnable is not offered ----
        let tid_of: BTreeMap<usize, u32> = body_of.iter().map(|(t, b)| (*b, *t)).collect();
        let offered: BTreeSet<u32> = d.offered.iter().cloned().collect();
        let keep: BTreeSet<MState> = set
            .iter()
            .filter(|s| (0..nb).all(|b| tid_of.get(&b).map(|tid| offered.contains(tid) || !must_run(p, h, s, b)).unwrap_or(true)))
            .cloned()
            .collect();
        if keep.is_empty() {
            *stats.probes.entry("liveness_filter_skipped".into()).or_insert(0) += 1;
            if let Some(s) = set.iter().next() {
                for b in 0..nb {
                    if let Some(tid) = tid_of.get(&b) {
                        if !offered.contains(tid) && must_run(p, h, s, b) {
                            let kind = op_for_label(p, b, &s.tasks[b].label).map(|x| x.0.kind()).unwrap_or_else(|| format!("{:?}", s.tasks[b].st));
                            *stats.probes.entry(format!("filter_skip_{}", kind)).or_insert(0) += 1;
                            if std::env::var("C19_TRACE_SKIP").is_ok() {
                                eprintln!("FILTER-SKIP decision {} body {} kind {} offered {:?} state {} prog {}", k, b, kind, d.offered, brief(s), serde_json::to_string(p).unwrap());
                            }
                        }
                    }
                }
            }
        } else {
            set = keep;
        }
        let t = match body_of.get(&chosen) {
            Some(b) => *b,
            None => {
                if evs.is_empty() {
                    // a task we have not seen logging yet made a step without logging (cannot happen
                    // for bodies; kept permissive)
                    continue;
                }
                return Err(mm("unknown-task", format!("step {} of unknown task {} logs {:?}", k + 1, chosen, evs.first()), k + 1, None));
            }
        };
        let mut next: BTreeSet<MState> = BTreeSet::new();
        for s in &set {
            advance_one(p, h, s, t, &evs, &mut next);
            if next.len() > MAX_STATES {
                break;
            }
        }
        if next.is_empty() {
            // which operation is the step about?
            // the first event that no model state can produce
            let mut culprit = evs.last().copied();
            for i in 1..=evs.len() {
                let mut tmp: BTreeSet<MState> = BTreeSet::new();
                for s in &set {
                    advance_one(p, h, s, t, &evs[..i], &mut tmp);
                    if !tmp.is_empty() {
                        break;
                    }
                }
                if tmp.is_empty() {
                    culprit = Some(evs[i - 1]);
                    break;
                }
            }
            let about = culprit.and_then(|e| op_for_label(p, t, &e.op)).map(|x| x.0);
            return Err(mm(
                "step-not-explained",
                format!(
                    "step {} of body {} (task {}): event {:?} of {:?} cannot be produced by any of {} model states; e.g. {}",
                    k + 1,
                    t,
                    chosen,
                    culprit.map(|e| format!("{}{}={}", e.kind, e.op, e.val)),
                    evs.iter().map(|e| format!("{}{}={}", e.kind, e.op, e.val)).collect::<Vec<_>>(),
                    set.len(),
                    set.iter().next().map(brief).unwrap_or_default()
                ),
                k + 1,
                about,
            ));
        }
        if next.len() > MAX_STATES {
            *stats.probes.entry("state_cap_hit".into()).or_insert(0) += 1;
            stats.steps = k + 1;
            return Ok(stats);
        }
        for e in &evs {
            if e.kind == "E" && e.val == "ok" {
                if let Some((Op::Spawn(b), _)) = op_for_label(p, t, &e.op) {
                    body_of.insert(next_tid, b);
                    next_tid += 1;
                }
            }
        }
        stats.max_states = stats.max_states.max(next.len());
        set = next;
        stats.steps = k + 1;
    }

    if ex.stopped {
        return Ok(stats);
    }
    match ending {
        None => {
            let ok = set.iter().any(|s| (0..nb).all(|t| s.tasks[t].detached || matches!(s.tasks[t].st, TSt::Done | TSt::NotSpawned | TSt::Exiting)));
            if !ok {
                return Err(mm("ended-early", format!("execution ended normally but in every model state an attached task is unfinished; e.g. {}", set.iter().next().map(brief).unwrap_or_default()), stats.steps, None));
            }
        }
        Some(msg) if msg.starts_with("deadlock!") => {
            let mut witness: Option<(MState, usize)> = None;
            for s in &set {
                match quiesce(p, h, s) {
                    Ok(()) => {
                        *stats.probes.entry("deadlock_verdict_confirmed".into()).or_insert(0) += 1;
                        return Ok(stats);
                    }
                    Err(w) => {
                        if witness.is_none() {
                            witness = Some(w);
                        }
                    }
                }
            }
            let (s, t) = witness.unwrap();
            let op = op_for_label(p, t, &s.tasks[t].label).map(|x| x.0);
            return Err(mm(
                "false-deadlock",
                format!("runtime reports a deadlock but in every one of the {} model states some task can run; e.g. body {} in {} ({:?})", set.len(), t, brief(&s), op),
                stats.steps,
                op,
            ));
        }
        Some(_) => {}
    }
    Ok(stats)
}

// ---------------------------------------------------------------------------------------------
// Model-independent history monitors
// ---------------------------------------------------------------------------------------------

pub fn history_monitors(p: &TProgram, ex: &ExecTrace) -> Vec<(String, String)> {
    let mut f: Vec<(String, String)> = vec![];
    // body of each task id
    let mut body_of: BTreeMap<u32, usize> = BTreeMap::new();
    for e in &ex.events {
        if e.kind == "B" {
            if let Ok(b) = e.op.parse::<usize>() {
                body_of.insert(e.task, b);
            }
        }
    }
    // operations as (body, op, start index, end index, result)
    struct Done {
        body: usize,
        op: Op,
        s: usize,
        e: usize,
        val: String,
        uv: u64,
    }
    let mut open: BTreeMap<(usize, String), usize> = BTreeMap::new();
    let mut done: Vec<Done> = vec![];
    for (i, e) in ex.events.iter().enumerate() {
        let b = match body_of.get(&e.task) {
            Some(b) => *b,
            None => continue,
        };
        match e.kind.as_str() {
            "S" => {
                open.insert((b, e.op.clone()), i);
            }
            "E" => {
                if let (Some(s), Some((op, uv))) = (open.remove(&(b, e.op.clone())), op_for_label(p, b, &e.op)) {
                    done.push(Done { body: b, op, s, e: i, val: e.val.clone(), uv });
                }
            }
            _ => {}
        }
    }
    // result of the core operation; a cancelled / elapsed wrapper has none
    let strip = |v: &str| -> String {
        if v == "cancelled_by_wrapper" {
            "skip".to_string()
        } else {
            v.strip_prefix("ready:").unwrap_or(v).to_string()
        }
    };
    for d in done.iter_mut() {
        if matches!(d.op, Op::Cancel(..) | Op::Timeout(_)) && !d.val.starts_with("ready:") {
            d.val = "cancelled_by_wrapper".to_string();
        }
    }
    // ---- mpsc: exactly-once, only sent values, real-time order, per-sender order ----
    for c in 0..p.res.chans.len() {
        // sends that may have put their value into the channel: completed ok, or still open
        let mut sent: BTreeMap<u64, (usize, Option<usize>, usize)> = BTreeMap::new(); // value -> (start, end, body)
        for d in &done {
            if matches!(d.op.core(), Op::Send(x) | Op::TrySend(x) if *x == c) && strip(&d.val) == "ok" {
                sent.insert(d.uv, (d.s, Some(d.e), d.body));
            }
        }
        for ((b, label), s) in &open {
            if let Some((op, uv)) = op_for_label(p, *b, label) {
                if matches!(op.core(), Op::Send(x) | Op::TrySend(x) if *x == c) {
                    sent.insert(uv, (*s, None, *b));
                }
            }
        }
        let mut got: Vec<(u64, usize)> = vec![];
        for d in &done {
            if matches!(d.op.core(), Op::Recv(x) | Op::TryRecv(x) if *x == c) {
                if let Ok(v) = strip(&d.val).parse::<u64>() {
                    got.push((v, d.e));
                }
            }
        }
        got.sort_by_key(|g| g.1);
        let mut seen: BTreeSet<u64> = BTreeSet::new();
        for (v, at) in &got {
            if !seen.insert(*v) {
                f.push(("mpsc:value-received-twice".into(), format!("channel {}: value {} received twice", c, v)));
            }
            match sent.get(v) {
                None => f.push(("mpsc:value-never-sent".into(), format!("channel {}: received {} which no successful or pending send carries", c, v))),
                Some((s, _, _)) => {
                    if s > at {
                        f.push(("mpsc:value-received-before-send".into(), format!("channel {}: value {} received before its send started", c, v)));
                    }
                }
            }
        }
        for i in 0..got.len() {
            for j in i + 1..got.len() {
                if let (Some(a), Some(b)) = (sent.get(&got[i].0), sent.get(&got[j].0)) {
                    // got[i] was received first; wrong if b's send completed before a's send started
                    if let Some(be) = b.1 {
                        if be < a.0 {
                            f.push(("mpsc:order".into(), format!("channel {}: {} received before {} although the send of {} completed before the send of {} began", c, got[i].0, got[j].0, got[j].0, got[i].0)));
                        }
                    }
                }
            }
        }
        // a completed successful send whose value was skipped while a later-started one was received
        if let Some(b) = p.res.chans[c] {
            // bound: completed-unreceived sends never exceed the bound at any time
            let mut evs: Vec<(usize, i64)> = vec![];
            for (v, (_, e, _)) in &sent {
                if let Some(e) = e {
                    evs.push((*e, 1));
                    let _ = v;
                }
            }
            let recv_start: BTreeMap<u64, usize> = done
                .iter()
                .filter(|d| matches!(d.op.core(), Op::Recv(x) | Op::TryRecv(x) if *x == c))
                .filter_map(|d| strip(&d.val).parse::<u64>().ok().map(|v| (v, d.s)))
                .collect();
            for (v, (_, e, _)) in &sent {
                if e.is_some() {
                    if let Some(rs) = recv_start.get(v) {
                        evs.push((*rs, -1));
                    }
                }
            }
            evs.sort();
            let mut cur = 0i64;
            for (at, dlt) in evs {
                cur += dlt;
                if cur > b as i64 {
                    f.push(("mpsc:bound-exceeded".into(), format!("channel {} (bound {}): {} completed sends not yet being received at event {}", c, b, cur, at)));
                    break;
                }
            }
        }
    }
    // ---- oneshot: at most one value, and it is the sent one ----
    for o in 0..p.res.oneshots.len() {
        let sent: Vec<u64> = done.iter().filter(|d| matches!(d.op.core(), Op::OsSend(x) if *x == o) && d.val == "ok").map(|d| d.uv).collect();
        let got: Vec<String> = done
            .iter()
            .filter(|d| matches!(d.op.core(), Op::OsRecv(x) | Op::OsTryRecv(x) if *x == o))
            .filter_map(|d| strip(&d.val).strip_prefix("ok:").map(|s| s.to_string()))
            .collect();
        if got.len() > 1 {
            f.push(("oneshot:more-than-one-value".into(), format!("oneshot {} delivered {:?}", o, got)));
        }
        for g in &got {
            if !sent.iter().any(|s| s.to_string() == *g) {
                // the send may still be in flight (value stored before its End)
                let pending = open.iter().any(|((b, l), _)| matches!(op_for_label(p, *b, l), Some((op, uv)) if matches!(op.core(), Op::OsSend(x) if *x == o) && uv.to_string() == *g));
                if !pending {
                    f.push(("oneshot:value-never-sent".into(), format!("oneshot {} delivered {} which was not sent", o, g)));
                }
            }
        }
    }
    // ---- tasks: join results, abort semantics ----
    let mut exit_of: BTreeMap<usize, (usize, String)> = BTreeMap::new();
    for (i, e) in ex.events.iter().enumerate() {
        if e.kind == "X" {
            if let Ok(b) = e.op.parse::<usize>() {
                exit_of.insert(b, (i, e.val.clone()));
            }
        }
    }
    // handle slots: replay Spawn completions per body
    let mut slots: BTreeMap<usize, Vec<usize>> = BTreeMap::new();
    let mut by_end: Vec<&Done> = done.iter().collect();
    by_end.sort_by_key(|d| d.e);
    for d in &by_end {
        match d.op.core() {
            Op::Spawn(b) if d.val == "ok" => slots.entry(d.body).or_default().push(*b),
            Op::Join(slot) => {
                let v = strip(&d.val);
                if v == "skip" {
                    continue;
                }
                if let Some(target) = slots.get(&d.body).and_then(|s| s.get(*slot)) {
                    match exit_of.get(target) {
                        Some((xi, xv)) => {
                            let want = if xv == "aborted" { "cancelled".to_string() } else { format!("ok:{}", xv.trim_start_matches("ret:")) };
                            if v != want {
                                f.push(("task:join-result".into(), format!("join of body {} returned {} but the body ended with {}", target, v, xv)));
                            }
                            if *xi > d.e {
                                f.push(("task:join-before-exit".into(), format!("join of body {} completed before the body ended", target)));
                            }
                        }
                        None => {
                            // never started (aborted before its first poll) is the only legal case
                            if v != "cancelled" {
                                f.push(("task:join-result".into(), format!("join of body {} returned {} but the body never ended", target, v)));
                            }
                        }
                    }
                }
            }
            Op::Abort(slot) if d.val == "ok" => {
                if let Some(target) = slots.get(&d.body).and_then(|s| s.get(*slot)) {
                    // the flag is set in the step that logs End: no poll of the target may start later
                    let late_poll = ex.events.iter().enumerate().any(|(i, e)| i > d.e && e.kind == "Q" && e.op == target.to_string());
                    if late_poll {
                        f.push(("task:polled-after-abort".into(), format!("body {} was polled after abort() had returned", target)));
                    }
                }
            }
            _ => {}
        }
    }
    for (b, (xi, xv)) in &exit_of {
        if xv == "aborted" {
            let aborted_before = by_end.iter().any(|d| matches!(d.op.core(), Op::Abort(slot) if slots.get(&d.body).and_then(|s| s.get(*slot)) == Some(b)) && open_or_before(d.s, *xi));
            let abort_open = open.iter().any(|((ob, l), s)| matches!(op_for_label(p, *ob, l), Some((op, _)) if matches!(op.core(), Op::Abort(_))) && *s < *xi);
            if !aborted_before && !abort_open {
                f.push(("task:cancelled-without-abort".into(), format!("body {} was cancelled but nobody aborted it", b)));
            }
            // nothing but destructor events after the cancellation point: checked by the model
        }
    }
    f
}

fn open_or_before(s: usize, x: usize) -> bool {
    s < x
}
