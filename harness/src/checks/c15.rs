//! C15 — vector clocks track exactly the happens-before relation.
use super::common::*;
use super::families::body_map;
use crate::coord::{Batch, Check, RunOut, Tier};
use crate::model::op_for_label;
use crate::prog::{gen_program, run_program, take_monitor_violations, GenCfg, Op, Program, SAMPLE_CLOCKS};
use crate::sim::{hash_debug, quiet_config, run_recorded, vec_to_schedule, Ending, ExecTrace, Rng, SimCfg, SimSched};
use serde::{Deserialize, Serialize};
use serde_json::{json, Value};
use shuttle::scheduler::ReplayScheduler;
use shuttle_engine::runtime::task::clock::VectorClock;
use std::collections::BTreeMap;
use std::sync::Arc;

pub fn check() -> Check {
    Check {
        id: "C15",
        level: "exploration",
        rule: "per run: a seeded program over the synchronising primitives (vector-clocks feature on), current::clock() sampled after every operation; happens-before edges are derived from the event log by API-level rules only (program order, spawn->child start, child end->join, unlock->next lock, write-unlock->any later acquire / read-unlock->later write, send->matching recv, recv i->send i+cap on bounded channels, atomic write->later read/RMW of the same variable, notify->woken wait, barrier, once). (i) every edge a->b: clock(b) dominates clock(a); (iii) each task's samples are monotone; (ii, restricted batch without try-operations/condvar/barrier/once) two samples of different tasks, both taken at clock-advancing operations and unrelated in the transitive closure, are incomparable (also according to VectorClock::partial_cmp); (iv) a replay restricted to the clock of a drawn target event still performs every event of its causal past, and the event itself, with the same results. Distinct = (program, chosen sequence); non-trivial = at least one cross-task edge",
        assumptions: &["samples are compared only at clock-advancing operations (lock, unlock, atomic, channel, barrier, spawn, join), as the property states", "direction (ii) is asserted only for the restricted family for which the derived edge set is complete"],
        real_components: "real: shuttle-engine vector clocks (task/clock.rs, BatchSemaphore permit clocks), shuttle-std primitives' clock plumbing, ReplayScheduler::set_target_clock; stub: none",
        batches: |t: Tier| vec![Batch::new("edges", t.pick(10000, 200000), 300), Batch::new("exact", t.pick(10000, 200000), 300), Batch::new("target", t.pick(2500, 40000), 150)],
        run,
        replay,
        probes: &["edges_checked", "edge_po", "edge_spawn", "edge_join", "edge_unlock_lock", "edge_rw", "edge_send_recv", "edge_recv_send_bounded", "edge_atomic", "edge_sem_release_acquire", "edge_notify_wait", "edge_once", "edge_once_init_observed", "concurrent_pairs_checked", "target_replays", "target_replay_skipped_steps"],
    }
}

#[derive(Clone, Debug, Serialize, Deserialize)]
struct Case {
    prog: Program,
    sim: SimCfg,
    batch: String,
    target: u64,
}

#[derive(Clone, Debug)]
struct Sample {
    task: u32,
    body: usize,
    label: String,
    op: Op,
    val: String,
    clock: Vec<u32>,
    uv: u64,
    advancing: bool,
    /// index of the sample's clock event in the execution's log
    ev: usize,
}

fn dominates(b: &[u32], a: &[u32]) -> bool {
    (0..a.len().max(b.len())).all(|i| a.get(i).cloned().unwrap_or(0) <= b.get(i).cloned().unwrap_or(0))
}

fn is_advancing(op: &Op, val: &str) -> bool {
    match op {
        Op::Lock(_) | Op::Unlock(_) | Op::Read(_) | Op::Write(_) | Op::UnlockRead(_) | Op::UnlockWrite(_) => val != "skip",
        Op::TryLock(_) | Op::TryRead(_) | Op::TryWrite(_) => val != "wouldblock",
        Op::ALoad(_) | Op::AStore(_) | Op::AAdd(..) | Op::ASwap(_) | Op::ACas(_) => true,
        Op::Send(_) | Op::TrySend(_) => val == "ok",
        Op::Recv(_) | Op::TryRecv(_) => val.parse::<u64>().is_ok(),
        Op::BarrierWait(_) | Op::Spawn(_) | Op::ScopedSpawn(_) => true,
        Op::Join(_) => val.starts_with("ok"),
        Op::SemRelease(..) => true,
        Op::SemTry(..) => val.starts_with("ok"),
        _ => false,
    }
}

fn samples_of(p: &Program, ex: &ExecTrace) -> Vec<Sample> {
    let bm = body_map(p, ex);
    let mut v = vec![];
    let mut last_e: BTreeMap<u32, (String, String)> = BTreeMap::new();
    for (ev, e) in ex.events.iter().enumerate() {
        if e.kind == "E" {
            last_e.insert(e.task, (e.op.clone(), e.val.clone()));
        }
        if e.kind == "C" {
            let b = match bm.get(&e.task) {
                Some(b) => *b,
                None => continue,
            };
            let val = match last_e.get(&e.task) {
                Some((l, val)) if *l == e.op => val.clone(),
                _ => continue,
            };
            if let Some((op, uv)) = op_for_label(p, b, &e.op) {
                let clock: Vec<u32> = if e.val.is_empty() { vec![] } else { e.val.split(',').filter_map(|x| x.parse().ok()).collect() };
                let advancing = is_advancing(&op, &val);
                v.push(Sample { task: e.task, body: b, label: e.op.clone(), op, val, clock, uv, advancing, ev });
            }
        }
    }
    v
}

/// happens-before edges between sample indices, with a kind name
fn edges(p: &Program, s: &[Sample], bm_rev: &BTreeMap<usize, u32>) -> Vec<(usize, usize, &'static str)> {
    let mut e = vec![];
    let n = s.len();
    // program order
    let mut last: BTreeMap<u32, usize> = BTreeMap::new();
    let mut first: BTreeMap<u32, usize> = BTreeMap::new();
    for i in 0..n {
        if let Some(prev) = last.get(&s[i].task) {
            e.push((*prev, i, "edge_po"));
        }
        last.insert(s[i].task, i);
        first.entry(s[i].task).or_insert(i);
    }
    for i in 0..n {
        match &s[i].op {
            Op::Spawn(c) | Op::ScopedSpawn(c) => {
                if let Some(ct) = bm_rev.get(c) {
                    if let Some(f) = first.get(ct) {
                        e.push((i, *f, "edge_spawn"));
                    }
                }
            }
            Op::Join(_) if s[i].val.starts_with("ok:") => {
                if let Ok(c) = s[i].val[3..].parse::<usize>() {
                    if let Some(ct) = bm_rev.get(&c) {
                        // the child's last sample
                        if let Some(l) = (0..n).rev().find(|j| s[*j].task == *ct) {
                            if l < i {
                                e.push((l, i, "edge_join"));
                            }
                        }
                    }
                }
            }
            _ => {}
        }
    }
    // mutexes: last release -> next acquisition
    for m in 0..p.res.mutexes {
        let mut last_rel: Option<usize> = None;
        for i in 0..n {
            match &s[i].op {
                Op::Unlock(x) if *x == m && s[i].val == "ok" => last_rel = Some(i),
                Op::Lock(x) | Op::TryLock(x) if *x == m && (s[i].val.starts_with("ok:") || s[i].val.starts_with("poison:")) => {
                    if let Some(r) = last_rel {
                        e.push((r, i, "edge_unlock_lock"));
                    }
                }
                Op::Wait(_, x) if *x == m && s[i].val != "skip" => {
                    // wait re-acquires the mutex on return
                    if let Some(r) = last_rel {
                        e.push((r, i, "edge_unlock_lock"));
                    }
                }
                _ => {}
            }
        }
    }
    // rwlocks: write-unlock -> any later acquire; read-unlock -> later write acquire
    for r in 0..p.res.rwlocks {
        let mut w_rel: Vec<usize> = vec![];
        let mut r_rel: Vec<usize> = vec![];
        for i in 0..n {
            let ok = s[i].val.starts_with("ok:") || s[i].val.starts_with("poison:");
            match &s[i].op {
                Op::UnlockWrite(x) if *x == r && s[i].val == "ok" => w_rel.push(i),
                Op::UnlockRead(x) if *x == r && s[i].val == "ok" => r_rel.push(i),
                Op::Read(x) | Op::TryRead(x) if *x == r && ok => {
                    if let Some(w) = w_rel.last() {
                        e.push((*w, i, "edge_rw"));
                    }
                }
                Op::Write(x) | Op::TryWrite(x) if *x == r && ok => {
                    if let Some(w) = w_rel.last() {
                        e.push((*w, i, "edge_rw"));
                    }
                    for rr in &r_rel {
                        e.push((*rr, i, "edge_rw"));
                    }
                }
                _ => {}
            }
        }
    }
    // channels
    for c in 0..p.res.chans.len() {
        let mut sends: Vec<usize> = vec![];
        let mut recvs: Vec<usize> = vec![];
        for i in 0..n {
            match &s[i].op {
                Op::Send(x) | Op::TrySend(x) if *x == c && s[i].val == "ok" => sends.push(i),
                Op::Recv(x) | Op::TryRecv(x) if *x == c && s[i].val.parse::<u64>().is_ok() => recvs.push(i),
                _ => {}
            }
        }
        for r in &recvs {
            let v: u64 = s[*r].val.parse().unwrap();
            if let Some(sd) = sends.iter().find(|j| s[**j].uv == v) {
                if sd < r {
                    e.push((*sd, *r, "edge_send_recv"));
                }
            }
        }
        if let Some(cap) = p.res.chans[c] {
            if cap > 0 {
                for (k, r) in recvs.iter().enumerate() {
                    if let Some(sd) = sends.get(k + cap) {
                        if r < sd {
                            e.push((*r, *sd, "edge_recv_send_bounded"));
                        }
                    }
                }
            }
        }
    }
    // counting semaphores used without blocking (release / try_acquire): permits are handed out FIFO and
    // carry the clock of the release that produced them
    for sm in 0..p.res.sems.len() {
        let mut batches: std::collections::VecDeque<(usize, Option<usize>)> = std::collections::VecDeque::new();
        if p.res.sems[sm].0 > 0 {
            batches.push_back((p.res.sems[sm].0, None));
        }
        let mut acquired: Vec<usize> = vec![]; // successful acquisitions so far
        for i in 0..n {
            match &s[i].op {
                Op::SemRelease(x, k) if *x == sm && *k > 0 => batches.push_back((*k, Some(i))),
                Op::SemTry(x, _) if *x == sm && !s[i].val.starts_with("ok") => {
                    // a failed try learns the clocks the earlier successful acquirers had when they acquired
                    for a in &acquired {
                        let pred = (0..*a).rev().find(|j| s[*j].task == s[*a].task);
                        match pred {
                            Some(pj) => e.push((pj, i, "edge_acquire_failed_try")),
                            None => {
                                // the acquirer's first sample: its clock at that point is what its spawn gave it
                                if let Some(sp) = (0..n).find(|j| matches!(&s[*j].op, Op::Spawn(c) | Op::ScopedSpawn(c) if *c == s[*a].body)) {
                                    e.push((sp, i, "edge_acquire_failed_try"));
                                }
                            }
                        }
                    }
                }
                Op::SemTry(x, k) if *x == sm && s[i].val.starts_with("ok") => {
                    acquired.push(i);
                    let mut need = *k;
                    while need > 0 {
                        match batches.front_mut() {
                            Some((cnt, src)) => {
                                if let Some(r) = src {
                                    e.push((*r, i, "edge_sem_release_acquire"));
                                }
                                if *cnt > need {
                                    *cnt -= need;
                                    need = 0;
                                } else {
                                    need -= *cnt;
                                    batches.pop_front();
                                }
                            }
                            None => break,
                        }
                    }
                }
                _ => {}
            }
        }
    }
    // atomics: every earlier write -> every later read / read-modify-write
    for a in 0..p.res.atomics {
        let mut writes: Vec<usize> = vec![];
        for i in 0..n {
            let (reads, writes_now) = match &s[i].op {
                Op::ALoad(x) if *x == a => (true, false),
                Op::AStore(x) if *x == a => (false, true),
                Op::AAdd(x, _) | Op::ASwap(x) if *x == a => (true, true),
                Op::ACas(x) if *x == a => (true, s[i].val.starts_with("ok")),
                _ => (false, false),
            };
            if reads {
                for w in &writes {
                    e.push((*w, i, "edge_atomic"));
                }
            }
            if writes_now {
                writes.push(i);
            }
        }
    }
    e
}

/// Once: (a) the initialising call -> every caller that returns after the initialiser completed;
/// (b) when the initialiser itself synchronised (it loaded atomic 0, event IL, and saw the value
/// of an identifiable store W), W -> every such caller (transitively: W -> load inside the
/// initialiser -> completion -> later caller).
fn once_edges(p: &Program, ex: &ExecTrace, s: &[Sample]) -> Vec<(usize, usize, &'static str)> {
    let mut out = vec![];
    for o in 0..p.res.onces {
        let os = o.to_string();
        let i_ev = match ex.events.iter().position(|e| e.kind == "I" && e.op == os) {
            Some(k) => k,
            None => continue,
        };
        let t = ex.events[i_ev].task;
        let j_ev = match ex.events.iter().position(|e| e.kind == "J" && e.op == os) {
            Some(k) => k,
            None => continue,
        };
        let is_call = |x: &Sample| matches!(&x.op, Op::CallOnce(y, _) if *y == o);
        let init = match s.iter().position(|x| x.ev > j_ev && x.task == t && is_call(x)) {
            Some(i) => i,
            None => continue,
        };
        let later: Vec<usize> = (0..s.len()).filter(|j| s[*j].ev > j_ev && is_call(&s[*j])).collect();
        for j in &later {
            if s[*j].task != t {
                out.push((init, *j, "edge_once"));
            }
        }
        if let Some(il) = ex.events.iter().position(|e| e.kind == "IL" && e.op == os && e.task == t) {
            if let Ok(v) = ex.events[il].val.parse::<u64>() {
                if v != 0 {
                    if let Some(w) = s.iter().position(|x| x.ev < il && x.uv == v && matches!(&x.op, Op::AStore(0) | Op::ASwap(0))) {
                        for j in &later {
                            out.push((w, *j, "edge_once_init_observed"));
                        }
                    }
                }
            }
        }
    }
    out
}

fn gen_case(batch: &str, rng: &mut Rng) -> Case {
    let mut cfg = GenCfg::none();
    cfg.max_bodies = rng.range(2, 4);
    cfg.max_ops = rng.range(2, 6);
    cfg.join_prob = 6;
    cfg.yields = rng.chance(1, 4);
    if batch == "exact" {
        // the restricted family: no try-operations, condvars, barriers, once, bounded channels
        match rng.below(5) {
            0 => {
                cfg.mutex = true;
                cfg.atomic = true;
            }
            1 => cfg.rwlock = true,
            2 => cfg.atomic = true,
            3 => cfg.sem = true,
            _ => cfg.chan = true,
        }
    } else {
        cfg = GenCfg::swarm(rng);
        cfg.park = false;
        cfg.tls = false;
        cfg.statics = false;
        cfg.scope = false;
        cfg.rand = false;
    }
    let mut prog = gen_program(rng, &cfg);
    prog.res.once_init_load = prog.res.onces > 0 && prog.res.atomics > 0 && rng.chance(2, 3);
    if batch == "exact" {
        for c in prog.res.chans.iter_mut() {
            *c = None;
        }
        // remove endpoint drops / try ops (keeps the derived edge set complete)
        for b in prog.bodies.iter_mut() {
            b.retain(|o| !matches!(o, Op::DropRx(_) | Op::TryRecv(_) | Op::TrySend(_)));
        }
        // semaphores: non-blocking use only (release / try_acquire of one permit), unfair, so that
        // permits are consumed exactly in the FIFO order of the batches
        for sm in prog.res.sems.iter_mut() {
            sm.1 = false;
        }
        for b in prog.bodies.iter_mut() {
            for o in b.iter_mut() {
                *o = match o.clone() {
                    Op::SemAcquire(x, _) | Op::SemCancel(x, _, _) | Op::SemStash(x, _) => Op::SemTry(x, 1),
                    Op::SemTry(x, _) => Op::SemTry(x, 1),
                    Op::SemRelease(x, _) => Op::SemRelease(x, 1),
                    Op::SemClose(x) | Op::SemTakeAwait(x) => Op::SemRelease(x, 1),
                    other => other,
                };
            }
        }
    }
    if batch == "edges" && rng.chance(1, 16) {
        // directed: a store, an initialiser that reads it, and callers that arrive at any time
        // (before, during, after the initialisation); nothing else orders them
        let late = |rng: &mut Rng| -> Vec<Op> {
            let mut v = vec![];
            for _ in 0..rng.below(3) {
                v.push(Op::Yield);
            }
            v.push(Op::CallOnce(0, false));
            v.push(Op::ALoad(0));
            v
        };
        let bodies = vec![vec![Op::Spawn(1), Op::Spawn(2), Op::Spawn(3), Op::Join(0), Op::Join(1), Op::Join(2)], vec![Op::AStore(0)], vec![Op::CallOnce(0, rng.chance(1, 2))], late(rng)];
        prog = Program { res: crate::prog::Resources { onces: 1, atomics: 1, once_init_load: true, ..Default::default() }, bodies };
    }
    let mut sim = SimCfg::new(rng.next_u64());
    sim.policy = random_policy(rng);
    sim.spurious = false;
    Case { prog, sim, batch: batch.to_string(), target: rng.next_u64() }
}

fn run_sampled<S: shuttle_engine::scheduler::Scheduler + Send + 'static>(sched: S, prog: &Arc<Program>) -> (Ending, crate::sim::RunTrace) {
    let p = prog.clone();
    let _ = take_monitor_violations();
    SAMPLE_CLOCKS.store(true, std::sync::atomic::Ordering::SeqCst);
    let r = run_recorded(sched, quiet_config(), move || run_program(&p));
    SAMPLE_CLOCKS.store(false, std::sync::atomic::Ordering::SeqCst);
    let _ = take_monitor_violations();
    r
}

fn check_case(case: &Case, out: &mut RunOut) {
    let cj = json!({"c15": case});
    let prog = Arc::new(case.prog.clone());
    let (ending, rt) = run_sampled(SimSched::new(case.sim.clone()), &prog);
    let ex = match rt.execs.first() {
        Some(e) => e,
        None => return,
    };
    out.evals += 1;
    out.decisions += ex.decisions().count() as u64;
    if let Ending::Panicked(m) = &ending {
        if !m.starts_with("deadlock!") {
            out.violation(format!("C15:unexpected-panic:{}", m.chars().take(30).collect::<String>()), m.clone(), cj.clone());
            return;
        }
    }
    let p = &case.prog;
    let s = samples_of(p, ex);
    let bm = body_map(p, ex);
    let bm_rev: BTreeMap<usize, u32> = bm.iter().map(|(t, b)| (*b, *t)).collect();
    let mut es = edges(p, &s, &bm_rev);
    es.extend(once_edges(p, ex, &s));
    let n = s.len();
    let mut cross = false;
    // (i) + (iii)
    for (a, b, kind) in &es {
        out.count("edges_checked", 1);
        out.count(kind, 1);
        if s[*a].task != s[*b].task {
            cross = true;
        }
        let mut src = s[*a].clock.clone();
        if *kind == "edge_send_recv" {
            if let Op::Send(c) | Op::TrySend(c) = &s[*a].op {
                if p.res.chans[*c].is_some() {
                    // bounded / rendezvous channels: after publishing the message the sender joins the
                    // clock of the receive that freed its slot (or of the waiting receiver), which ticks
                    // the sender's own component once more; the receiver depends on the sender as of the
                    // publication
                    let t = s[*a].task as usize;
                    if t < src.len() && src[t] > 0 {
                        src[t] -= 1;
                    }
                }
            }
        }
        if *kind == "edge_once" {
            // the completion clock is published before the initialising call releases the cell's
            // internal lock, which ticks the caller's own component again: compare that component
            // as of the initialising task's previous sample
            let t = s[*a].task as usize;
            let prev = (0..*a).rev().find(|k| s[*k].task == s[*a].task).map(|k| s[k].clock.get(t).cloned().unwrap_or(0)).unwrap_or(0);
            if t < src.len() {
                src[t] = prev;
            }
        }
        if !dominates(&s[*b].clock, &src) {
            let key = if *kind == "edge_po" { "C15:clock-not-monotone".to_string() } else { format!("C15:missing-order:{}", kind) };
            out.violation(
                key,
                format!(
                    "{} -> {}: body {} {}({:?})={} clock {:?} is not dominated by body {} {}({:?})={} clock {:?}",
                    a, b, s[*a].body, s[*a].label, s[*a].op, s[*a].val, s[*a].clock, s[*b].body, s[*b].label, s[*b].op, s[*b].val, s[*b].clock
                ),
                cj.clone(),
            );
            return;
        }
    }
    // notify -> woken wait (existential): the wait's clock dominates some notify issued before it returned
    for i in 0..n {
        if let Op::Wait(cv, _) = &s[i].op {
            if s[i].val == "skip" {
                continue;
            }
            let cands: Vec<usize> = (0..i).filter(|j| matches!(&s[*j].op, Op::NotifyOne(x) | Op::NotifyAll(x) if x == cv) && s[*j].task != s[i].task).collect();
            out.count("edge_notify_wait", 1);
            if !cands.iter().any(|j| dominates(&s[i].clock, &s[*j].clock)) {
                out.violation("C15:missing-order:edge_notify_wait", format!("wait of body {} returned with clock {:?}, which dominates none of the notifiers' clocks {:?}", s[i].body, s[i].clock, cands.iter().map(|j| s[*j].clock.clone()).collect::<Vec<_>>()), cj.clone());
                return;
            }
        }
    }
    if cross && ex.switches() > 0 {
        out.distinct.push(hash_debug(&(p, ex.chosen_seq())));
    }
    // transitive closure (small n)
    let mut reach = vec![vec![false; n]; n];
    for (a, b, _) in &es {
        reach[*a][*b] = true;
    }
    for k in 0..n {
        for i in 0..n {
            if reach[i][k] {
                for j in 0..n {
                    if reach[k][j] {
                        reach[i][j] = true;
                    }
                }
            }
        }
    }
    // (ii) exactness on the restricted family
    if case.batch == "exact" {
        for i in 0..n {
            for j in (i + 1)..n {
                if s[i].task == s[j].task || !s[i].advancing || !s[j].advancing {
                    continue;
                }
                if reach[i][j] || reach[j][i] {
                    continue;
                }
                out.count("concurrent_pairs_checked", 1);
                let ci = VectorClock::from(&s[i].clock[..]);
                let cjk = VectorClock::from(&s[j].clock[..]);
                let ordered = dominates(&s[i].clock, &s[j].clock) || dominates(&s[j].clock, &s[i].clock);
                if ordered || ci.partial_cmp(&cjk).is_some() {
                    out.violation(
                        "C15:spurious-order",
                        format!(
                            "body {} {}({:?})={} clock {:?} and body {} {}({:?})={} clock {:?} are connected by no happens-before chain but their clocks are ordered (partial_cmp = {:?})",
                            s[i].body, s[i].label, s[i].op, s[i].val, s[i].clock, s[j].body, s[j].label, s[j].op, s[j].val, s[j].clock, ci.partial_cmp(&cjk)
                        ),
                        cj.clone(),
                    );
                    return;
                }
            }
        }
    }
    // (iv) replay restricted to a target clock
    if case.batch == "target" && n > 0 && matches!(ending, Ending::Returned(_)) {
        let t = (case.target as usize) % n;
        let recorded = ex.recorded.clone().unwrap_or_default();
        let mut rs = ReplayScheduler::new_from_schedule(vec_to_schedule(recorded.0, &recorded.1));
        rs.set_target_clock(VectorClock::from(&s[t].clock[..]));
        rs.set_allow_incomplete();
        let (_rend, rrt) = run_sampled(rs, &prog);
        out.evals += 1;
        out.count("target_replays", 1);
        if let Some(rex) = rrt.execs.first() {
            let rsamp = samples_of(p, rex);
            if std::env::var("VERIF_DEBUG").is_ok() {
                eprintln!("ORIGINAL chosen {:?}", ex.chosen_seq());
                for (i, x) in s.iter().enumerate() {
                    eprintln!("  {} t{} b{} {} {:?}={} clock {:?}{}", i, x.task, x.body, x.label, x.op, x.val, x.clock, if i == t { "  <== target" } else if reach[i][t] { "  (dep)" } else { "" });
                }
                eprintln!("REPLAY chosen {:?} ending {:?}", rex.chosen_seq(), _rend);
                for d in rex.decisions() {
                    eprintln!("  decision offered {:?} -> {:?}", d.offered, d.chosen);
                }
                for x in rsamp.iter() {
                    eprintln!("  t{} b{} {} {:?}={} clock {:?}", x.task, x.body, x.label, x.op, x.val, x.clock);
                }
            }
            if rex.decisions().count() < ex.decisions().count() {
                out.count("target_replay_skipped_steps", 1);
            }
            // everything in the causal past of the target, and the target, must be there with the same result
            for i in 0..n {
                if i == t || reach[i][t] {
                    let found = rsamp.iter().any(|r| r.body == s[i].body && r.label == s[i].label && r.val == s[i].val);
                    if !found {
                        // known finding F19 is keyed on replays that stop early at a recorded step whose task
                        // cannot run in the restricted replay; a dependency missing from a replay that ran on
                        // is a different violation
                        let stopped_early = rex.stopped && matches!(_rend, Ending::Returned(_));
                        out.violation(
                            if stopped_early { "C15:known:F19:target-clock-replay-stops-at-unrunnable-step" } else { "C15:target-clock-replay-dropped-dependency" },
                            format!("target body {} {} (clock {:?}): the replay restricted to that clock lacks body {} {}({:?})={} on which the target depends", s[t].body, s[t].label, s[t].clock, s[i].body, s[i].label, s[i].op, s[i].val),
                            cj.clone(),
                        );
                        return;
                    }
                }
            }
        }
    }
    if out.sample.is_none() && cross {
        out.sample = Some(json!({"program": case.prog, "samples": s.iter().take(12).map(|x| format!("b{} {} {:?}={} clock {:?}", x.body, x.label, x.op, x.val, x.clock)).collect::<Vec<_>>(), "edges": es.len()}));
    }
}

fn run(batch: &str, _idx: u64, seed: u64, _tier: Tier) -> RunOut {
    let mut rng = Rng::new(seed);
    let mut out = RunOut::default();
    let case = gen_case(batch, &mut rng);
    check_case(&case, &mut out);
    out
}

fn replay(case: &Value) -> RunOut {
    let mut out = RunOut::default();
    if let Some(c) = case.get("c15").and_then(|c| serde_json::from_value::<Case>(c.clone()).ok()) {
        check_case(&c, &mut out);
    }
    let _ = ProgCase { prog: Program::default(), sim: SimCfg::new(0), max_steps: None };
    out
}
