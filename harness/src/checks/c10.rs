//! C10 — RandomScheduler / UrwRandomScheduler: seed-deterministic, per-iteration reproducible,
//! unbiased.
//!
//! (1) same body + same seed => identical runs (in-process twice, and against a child process);
//! (2) the seed of iteration i (seed of the Schedule returned by new_execution) fed to
//!     RandomScheduler::new_from_seed(seed_i, 1) — and via SHUTTLE_RANDOM_SEED in a child —
//!     reproduces iteration i exactly, draws included;
//! (3) statistics with FIXED internal seeds (independent of VERIF_SEED) and thresholds >= 6.5
//!     sigma: chi-square of the chosen position per offered-list length, lag-1 independence,
//!     coverage of every schedule of tiny programs within 50x the coupon-collector bound, leaf
//!     frequencies against the product of 1/offered, URW chooses every offered task at every node.

use super::schedutil::*;
use crate::coord::{scrub_env, Batch, Check, RunOut, Tier};
use crate::prog::{gen_program, run_program, take_monitor_violations, GenCfg, Program};
use crate::sim::{self, derive, hash_debug, quiet_config, run_recorded, Ending, ExecTrace, Rng, RunTrace};
use serde::{Deserialize, Serialize};
use serde_json::{json, Value};
use shuttle::scheduler::{RandomScheduler, UrwRandomScheduler};
use std::collections::{BTreeMap, BTreeSet};
use std::sync::Arc;

const LEAK_NOTE: &str = "A task that panics while it holds a shuttle Mutex guard reaches the scheduling point in MutexGuard::drop (BatchSemaphore::release -> thread::switch) during unwinding and is switched out there (maybe_yield returns true when thread::panicking()); other tasks keep running with the thread-wide panic count raised, and the suspended coroutine is later abandoned (Continuation::drop -> force_reset), so the panic count of the calling OS thread is never decremented.";

const FIXED: u64 = 0xC10_5EED_0001;
const Z: f64 = 6.5;

#[derive(Clone, Debug, Serialize, Deserialize)]
pub enum Workload {
    Prog(Program),
    Shape(Shape),
}

#[derive(Clone, Debug, Serialize, Deserialize)]
pub struct Case {
    pub work: Workload,
    pub urw: bool,
    pub seed: u64,
    pub iters: usize,
}

pub fn check() -> Check {
    Check {
        id: "C10",
        level: "exploration",
        rule: "determinism/reproduction batches draw a workload (prog.rs program with Rand draws and all primitive families, or a tree shape with draw-dependent branching), a scheduler (Random or URW), a seed and 1-12 iterations: two in-process runs and one child-process run must give identical traces (decisions, offered sets, draws, event logs, iteration seeds); every iteration of a Random run must be reproduced by new_from_seed(seed_i, 1) and by SHUTTLE_RANDOM_SEED=seed_i in a child. Statistics batches use fixed internal seeds: chi-square of the chosen position per offered-list length 2..6 with >= 2e5 decisions per bucket, lag-1 contingency tables, every schedule of tiny trees (<= 200 leaves, leaf set from the C09 enumerator) visited within 50*H(N)/p_min iterations, leaf frequencies vs prod 1/|offered| (chi-square), URW takes every offered task at every tree node. All thresholds are 6.5 sigma. Distinct = (workload, scheduler, seed) hash; non-trivial = a run with at least one task switch",
        assumptions: &[
            "statistical clauses use fixed internal seeds (not VERIF_SEED) so they are deterministic on a given tree; thresholds are at 6.5 sigma so that benign changes of the sample do not alarm",
            "workers run with SHUTTLE_RANDOM_SEED unset (scrubbed by the coordinator and removed again at the start of every run)",
            "URW per-iteration reproduction is not required by the property (its weights depend on the estimation run) and is not checked",
            "coverage budget for URW is 4x the random-walk budget (URW weights are positive for every offered task; the exact distribution is not modelled)",
        ],
        real_components: "real: RandomScheduler, UrwRandomScheduler, seed_from_env, RandomDataSource, shuttle-engine runtime, shuttle::rand; oracle: trace equality, schedutil::enumerate leaf sets, fixed-seed statistics",
        batches,
        run,
        replay,
        probes: &[
            "random_runs_compared",
            "urw_runs_compared",
            "iterations_reproduced",
            "iterations_with_draws_reproduced",
            "failing_iteration_reproduced",
            "child_hash_compared",
            "child_env_seed_reproduced",
            "chi2_buckets_tested",
            "chi2_bucket_len_6",
            "lag1_tables_tested",
            "coverage_trees",
            "coverage_all_schedules_visited",
            "leaf_frequency_tests",
            "urw_all_edges_taken",
        ],
    }
}

fn batches(t: Tier) -> Vec<Batch> {
    let mut cross = Batch::new("crossproc", t.pick(24, 200), 1);
    cross.fresh_process = true;
    vec![
        Batch::new("repro-prog", t.pick(3000, 60000), 100),
        Batch::new("repro-shape", t.pick(1500, 30000), 100),
        cross,
        Batch::new("chisq", t.pick(8, 32), 1),
        Batch::new("coverage", t.pick(32, 256), 2),
        Batch { name: "known", runs: 1, chunk: 1, fresh_process: true },
    ]
}

fn body_of(w: &Workload) -> Body {
    match w {
        Workload::Prog(p) => {
            let p = Arc::new(p.clone());
            Arc::new(move || run_program(&p))
        }
        Workload::Shape(s) => shape_body(s),
    }
}

fn gen_work(batch: &str, rng: &mut Rng) -> Workload {
    if batch == "repro-shape" || (batch == "crossproc" && rng.chance(1, 2)) {
        let cfg = ShapeCfg { bodies: (2, 5), steps: (0, 4), rand: rng.chance(3, 4), locks: rng.chance(1, 2), joins: rng.chance(1, 2), dependent: rng.chance(1, 2), yields: true, nested_spawn: rng.chance(1, 2) };
        Workload::Shape(gen_shape(rng, &cfg))
    } else {
        let mut cfg = GenCfg::swarm(rng);
        cfg.rand = rng.chance(3, 4);
        cfg.fail = rng.chance(1, 8);
        Workload::Prog(gen_program(rng, &cfg))
    }
}

fn gen_case(batch: &str, rng: &mut Rng) -> Case {
    let work = gen_work(batch, rng);
    Case { work, urw: rng.chance(1, 3), seed: rng.next_u64(), iters: rng.range(1, 12) }
}

fn run_case_with(work: &Workload, urw: bool, seed: u64, iters: usize) -> (Ending, RunTrace) {
    let body = body_of(work);
    let _ = take_monitor_violations();
    let r = if urw {
        run_recorded(UrwRandomScheduler::new_from_seed(seed, iters), quiet_config(), move || body())
    } else {
        run_recorded(RandomScheduler::new_from_seed(seed, iters), quiet_config(), move || body())
    };
    let _ = take_monitor_violations();
    r
}

/// task events in order, teardown events (no current task) sorted: see sim::events_diff
fn canonical_events(e: &ExecTrace) -> (Vec<&crate::sim::Event>, Vec<String>) {
    let t: Vec<_> = e.events.iter().filter(|x| x.task != u32::MAX).collect();
    let mut d: Vec<String> = e.events.iter().filter(|x| x.task == u32::MAX).map(|x| format!("{}{}={}", x.kind, x.op, x.val)).collect();
    d.sort();
    (t, d)
}

fn exec_diff(a: &ExecTrace, b: &ExecTrace) -> Option<String> {
    if a.items != b.items {
        let n = a.items.iter().zip(b.items.iter()).position(|(x, y)| x != y).unwrap_or(a.items.len().min(b.items.len()));
        return Some(format!("decision/draw traces differ at item {}: {:?} vs {:?}", n, a.items.get(n), b.items.get(n)));
    }
    crate::sim::events_diff(a, b)
}

fn run_diff(a: &(Ending, RunTrace), b: &(Ending, RunTrace)) -> Option<String> {
    if a.0 != b.0 {
        return Some(format!("endings differ: {:?} vs {:?}", a.0, b.0));
    }
    if a.1.execs.len() != b.1.execs.len() {
        return Some(format!("{} vs {} executions", a.1.execs.len(), b.1.execs.len()));
    }
    for (i, (x, y)) in a.1.execs.iter().zip(b.1.execs.iter()).enumerate() {
        if x.seed != y.seed {
            return Some(format!("iteration {}: seeds differ: {} vs {}", i, x.seed, y.seed));
        }
        if let Some(d) = exec_diff(x, y) {
            return Some(format!("iteration {}: {}", i, d));
        }
    }
    None
}

fn trace_hash(r: &(Ending, RunTrace)) -> u64 {
    hash_debug(&(&r.0, r.1.execs.iter().map(|e| (e.seed, &e.items, canonical_events(e))).collect::<Vec<_>>()))
}

fn exec_hash(e: &ExecTrace) -> u64 {
    hash_debug(&(&e.items, canonical_events(e)))
}

fn expected_panic(m: &str) -> bool {
    m.starts_with("deadlock! blocked tasks") || m.starts_with("fail:")
}

fn check_case(c: &Case, out: &mut RunOut) -> Option<(Ending, RunTrace)> {
    std::env::remove_var("SHUTTLE_RANDOM_SEED");
    let cj = || json!({"c10": c});
    let name = if c.urw { "urw" } else { "random" };
    let a = run_case_with(&c.work, c.urw, c.seed, c.iters);
    if std::thread::panicking() {
        // Genuine defect of the crate under test (see LEAK_NOTE): the failed run left this OS
        // thread with a non-zero panic count. Everything that runs on this thread afterwards is
        // tainted (std poisoning is disabled, Shuttle's should_stop() is true, semaphores get
        // closed on release), so the case is reported under its own key and not compared further.
        out.count("failed_run_left_thread_panicking", 1);
        out.violation(
            "C10:failed-run-leaves-thread-panicking",
            format!("{} seed {} x {}: run ended {:?}; after Runner::run unwound, std::thread::panicking() is still true on the calling thread. {}", name, c.seed, c.iters, a.0, LEAK_NOTE),
            cj(),
        );
        return None;
    }
    let b = run_case_with(&c.work, c.urw, c.seed, c.iters);
    out.evals += (a.1.execs.len() + b.1.execs.len()) as u64;
    for ex in &a.1.execs {
        out.decisions += ex.decisions().count() as u64;
    }
    if a.1.execs.iter().any(|e| e.switches() > 0) {
        out.distinct.push(hash_debug(&(&c.work, c.urw, c.seed)));
    }
    out.count(&format!("{}_runs_compared", name), 1);
    if let Some(d) = run_diff(&a, &b) {
        out.violation(format!("C10:{}-same-seed-runs-differ", name), format!("seed {} x {} iterations: {}", c.seed, c.iters, d), cj());
        return None;
    }
    match &a.0 {
        Ending::Returned(n) => {
            if *n != c.iters || a.1.execs.len() != c.iters {
                out.violation(format!("C10:{}-iteration-count", name), format!("asked for {} iterations, Runner returned {}, {} executions started", c.iters, n, a.1.execs.len()), cj());
            }
        }
        Ending::Panicked(m) => {
            if !expected_panic(m) {
                out.violation(format!("C10:{}-unexpected-panic", name), m.clone(), cj());
                return None;
            }
        }
    }
    if !c.urw {
        // (2) per-iteration reproduction
        let n = a.1.execs.len();
        for (i, ex) in a.1.execs.iter().enumerate() {
            let want_end = match &a.0 {
                Ending::Panicked(m) if i + 1 == n => Ending::Panicked(m.clone()),
                _ => Ending::Returned(1),
            };
            let r = run_case_with(&c.work, false, ex.seed, 1);
            out.evals += 1;
            let got = match r.1.execs.first() {
                Some(e) => e,
                None => {
                    out.violation("C10:iteration-seed-run-empty", format!("iteration {} seed {}: no execution", i, ex.seed), cj());
                    continue;
                }
            };
            if r.1.execs.len() != 1 {
                out.violation("C10:iteration-seed-run-count", format!("new_from_seed(seed, 1) started {} executions", r.1.execs.len()), cj());
            }
            if got.seed != ex.seed {
                out.violation("C10:iteration-seed-not-first-seed", format!("new_from_seed({}, 1): first iteration reports seed {}", ex.seed, got.seed), cj());
            }
            if let Some(d) = exec_diff(ex, got) {
                out.violation(
                    "C10:iteration-seed-does-not-reproduce",
                    format!("run seed {} iteration {} (reported seed {}): replay with new_from_seed(seed_i, 1) differs: {}", c.seed, i, ex.seed, d),
                    cj(),
                );
                continue;
            }
            if r.0 != want_end {
                out.violation("C10:iteration-seed-ending-differs", format!("iteration {}: original {:?}, reproduction {:?}", i, want_end, r.0), cj());
                continue;
            }
            out.count("iterations_reproduced", 1);
            if !ex.draws().is_empty() {
                out.count("iterations_with_draws_reproduced", 1);
            }
            if matches!(want_end, Ending::Panicked(_)) {
                out.count("failing_iteration_reproduced", 1);
            }
        }
    }
    Some(a)
}

// ---------------------------------------------------------------------------------------------
// cross-process
// ---------------------------------------------------------------------------------------------

fn spawn_child(args: &[String], env_seed: Option<u64>) -> Result<String, String> {
    let exe = std::env::current_exe().map_err(|e| e.to_string())?;
    let mut cmd = std::process::Command::new(exe);
    cmd.arg("--child").arg("c10");
    for a in args {
        cmd.arg(a);
    }
    scrub_env(&mut cmd);
    if let Some(s) = env_seed {
        cmd.env("SHUTTLE_RANDOM_SEED", s.to_string());
    }
    cmd.stdin(std::process::Stdio::null()).stderr(std::process::Stdio::null());
    let o = cmd.output().map_err(|e| e.to_string())?;
    if !o.status.success() {
        return Err(format!("child exited with {:?}", o.status));
    }
    Ok(String::from_utf8_lossy(&o.stdout).to_string())
}

/// `vcheck --child c10 hash <runseed>` / `vcheck --child c10 env <runseed>`
pub fn child(args: &[String]) -> i32 {
    sim::silence_panics();
    if args.len() < 2 {
        return 2;
    }
    let runseed: u64 = match args[1].parse() {
        Ok(s) => s,
        Err(_) => return 2,
    };
    let mut rng = Rng::new(runseed);
    let case = gen_case("crossproc", &mut rng);
    std::env::remove_var("SHUTTLE_ALWAYS_PERSIST_SEED");
    match args[0].as_str() {
        "hash" => {
            let r = run_case_with(&case.work, false, case.seed, case.iters);
            let u = run_case_with(&case.work, true, case.seed, case.iters);
            println!("H {} {}", trace_hash(&r), trace_hash(&u));
            0
        }
        "leak" => {
            // minimal reproducer of the leaked panic count (no harness DSL involved)
            for seed in 0..runseed.max(1) {
                let before = std::thread::panicking();
                let r = std::panic::catch_unwind(|| {
                    let runner = shuttle::Runner::new(RandomScheduler::new_from_seed(seed, 1), quiet_config());
                    runner.run(|| {
                        let m = Arc::new(shuttle::sync::Mutex::new(0u32));
                        let rw = Arc::new(shuttle::sync::RwLock::new(0u32));
                        let _w = rw.write().unwrap(); // dropped second during unwinding
                        let _g = m.lock().unwrap(); // dropped first during unwinding
                        for _ in 0..2 {
                            let m2 = m.clone();
                            shuttle::thread::spawn(move || {
                                let g = m2.lock();
                                shuttle::thread::yield_now();
                                drop(g);
                            });
                        }
                        panic!("fail: while holding two guards");
                    })
                });
                println!("seed {}: panicking before {} ; run {} ; panicking after {}", seed, before, if r.is_ok() { "returned" } else { "unwound" }, std::thread::panicking());
                if std::thread::panicking() {
                    break;
                }
            }
            0
        }
        "env" => {
            // the constructor argument must be overridden by SHUTTLE_RANDOM_SEED
            let r = run_case_with(&case.work, false, 0xDEAD_BEEF, 1);
            match r.1.execs.first() {
                Some(e) => println!("E {} {}", e.seed, exec_hash(e)),
                None => println!("E none"),
            }
            0
        }
        _ => 2,
    }
}

fn run_crossproc(seed: u64, out: &mut RunOut) {
    std::env::remove_var("SHUTTLE_RANDOM_SEED");
    let mut rng = Rng::new(seed);
    let case = gen_case("crossproc", &mut rng);
    let r = run_case_with(&case.work, false, case.seed, case.iters);
    let u = run_case_with(&case.work, true, case.seed, case.iters);
    out.evals += (r.1.execs.len() + u.1.execs.len()) as u64;
    let mine = format!("H {} {}", trace_hash(&r), trace_hash(&u));
    match spawn_child(&["hash".into(), seed.to_string()], None) {
        Ok(s) => {
            let line = s.lines().find(|l| l.starts_with("H ")).unwrap_or("").trim().to_string();
            if line != mine {
                let which = if line.split(' ').nth(1) != mine.split(' ').nth(1) { "random" } else { "urw" };
                out.violation(
                    format!("C10:{}-differs-across-processes", which),
                    format!("same workload, seed {} x {}: this process {:?}, child process {:?}", case.seed, case.iters, mine, line),
                    Value::Null,
                );
            } else {
                out.count("child_hash_compared", 1);
            }
        }
        Err(e) => out.violation("C10:harness:child-failed", e, Value::Null),
    }
    // SHUTTLE_RANDOM_SEED=seed_i reproduces iteration i
    if !r.1.execs.is_empty() {
        let i = rng.below(r.1.execs.len());
        let ex = &r.1.execs[i];
        let fails = matches!(&r.0, Ending::Panicked(_)) && i + 1 == r.1.execs.len();
        match spawn_child(&["env".into(), seed.to_string()], Some(ex.seed)) {
            Ok(s) => {
                let line = s.lines().find(|l| l.starts_with("E ")).unwrap_or("").trim().to_string();
                let want = format!("E {} {}", ex.seed, exec_hash(ex));
                if line != want {
                    out.violation(
                        "C10:env-seed-does-not-reproduce",
                        format!("iteration {} of seed {} (reported seed {}): child with SHUTTLE_RANDOM_SEED printed {:?}, expected {:?}", i, case.seed, ex.seed, line, want),
                        Value::Null,
                    );
                } else {
                    out.count("child_env_seed_reproduced", 1);
                }
            }
            Err(e) => {
                if !fails {
                    out.violation("C10:harness:child-failed", e, Value::Null)
                }
            }
        }
    }
    if out.sample.is_none() {
        out.sample = Some(json!({"workload": case.work, "seed": case.seed, "iterations": case.iters, "hashes": mine}));
    }
}

// ---------------------------------------------------------------------------------------------
// statistics
// ---------------------------------------------------------------------------------------------

fn fan_shape(idx: u64) -> Shape {
    // main spawns W workers; worker j takes s_j atomic steps
    let (w, steps): (usize, Vec<usize>) = match idx % 8 {
        0 => (5, vec![3, 3, 3, 3, 3]),
        1 => (3, vec![6, 6, 6]),
        2 => (2, vec![10, 10]),
        3 => (4, vec![1, 2, 4, 8]),
        4 => (5, vec![5, 1, 5, 1, 5]),
        5 => (1, vec![12]),
        6 => (5, vec![2, 2, 2, 2, 2]),
        _ => (4, vec![4, 4, 4, 4]),
    };
    let mut bodies = vec![vec![]; w + 1];
    for j in 1..=w {
        bodies[0].push(Step::Spawn(j));
        for k in 0..steps[j - 1] {
            bodies[j].push(if (k + j + idx as usize) % 3 == 0 { Step::Yield } else { Step::Inc(j % 2) });
        }
    }
    // variants 4.. also contend on a lock so that blocking changes the offered sets
    if idx % 8 >= 4 {
        for j in 1..=w {
            bodies[j].insert(0, Step::Lock(0, vec![Step::Inc(0)]));
        }
    }
    // main keeps running too
    for _ in 0..(idx % 3) {
        bodies[0].push(Step::Yield);
    }
    Shape { atomics: 2, mutexes: 1, bodies }
}

fn run_chisq(idx: u64, tier: Tier, out: &mut RunOut) {
    std::env::remove_var("SHUTTLE_RANDOM_SEED");
    let fixed = derive(FIXED, "chisq", idx);
    let shape = fan_shape(idx);
    let body = shape_body(&shape);
    let maxl = shape.bodies.len().min(6);
    let target: u64 = 200_000;
    let chunk = 4000usize;
    let max_chunks = tier.pick(150, 400) as usize;
    // pos[len][pos]
    let mut pos: Vec<Vec<u64>> = (0..=6).map(|l| vec![0u64; l.max(1)]).collect();
    // lag[(a,b)][pa*b+pb]
    let mut lag: BTreeMap<(u8, u8), Vec<u64>> = BTreeMap::new();
    let mut chunks = 0;
    loop {
        let seed = derive(fixed, "chunk", chunks as u64);
        let (ending, execs) = run_tapped(RandomScheduler::new_from_seed(seed, chunk), quiet_config(), body.clone(), true);
        if let Ending::Panicked(m) = &ending {
            out.violation("C10:harness:stat-body-panicked", m.clone(), Value::Null);
            return;
        }
        for ex in &execs {
            out.evals += 1;
            out.decisions += ex.decs.len() as u64;
            let mut prev: Option<(u8, u8)> = None;
            for d in &ex.decs {
                let n = d.n;
                if n >= 2 && n <= 6 && (d.pos as usize) < n as usize {
                    pos[n as usize][d.pos as usize] += 1;
                    if let Some((pn, pp)) = prev {
                        let t = lag.entry((pn, n)).or_insert_with(|| vec![0u64; pn as usize * n as usize]);
                        t[pp as usize * n as usize + d.pos as usize] += 1;
                    }
                    prev = Some((n, d.pos));
                } else {
                    prev = None;
                }
            }
        }
        chunks += 1;
        let done = (2..=maxl).all(|l| pos[l].iter().sum::<u64>() >= target);
        if done || chunks >= max_chunks {
            break;
        }
    }
    let mut summary = vec![];
    for l in 2..=6usize {
        let (x2, n) = chi2_uniform(&pos[l]);
        if n < 20_000 {
            continue;
        }
        let crit = chi2_crit(l - 1, Z);
        summary.push(json!({"offered": l, "decisions": n, "chi2": (x2 * 100.0).round() / 100.0, "crit": crit.round()}));
        out.count("chi2_buckets_tested", 1);
        if n >= target {
            out.count("chi2_buckets_with_2e5_decisions", 1);
        }
        if l == 6 {
            out.count("chi2_bucket_len_6", 1);
        }
        if x2 > crit {
            out.violation(
                format!("C10:random-position-bias-len{}", l),
                format!("fan shape {} fixed seed {}: offered length {}: position counts {:?} over {} decisions, chi2 = {:.1} > {:.1} (6.5 sigma)", idx % 8, fixed, l, pos[l], n, x2, crit),
                Value::Null,
            );
        }
    }
    // lag-1: given the previous decision (its offered length AND the position chosen there) the
    // position chosen now is uniform. (The joint table is NOT uniform: which task was chosen
    // before determines how many tasks are offered now.) Rows = previous position.
    for ((a, b), t) in &lag {
        let (a, b) = (*a as usize, *b as usize);
        let mut x2 = 0.0;
        let mut df = 0usize;
        let mut n = 0u64;
        for pa in 0..a {
            let row = &t[pa * b..(pa + 1) * b];
            let (x, rn) = chi2_uniform(row);
            if (rn as f64) / (b as f64) < 500.0 {
                continue;
            }
            x2 += x;
            df += b - 1;
            n += rn;
        }
        if df == 0 {
            continue;
        }
        out.count("lag1_tables_tested", 1);
        let crit = chi2_crit(df, Z);
        if x2 > crit {
            out.violation(
                format!("C10:random-lag1-dependence-{}x{}", a, b),
                format!("fan shape {} fixed seed {}: consecutive decisions with {} then {} offered: counts [previous position][position] {:?} over {} pairs are not uniform within rows, chi2 = {:.1} > {:.1} (df {})", idx % 8, fixed, a, b, t, n, x2, crit, df),
                Value::Null,
            );
        }
    }
    out.distinct.push(hash_debug(&(idx, fixed)));
    if out.sample.is_none() {
        out.sample = Some(json!({"shape": shape, "fixed_seed": fixed, "iterations": chunks * chunk, "buckets": summary}));
    }
}

fn tiny_shape(rng: &mut Rng) -> Shape {
    let cfg = ShapeCfg { bodies: (2, 4), steps: (0, 3), rand: false, locks: rng.chance(1, 3), joins: rng.chance(1, 3), dependent: rng.chance(1, 2), yields: true, nested_spawn: rng.chance(1, 3) };
    gen_shape(rng, &cfg)
}

fn run_coverage(idx: u64, tier: Tier, out: &mut RunOut) {
    std::env::remove_var("SHUTTLE_RANDOM_SEED");
    let fixed = derive(FIXED, "coverage", idx);
    let mut rng = Rng::new(fixed);
    let budget_cap = tier.pick(150_000, 1_500_000) as f64;
    // a tiny tree with 2..200 leaves whose rarest leaf is reachable within the budget
    let (shape, body, en, budget) = loop {
        let mut shape = tiny_shape(&mut rng);
        let mut found = None;
        loop {
            let body = shape_body(&shape);
            let en = enumerate(1, &quiet_config(), &body, 201, true);
            if let Some(f) = &en.failure {
                out.violation("C10:harness:enumerator-failed", f.clone(), Value::Null);
                return;
            }
            if en.complete && en.leaves.len() <= 200 {
                let pmin = en.leaves.iter().map(|l| l.rw_probability()).fold(1.0, f64::min);
                let budget = 50.0 * harmonic(en.leaves.len()) / pmin;
                if budget <= budget_cap {
                    if en.leaves.len() >= 2 {
                        found = Some((shape.clone(), body, en, budget));
                    }
                    break;
                }
            }
            if !shrink_shape(&mut shape) {
                break;
            }
        }
        if let Some(f) = found {
            break f;
        }
    };
    out.count("coverage_trees", 1);
    let n_leaves = en.leaves.len();
    let leaf_ix: BTreeMap<Vec<i32>, usize> = en.leaves.iter().enumerate().map(|(i, l)| (l.items.clone(), i)).collect();
    let probs: Vec<f64> = en.leaves.iter().map(|l| l.rw_probability()).collect();
    let psum: f64 = probs.iter().sum();
    if (psum - 1.0).abs() > 1e-9 {
        out.violation("C10:harness:leaf-probabilities-do-not-sum-to-1", format!("{}", psum), Value::Null);
        return;
    }
    let budget = budget.ceil() as usize;
    // ---- Random: coverage + leaf frequencies
    let t_stat = (200.0 / probs.iter().cloned().fold(1.0, f64::min)).clamp(20_000.0, budget_cap.min(400_000.0)) as usize;
    let mut counts = vec![0u64; n_leaves];
    let mut seen: BTreeSet<usize> = BTreeSet::new();
    let mut covered_at: Option<usize> = None;
    let mut done = 0usize;
    let mut chunk_no = 0u64;
    let limit = budget.max(t_stat);
    while done < t_stat || (covered_at.is_none() && done < limit) {
        let lim = if covered_at.is_none() { limit } else { t_stat };
        let chunk = 5000usize.min(lim - done).max(1);
        let seed = derive(fixed, "rw", chunk_no);
        chunk_no += 1;
        let (ending, execs) = run_tapped(RandomScheduler::new_from_seed(seed, chunk), quiet_config(), body.clone(), false);
        if let Ending::Panicked(m) = &ending {
            out.violation("C10:harness:stat-body-panicked", m.clone(), Value::Null);
            return;
        }
        for ex in &execs {
            out.evals += 1;
            out.decisions += ex.steps.len() as u64;
            done += 1;
            match leaf_ix.get(&ex.steps) {
                Some(i) => {
                    if done <= t_stat {
                        counts[*i] += 1;
                    }
                    seen.insert(*i);
                    if covered_at.is_none() && seen.len() == n_leaves {
                        covered_at = Some(done);
                    }
                }
                None => {
                    out.violation(
                        "C10:random-schedule-outside-tree",
                        format!("coverage tree {} (fixed seed {}): RandomScheduler executed {:?}, which is not one of the {} enumerated schedules", idx, fixed, ex.steps, n_leaves),
                        covcase(idx, tier),
                    );
                    return;
                }
            }
        }
    }
    if covered_at.map(|a| a > budget).unwrap_or(false) {
        covered_at = None;
    }
    match covered_at {
        Some(at) => {
            out.count("coverage_all_schedules_visited", 1);
            if at * 10 > budget {
                out.count("coverage_needed_more_than_a_tenth_of_budget", 1);
            }
        }
        None => {
            let missing: Vec<usize> = (0..n_leaves).filter(|i| !seen.contains(i)).collect();
            let missing = if missing.is_empty() { vec![0] } else { missing };
            out.violation(
                "C10:schedule-never-visited",
                format!(
                    "coverage tree {} (fixed seed {}): {} of {} schedules were never executed by RandomScheduler in {} iterations (budget 50*H(N)/p_min = {}), e.g. {:?} with random-walk probability {:.3e}",
                    idx,
                    fixed,
                    missing.len(),
                    n_leaves,
                    done,
                    budget,
                    en.leaves[missing[0]].items,
                    probs[missing[0]]
                ),
                covcase(idx, tier),
            );
        }
    }
    // leaf frequencies vs product of 1/|offered| (pool cells with expectation < 10)
    {
        let t = t_stat as f64;
        let mut x2 = 0.0;
        let mut cells = 0usize;
        let (mut pool_c, mut pool_e) = (0.0, 0.0);
        for i in 0..n_leaves {
            let e = probs[i] * t;
            if e < 10.0 {
                pool_c += counts[i] as f64;
                pool_e += e;
            } else {
                x2 += (counts[i] as f64 - e).powi(2) / e;
                cells += 1;
            }
        }
        if pool_e >= 10.0 {
            x2 += (pool_c - pool_e).powi(2) / pool_e;
            cells += 1;
        }
        if cells >= 2 {
            out.count("leaf_frequency_tests", 1);
            let crit = chi2_crit(cells - 1, Z);
            if x2 > crit {
                let worst = (0..n_leaves).max_by(|a, b| {
                    let da = (counts[*a] as f64 - probs[*a] * t).abs() / (probs[*a] * t).sqrt();
                    let db = (counts[*b] as f64 - probs[*b] * t).abs() / (probs[*b] * t).sqrt();
                    da.partial_cmp(&db).unwrap()
                });
                let w = worst.unwrap();
                out.violation(
                    "C10:random-leaf-frequency-bias",
                    format!(
                        "coverage tree {} (fixed seed {}): schedule frequencies over {} iterations do not match prod 1/|offered|: chi2 = {:.1} > {:.1} ({} cells); worst schedule {:?}: seen {} expected {:.1}",
                        idx, fixed, t_stat, x2, crit, cells, en.leaves[w].items, counts[w], probs[w] * t
                    ),
                    covcase(idx, tier),
                );
            }
        }
    }
    // ---- URW: every offered task is chosen at least once at every tree node
    {
        // node (prefix of chosen ids) → offered ids
        let mut edges: BTreeSet<(Vec<u32>, u32)> = BTreeSet::new();
        for l in &en.leaves {
            let ch = l.chosen();
            for j in 0..ch.len() {
                for o in &l.offered[j] {
                    edges.insert((ch[..j].to_vec(), *o));
                }
            }
        }
        let total_edges = edges.len();
        let urw_budget = budget * 4;
        let mut done = 0usize;
        let mut chunk_no = 0u64;
        let mut outside = false;
        let mut all_at: Option<usize> = None;
        while !edges.is_empty() && done < urw_budget {
            let chunk = 5000usize.min(urw_budget - done).max(1);
            let seed = derive(fixed, "urw", chunk_no);
            chunk_no += 1;
            let (ending, execs) = run_tapped(UrwRandomScheduler::new_from_seed(seed, chunk), quiet_config(), body.clone(), false);
            if let Ending::Panicked(m) = &ending {
                out.violation("C10:urw-panicked", format!("coverage tree {} (fixed seed {}): {}", idx, fixed, m), covcase(idx, tier));
                return;
            }
            for ex in &execs {
                out.evals += 1;
                done += 1;
                if !leaf_ix.contains_key(&ex.steps) && !outside {
                    outside = true;
                    out.violation(
                        "C10:urw-schedule-outside-tree",
                        format!("coverage tree {} (fixed seed {}): UrwRandomScheduler executed {:?}, not one of the {} enumerated schedules", idx, fixed, ex.steps, n_leaves),
                        covcase(idx, tier),
                    );
                }
                let ch: Vec<u32> = ex.steps.iter().filter(|x| **x >= 0).map(|x| *x as u32).collect();
                for j in 0..ch.len() {
                    if edges.is_empty() {
                        break;
                    }
                    edges.remove(&(ch[..j].to_vec(), ch[j]));
                }
                if edges.is_empty() && all_at.is_none() {
                    all_at = Some(done);
                }
            }
        }
        if edges.is_empty() {
            out.count("urw_all_edges_taken", 1);
            let done = all_at.unwrap_or(done);
            if done * 10 > urw_budget {
                out.count("urw_needed_more_than_a_tenth_of_budget", 1);
            }
            if std::env::var("VERIF_C10_DEBUG").is_ok() {
                eprintln!("cov {} leaves {} edges {} urw needed {} of {} ; rw covered at {:?} of {}", idx, n_leaves, total_edges, done, urw_budget, covered_at, budget);
            }
        } else {
            let e = edges.iter().next().unwrap();
            out.violation(
                "C10:urw-offered-task-never-chosen",
                format!("coverage tree {} (fixed seed {}): {} of {} (node, offered task) pairs were never taken by URW in {} iterations, e.g. after {:?} task {} was offered but never chosen", idx, fixed, edges.len(), total_edges, done, e.0, e.1),
                covcase(idx, tier),
            );
        }
    }
    out.distinct.push(hash_debug(&(&shape, fixed)));
    if out.sample.is_none() {
        out.sample = Some(json!({"shape": shape, "schedules": n_leaves, "p_min": probs.iter().cloned().fold(1.0, f64::min), "budget": budget, "all_visited_after": covered_at}));
    }
}

/// Every determinism case runs on its own OS thread: the panic count, Shuttle's and the
/// harness' thread-locals start fresh, so a failed run cannot contaminate later cases.
fn in_fresh_thread<T: Send, F: FnOnce() -> T + Send>(f: F) -> T {
    std::thread::scope(|s| s.spawn(f).join().expect("case thread panicked"))
}

fn covcase(idx: u64, tier: Tier) -> Value {
    json!({"c10cov": idx, "tier": tier.name()})
}

fn run(batch: &str, idx: u64, seed: u64, tier: Tier) -> RunOut {
    let mut out = RunOut::default();
    match batch {
        "known" => {
            // pinned witness of known finding F23, run in a child process (it taints the thread it runs on)
            let exe = std::env::current_exe().unwrap();
            let mut cmd = std::process::Command::new(exe);
            cmd.arg("--child").arg("c10").arg("leak").arg("11").stdin(std::process::Stdio::null()).stderr(std::process::Stdio::null());
            crate::coord::scrub_env(&mut cmd);
            out.evals += 1;
            if let Ok(o) = cmd.output() {
                let text = String::from_utf8_lossy(&o.stdout).to_string();
                if let Some(l) = text.lines().find(|l| l.ends_with("panicking after true")) {
                    out.violation(
                        "C10:failed-run-leaves-thread-panicking",
                        format!("pinned witness (main panics while holding a Mutex and an RwLock guard, two threads contend for the mutex): {}", l),
                        json!({"rerun": {"batch": "known", "idx": 0}}),
                    );
                }
            }
        }
        "crossproc" => run_crossproc(seed, &mut out),
        "chisq" => run_chisq(idx, tier, &mut out),
        "coverage" => run_coverage(idx, tier, &mut out),
        _ => {
            let mut rng = Rng::new(seed);
            let case = gen_case(batch, &mut rng);
            let r = in_fresh_thread(|| {
                let mut o = RunOut::default();
                let r = check_case(&case, &mut o);
                (o, r)
            });
            let (o, r) = r;
            out.merge(o);
            if out.sample.is_none() {
                if let Some(r) = r {
                    if r.1.execs.iter().any(|e| e.switches() > 1 && !e.draws().is_empty()) {
                        out.sample = Some(json!({"workload": case.work, "scheduler": if case.urw { "urw" } else { "random" }, "seed": case.seed, "iterations": case.iters, "iteration_seeds": r.1.execs.iter().map(|e| e.seed).collect::<Vec<_>>()}));
                    }
                }
            }
        }
    }
    out
}

fn replay(case: &Value) -> RunOut {
    let mut out = RunOut::default();
    if let Some(c) = case.get("c10").and_then(|c| serde_json::from_value::<Case>(c.clone()).ok()) {
        out = in_fresh_thread(|| {
            let mut o = RunOut::default();
            check_case(&c, &mut o);
            o
        });
    } else if let Some(idx) = case.get("c10cov").and_then(|c| c.as_u64()) {
        // statistics use fixed internal seeds: (run index, tier) is the whole case
        let tier = if case.get("tier").and_then(|t| t.as_str()) == Some("thorough") { Tier::Thorough } else { Tier::Quick };
        run_coverage(idx, tier, &mut out);
    }
    out
}
