//! C20 family 4 — rand / lazy_static replacements are under Shuttle's control.
//!
//! Bodies draw through `shuttle::rand::{thread_rng, Rng}` and through the `shuttle-rand` wrapper
//! types (`StdRng`, `SmallRng`, `random()`, `SliceRandom`), and touch `lazy_static!` values (declared
//! through `shuttle::lazy_static!` and through the wrapper crate's re-export) whose initialisers log
//! an event and, for one of them, draw a random value themselves.
//! (i)  replay equality: every execution recorded under RandomScheduler / PCT / SimSched is replayed
//!      through `ReplayScheduler`; decisions, draws and the event log (all drawn values) must be equal;
//! (ii) per-execution re-initialisation: in a 3-5 iteration run, every execution that touches a lazy
//!      value runs its initialiser exactly once, sees the value made in *this* execution, and the value
//!      is dropped before the next execution begins.

use super::common::{random_policy, Finding};
use crate::sim::{log, log_as, quiet_config, run_recorded, vec_to_schedule, Ending, Event, ExecTrace, Rng, RunTrace, SimCfg, SimSched};
use serde::{Deserialize, Serialize};
use shuttle::rand::{thread_rng, Rng as _, RngCore as _};
use shuttle::scheduler::{PctScheduler, RandomScheduler, ReplayScheduler};
use shuttle::sync::Mutex;
use shuttle::thread;
use shuttle_engine::scheduler::serialization::serialize_schedule;
use shuttle_engine::scheduler::Scheduler;
use shuttle_rand_0_8_inner as srand;
use srand::seq::SliceRandom as _;
use srand::SeedableRng as _;
use std::collections::BTreeMap;
use std::sync::atomic::{AtomicU64, Ordering};
use std::sync::Arc;

/// execution counter of the current run (reset by the harness before every run)
static EXEC: AtomicU64 = AtomicU64::new(0);

pub struct Tracked {
    name: &'static str,
    exec: u64,
    val: u64,
}

impl Tracked {
    fn new(name: &'static str, draw: bool) -> Tracked {
        let exec = EXEC.load(Ordering::SeqCst);
        let val = if draw { thread_rng().gen::<u32>() as u64 } else { 7 };
        log("I", name, exec.to_string());
        Tracked { name, exec, val }
    }
}

impl Drop for Tracked {
    fn drop(&mut self) {
        log_as(u32::MAX, "D", self.name, self.exec.to_string());
    }
}

shuttle::lazy_static! {
    static ref LAZY_A: Tracked = Tracked::new("A", false);
    static ref LAZY_B: Tracked = Tracked::new("B", true);
}

mod wrapped {
    use super::Tracked;
    shuttle_lazy_static_impl::lazy_static! {
        pub static ref LAZY_C: Tracked = Tracked::new("C", true);
    }
}

#[derive(Clone, Debug, PartialEq, Eq, Serialize, Deserialize, Hash)]
pub enum ROp {
    Gen,
    GenU32,
    GenRange(u32, u32),
    GenBool,
    Fill(usize),
    StdRng,
    SmallRng,
    Random,
    Shuffle(usize),
    Choose(usize),
    Lazy(u8),
    Lock,
    Unlock,
    Yield,
}

#[derive(Clone, Debug, PartialEq, Eq, Serialize, Deserialize, Hash)]
pub struct RProg {
    pub bodies: Vec<Vec<ROp>>,
}

#[derive(Clone, Debug, PartialEq, Serialize, Deserialize)]
pub enum RSched {
    Random(u64, usize),
    Pct(u64, usize, usize),
    Sim(SimCfg),
}

#[derive(Clone, Debug, Serialize, Deserialize)]
pub struct RCase {
    pub prog: RProg,
    pub sched: RSched,
}

fn run_body(prog: &RProg, body: usize, m: &Mutex<u64>) {
    let mut guard = None;
    log("B", body.to_string(), "");
    for (i, op) in prog.bodies[body].iter().enumerate() {
        let label = i.to_string();
        let res: String = match op {
            ROp::Gen => thread_rng().gen::<u64>().to_string(),
            ROp::GenU32 => thread_rng().next_u32().to_string(),
            ROp::GenRange(lo, hi) => thread_rng().gen_range(*lo..=*hi).to_string(),
            ROp::GenBool => thread_rng().gen_bool(0.3).to_string(),
            ROp::Fill(n) => {
                let mut b = vec![0u8; *n];
                thread_rng().fill_bytes(&mut b);
                format!("{:?}", b)
            }
            ROp::StdRng => {
                let mut r = srand::rngs::StdRng::seed_from_u64(5);
                let x: u32 = srand::Rng::gen(&mut r);
                let y: u64 = srand::RngCore::next_u64(&mut r.clone());
                format!("{} {}", x, y)
            }
            ROp::SmallRng => {
                let mut r = srand::rngs::SmallRng::from_seed([3u8; 32]);
                let x: u16 = srand::Rng::gen(&mut r);
                let f: f64 = srand::Rng::gen(&mut r);
                format!("{} {}", x, f)
            }
            ROp::Random => {
                let x: u16 = srand::random();
                let y: (bool, u8) = srand::random();
                format!("{} {:?}", x, y)
            }
            ROp::Shuffle(n) => {
                let mut v: Vec<usize> = (0..*n).collect();
                v.shuffle(&mut srand::thread_rng());
                format!("{:?}", v)
            }
            ROp::Choose(n) => {
                let v: Vec<usize> = (0..*n).collect();
                format!("{:?}", v.choose(&mut srand::thread_rng()))
            }
            ROp::Lazy(which) => {
                let t: &Tracked = match which {
                    0 => &LAZY_A,
                    1 => &LAZY_B,
                    _ => &wrapped::LAZY_C,
                };
                log("L", t.name, t.exec.to_string());
                format!("{}", t.val)
            }
            ROp::Lock => {
                if guard.is_none() {
                    let mut g = m.lock().unwrap();
                    *g += 1;
                    let v = *g;
                    guard = Some(g);
                    format!("locked {}", v)
                } else {
                    "skip".into()
                }
            }
            ROp::Unlock => {
                if guard.take().is_some() {
                    "unlocked".into()
                } else {
                    "skip".into()
                }
            }
            ROp::Yield => {
                thread::yield_now();
                "ok".into()
            }
        };
        log("E", label, res);
    }
    drop(guard);
}

pub fn run_prog(prog: &Arc<RProg>) {
    let e = EXEC.fetch_add(1, Ordering::SeqCst) + 1;
    log("X0", "", e.to_string());
    let m = Arc::new(Mutex::new(0u64));
    let mut hs = vec![];
    for b in 1..prog.bodies.len() {
        let p = prog.clone();
        let m2 = m.clone();
        hs.push(thread::spawn(move || run_body(&p, b, &m2)));
    }
    run_body(prog, 0, &m);
    for h in hs {
        h.join().unwrap();
    }
}

fn build(s: &RSched) -> Box<dyn Scheduler + Send> {
    match s {
        RSched::Random(seed, n) => Box::new(RandomScheduler::new_from_seed(*seed, *n)),
        RSched::Pct(seed, d, n) => Box::new(PctScheduler::new_from_seed(*seed, *d, *n)),
        RSched::Sim(c) => Box::new(SimSched::new(c.clone())),
    }
}

pub fn gen_case(rng: &mut Rng) -> RCase {
    let threads = rng.range(1, 3);
    let lazy = rng.chance(3, 4);
    let wrappers = rng.chance(2, 3);
    let mut bodies = vec![];
    for _ in 0..threads {
        let n = rng.range(1, 5);
        let mut ops = vec![];
        for _ in 0..n {
            ops.push(match rng.below(16) {
                0 | 1 => ROp::Gen,
                2 => ROp::GenU32,
                3 => {
                    let lo = rng.below(100) as u32;
                    ROp::GenRange(lo, lo + rng.below(1000) as u32)
                }
                4 => ROp::GenBool,
                5 => ROp::Fill(rng.range(1, 20)),
                6 if wrappers => ROp::StdRng,
                7 if wrappers => ROp::SmallRng,
                8 if wrappers => ROp::Random,
                9 if wrappers => ROp::Shuffle(rng.range(2, 6)),
                10 if wrappers => ROp::Choose(rng.range(1, 6)),
                11 | 12 if lazy => ROp::Lazy(rng.below(3) as u8),
                13 => ROp::Lock,
                14 => ROp::Unlock,
                15 => ROp::Yield,
                _ => ROp::Gen,
            });
        }
        bodies.push(ops);
    }
    let n = rng.range(3, 5);
    let sched = match rng.below(4) {
        0 | 1 => RSched::Random(rng.next_u64(), n),
        2 => RSched::Pct(rng.next_u64(), rng.range(1, 3), n),
        _ => {
            let mut c = SimCfg::new(rng.next_u64());
            c.policy = random_policy(rng);
            c.execs = n as u32;
            RSched::Sim(c)
        }
    };
    RCase { prog: RProg { bodies }, sched }
}

fn fnd(key: &str, detail: String) -> Finding {
    Finding { key: format!("C20:{}", key), detail }
}

/// events with the per-run execution number masked (a replay is execution 1 of its own run)
fn masked(evs: &[Event]) -> Vec<Event> {
    evs.iter()
        .map(|e| {
            let mut e = e.clone();
            if e.kind == "I" || e.kind == "D" || e.kind == "X0" || e.kind == "L" {
                e.val = String::new();
            }
            e
        })
        .collect()
}

pub struct RRun {
    pub findings: Vec<Finding>,
    pub probes: BTreeMap<String, u64>,
    pub evals: u64,
    pub decisions: u64,
    pub distinct: Vec<u64>,
}

fn lazy_findings(i: usize, ex: &ExecTrace, probes: &mut BTreeMap<String, u64>) -> Vec<Finding> {
    let mut f = vec![];
    let e = (i + 1) as u64;
    for name in ["A", "B", "C"] {
        let touches: Vec<&Event> = ex.events.iter().filter(|x| x.kind == "L" && x.op == name).collect();
        let inits: Vec<&Event> = ex.events.iter().filter(|x| x.kind == "I" && x.op == name).collect();
        let drops: Vec<(usize, &Event)> = ex.events.iter().enumerate().filter(|(_, x)| x.kind == "D" && x.op == name).collect();
        if touches.is_empty() && inits.is_empty() && drops.is_empty() {
            continue;
        }
        *probes.entry("lazy_touched_executions".into()).or_insert(0) += 1;
        if !touches.is_empty() && inits.is_empty() {
            f.push(fnd("lazy:not-reinitialised", format!("execution {} touches lazy {} but its initialiser did not run in this execution", e, name)));
        }
        if inits.len() > 1 {
            f.push(fnd("lazy:initialised-twice", format!("execution {}: initialiser of lazy {} ran {} times", e, name, inits.len())));
        }
        for t in &touches {
            if t.val != e.to_string() {
                f.push(fnd("lazy:stale-value", format!("execution {}: lazy {} holds a value created in execution {}", e, name, t.val)));
                break;
            }
        }
        if inits.len() == 1 {
            let mine: Vec<&(usize, &Event)> = drops.iter().filter(|(_, d)| d.val == e.to_string()).collect();
            if mine.len() != 1 {
                f.push(fnd("lazy:not-dropped-before-next-execution", format!("execution {}: lazy {} was initialised but dropped {} times before the next execution began", e, name, mine.len())));
            } else {
                *probes.entry("lazy_dropped_at_end_of_execution".into()).or_insert(0) += 1;
                let last_task_event = ex.events.iter().rposition(|x| x.kind == "E" || x.kind == "L").unwrap_or(0);
                if mine[0].0 < last_task_event {
                    f.push(fnd("lazy:dropped-while-execution-running", format!("execution {}: lazy {} dropped before the last operation of the execution", e, name)));
                }
            }
        }
        for (_, d) in &drops {
            if d.val != e.to_string() {
                f.push(fnd("lazy:not-dropped-before-next-execution", format!("execution {} saw the drop of lazy {} created in execution {}", e, name, d.val)));
            }
        }
        if touches.len() > 1 {
            *probes.entry("lazy_touched_by_several_operations".into()).or_insert(0) += 1;
        }
    }
    f
}

pub fn process_case(case: &RCase, layout_seed: u64) -> RRun {
    let mut out = RRun { findings: vec![], probes: BTreeMap::new(), evals: 0, decisions: 0, distinct: vec![] };
    let prog = Arc::new(case.prog.clone());
    EXEC.store(0, Ordering::SeqCst);
    let p = prog.clone();
    let (ending, rt): (Ending, RunTrace) = run_recorded(build(&case.sched), quiet_config(), move || run_prog(&p));
    let hit = |k: &str, out: &mut RRun| *out.probes.entry(k.to_string()).or_insert(0) += 1;
    hit(
        match &case.sched {
            RSched::Random(..) => "sched_Random",
            RSched::Pct(..) => "sched_Pct",
            RSched::Sim(..) => "sched_Sim",
        },
        &mut out,
    );
    if let Ending::Panicked(m) = &ending {
        if m.contains("did not exercise any concurrency") {
            hit("pct_no_concurrency", &mut out);
        } else {
            let cls: String = m.chars().take(40).map(|c| if c.is_ascii_alphanumeric() { c } else { '-' }).collect();
            out.findings.push(fnd(&format!("rand:unexpected-panic:{}", cls), m.clone()));
            return out;
        }
    }
    for c in crate::sim::contract_findings(&rt) {
        out.findings.push(fnd("rand:contract", c));
    }
    let n = rt.execs.len();
    if n >= 3 {
        hit("runs_with_3+_executions", &mut out);
    }
    for (i, ex) in rt.execs.iter().enumerate() {
        out.evals += 1;
        out.decisions += ex.decisions().count() as u64;
        if ex.events.is_empty() {
            continue;
        }
        if matches!(&ending, Ending::Panicked(_)) && i + 1 == n {
            continue;
        }
        // (ii) lazy statics
        let lf = lazy_findings(i, ex, &mut out.probes);
        out.findings.extend(lf);
        // the execution number seen by the body
        if let Some(x0) = ex.events.iter().find(|e| e.kind == "X0") {
            if x0.val != (i + 1).to_string() {
                out.findings.push(fnd("rand:harness-exec-count", format!("execution {} logged number {}", i + 1, x0.val)));
            }
        }
        let draws = ex.draws().len();
        if draws >= 4 {
            hit("execution_with_4+_draws", &mut out);
        }
        if ex.events.iter().any(|e| e.kind == "I" && (e.op == "B" || e.op == "C")) {
            hit("draw_inside_lazy_initialiser", &mut out);
        }
        // (i) replay
        let recorded = match &ex.recorded {
            Some(r) => r.clone(),
            None => continue,
        };
        if recorded.1 != ex.reconstruct() {
            out.findings.push(fnd("rand:recorded-schedule-differs-from-decisions", format!("exec {}: runtime recorded {:?}, scheduler answered {:?}", i, recorded.1, ex.reconstruct())));
            continue;
        }
        if ex.switches() > 0 || draws > 0 {
            out.distinct.push(crate::sim::hash_debug(&(&case.prog, &recorded)));
        }
        let text = serialize_schedule(&vec_to_schedule(recorded.0, &recorded.1));
        let text = if (layout_seed as usize + i) % 2 == 0 { text } else { text.chars().filter(|c| !c.is_whitespace()).collect() };
        let p2 = prog.clone();
        EXEC.store(0, Ordering::SeqCst);
        let (rend, rrt) = run_recorded(ReplayScheduler::new_from_encoded(&text), quiet_config(), move || run_prog(&p2));
        out.evals += 1;
        let rex = match rrt.execs.first() {
            Some(e) => e,
            None => {
                out.findings.push(fnd("rand:replay-did-not-run", format!("exec {}", i)));
                continue;
            }
        };
        if rend != Ending::Returned(1) {
            out.findings.push(fnd("rand:replay-ending-differs", format!("exec {}: replay ended {:?}", i, rend)));
            continue;
        }
        if rex.items != ex.items {
            let k = ex.items.iter().zip(rex.items.iter()).position(|(a, b)| a != b).unwrap_or(ex.items.len().min(rex.items.len()));
            out.findings.push(fnd("rand:replay-differs", format!("exec {}: decisions/draws differ at item {}: {:?} vs {:?}", i, k, ex.items.get(k), rex.items.get(k))));
            continue;
        }
        let (a, b) = (masked(&ex.events), masked(&rex.events));
        if a != b {
            let k = a.iter().zip(b.iter()).position(|(x, y)| x != y).unwrap_or(a.len().min(b.len()));
            out.findings.push(fnd("rand:replay-differs", format!("exec {}: event logs differ at {}: {:?} vs {:?}", i, k, a.get(k), b.get(k))));
            continue;
        }
        hit("executions_replayed_identically", &mut out);
        let lf = lazy_findings(0, rex, &mut BTreeMap::new());
        out.findings.extend(lf);
    }
    out
}
