//! Shared helpers for the program-driven checks: run a DSL program under SimSched, run the
//! lockstep oracle, the direct monitors and the scheduler-contract monitor, shrink a failing case.

use crate::coord::RunOut;
use crate::model::{lockstep, LockstepStats, Mismatch};
use crate::prog::{run_program, shrink_candidates, take_monitor_violations, Op, Program};
use crate::sim::{contract_findings, quiet_config, run_recorded, Ending, ExecTrace, Policy, Rng, RunTrace, SimCfg, SimSched};
use serde::{Deserialize, Serialize};
use serde_json::{json, Value};
use std::sync::Arc;

#[derive(Clone, Debug, Serialize, Deserialize)]
pub struct ProgCase {
    pub prog: Program,
    pub sim: SimCfg,
    /// (fail_after?, n)
    #[serde(default)]
    pub max_steps: Option<(bool, usize)>,
}

pub struct ProgRun {
    pub ending: Ending,
    pub rt: RunTrace,
    pub monitors: Vec<String>,
}

pub fn config_for(case: &ProgCase) -> shuttle::Config {
    let mut c = quiet_config();
    if let Some((fail, n)) = case.max_steps {
        c.max_steps = if fail { shuttle::MaxSteps::FailAfter(n) } else { shuttle::MaxSteps::ContinueAfter(n) };
    }
    c
}

pub fn run_case(case: &ProgCase) -> ProgRun {
    let prog = Arc::new(case.prog.clone());
    let _ = take_monitor_violations();
    let (ending, rt) = run_recorded(SimSched::new(case.sim.clone()), config_for(case), move || run_program(&prog));
    ProgRun { ending, rt, monitors: take_monitor_violations() }
}

pub fn random_policy(rng: &mut Rng) -> Policy {
    match rng.below(8) {
        0 | 1 | 2 => Policy::Uniform,
        3 => Policy::Sticky(rng.range(3, 7) as u32),
        4 => Policy::Prio,
        5 => Policy::First,
        6 => Policy::Last,
        _ => Policy::RoundRobin,
    }
}

/// The ending of execution `i` of a run as the lockstep oracle wants it.
pub fn exec_ending<'a>(run: &'a ProgRun, i: usize) -> Option<&'a str> {
    match &run.ending {
        Ending::Panicked(m) if i + 1 == run.rt.execs.len() => Some(m.as_str()),
        _ => None,
    }
}

#[derive(Debug, Clone)]
pub struct Finding {
    pub key: String,
    pub detail: String,
}

/// All oracle findings of a run: lockstep mismatches, direct monitors, contract monitor,
/// unexpected endings.
pub fn findings_of(case: &ProgCase, run: &ProgRun, prop: &str, stats: &mut Vec<LockstepStats>) -> Vec<Finding> {
    let mut f = vec![];
    for m in &run.monitors {
        f.push(Finding { key: format!("{}:monitor:{}", prop, monitor_class(m)), detail: m.clone() });
    }
    for c in contract_findings(&run.rt) {
        f.push(Finding { key: format!("{}:contract:{}", prop, contract_class(&c)), detail: c });
    }
    for (i, ex) in run.rt.execs.iter().enumerate() {
        let ending = exec_ending(run, i);
        if let Some(msg) = ending {
            if let Some(cls) = unexpected_panic_class(msg, ex) {
                f.push(Finding { key: format!("{}:unexpected-panic:{}", prop, cls), detail: format!("exec {}: {}", i, msg) });
                continue;
            }
        }
        match lockstep(&case.prog, ex, ending) {
            Ok(st) => stats.push(st),
            Err(Mismatch { class, detail, step }) => {
                f.push(Finding { key: format!("{}:model:{}", prop, class), detail: format!("exec {} step {}: {}", i, step, detail) })
            }
        }
        f.extend(log_monitors(&case.prog, ex, prop));
    }
    f
}

fn monitor_class(m: &str) -> String {
    if m.contains("mutex") {
        "mutex-exclusion".into()
    } else if m.contains("rwlock") || m.contains("try_read") {
        "rwlock-exclusion".into()
    } else if m.contains("once") {
        "once-init".into()
    } else {
        "other".into()
    }
}

fn contract_class(c: &str) -> String {
    for k in ["ascending", "finished", "neither runnable", "current=", "empty", "logged", "not offered", "after it returned None", "before new_execution"] {
        if c.contains(k) {
            return k.replace(' ', "-").replace('=', "");
        }
    }
    "other".into()
}

/// Classify a panic payload that is not one of the expected endings of a program. Expected:
/// deadlock reports, the program's own `fail:` panics, step-bound messages when a bound is set.
pub fn unexpected_panic_class(msg: &str, _ex: &ExecTrace) -> Option<String> {
    if msg.starts_with("deadlock! blocked tasks") || msg.starts_with("fail:") {
        return None;
    }
    if msg.starts_with("exceeded max_steps bound") {
        return Some("step-bound-hang".into());
    }
    let cls: String = msg.chars().take(40).map(|c| if c.is_ascii_alphanumeric() { c } else { '-' }).collect();
    Some(cls)
}

/// Model-independent monitors over the event log of one execution.
pub fn log_monitors(p: &Program, ex: &ExecTrace, prop: &str) -> Vec<Finding> {
    let mut f = vec![];
    // Once: exactly one initialiser run per once that some call_once completed on
    for o in 0..p.res.onces {
        let inits = ex.events.iter().filter(|e| e.kind == "I" && e.op == o.to_string()).count();
        let completed = ex.events.iter().any(|e| {
            e.kind == "E" && {
                // find which body logged it: need the op; approximate through all bodies
                p.bodies.iter().any(|b| e.op.parse::<usize>().ok().and_then(|i| b.get(i)).map(|op| matches!(op, Op::CallOnce(x, _) if *x == o)).unwrap_or(false))
            }
        });
        if inits > 1 {
            f.push(Finding { key: format!("{}:monitor:once-init", prop), detail: format!("once {} initialiser ran {} times", o, inits) });
        }
        let _ = completed;
    }
    f
}

/// Greedy shrinking of a failing case: keeps the first-listed finding key.
pub fn shrink_case(case: &ProgCase, key: &str, prop: &str, budget: usize) -> ProgCase {
    let mut best = case.clone();
    let mut tries = 0;
    // make the schedule explicit first: script = the chosen indices of the failing execution
    loop {
        let mut improved = false;
        for cand in shrink_candidates(&best.prog) {
            if tries >= budget {
                return best;
            }
            tries += 1;
            let mut c = best.clone();
            c.prog = cand;
            let run = run_case(&c);
            let mut st = vec![];
            if findings_of(&c, &run, prop, &mut st).iter().any(|f| f.key == key) {
                best = c;
                improved = true;
                break;
            }
        }
        if !improved {
            break;
        }
    }
    // make the schedule explicit: replace the seeded policy by the script of offered-list indices the
    // failing execution took, then shrink the script towards "take the first offered task"
    let run = run_case(&best);
    if let Some(ex) = run.rt.execs.first() {
        let script: Vec<u32> = ex
            .decisions()
            .filter_map(|d| d.chosen.and_then(|c| d.offered.iter().position(|o| *o == c)).map(|i| i as u32))
            .collect();
        let mut c = best.clone();
        c.sim.script = script;
        c.sim.policy = Policy::First;
        c.sim.spurious = true;
        c.sim.execs = 1;
        let reproduces = |c: &ProgCase| {
            let run = run_case(c);
            let mut st = vec![];
            findings_of(c, &run, prop, &mut st).iter().any(|f| f.key == key)
        };
        if reproduces(&c) {
            best = c;
            // drop trailing choices, then zero individual ones
            while !best.sim.script.is_empty() && tries < budget {
                tries += 1;
                let mut c = best.clone();
                c.sim.script.pop();
                if reproduces(&c) {
                    best = c;
                } else {
                    break;
                }
            }
            let mut i = best.sim.script.len();
            while i > 0 && tries < budget {
                i -= 1;
                if best.sim.script[i] == 0 {
                    continue;
                }
                tries += 1;
                let mut c = best.clone();
                c.sim.script[i] = 0;
                if reproduces(&c) {
                    best = c;
                }
            }
        }
    }
    best
}

pub fn case_json(case: &ProgCase) -> Value {
    json!({"prog_case": case})
}

pub fn case_from_json(v: &Value) -> Option<ProgCase> {
    serde_json::from_value(v.get("prog_case")?.clone()).ok()
}

/// Standard per-run processing for program-driven checks.
pub fn process(case: &ProgCase, prop: &str, out: &mut RunOut, shrink: bool) -> ProgRun {
    let run = run_case(case);
    let mut stats = vec![];
    let findings = findings_of(case, &run, prop, &mut stats);
    out.evals += run.rt.execs.len() as u64;
    for ex in &run.rt.execs {
        out.decisions += ex.decisions().count() as u64;
        if ex.switches() > 0 {
            out.distinct.push(crate::sim::hash_debug(&(&case.prog, ex.chosen_seq())));
        }
    }
    for st in &stats {
        out.count("lockstep_steps", st.steps as u64);
        out.count("steps_with_2+_completions", st.multi_effect_steps);
        for (k, v) in &st.probes {
            out.count(k, *v);
        }
        for (k, v) in &st.same_step {
            out.count(&format!("same_step_completion_{}", k), v.0);
        }
        let cur = out.counters.get("max_model_states").cloned().unwrap_or(0);
        if st.max_states as u64 > cur {
            out.counters.insert("max_model_states".into(), st.max_states as u64);
        }
    }
    match &run.ending {
        Ending::Panicked(m) if m.starts_with("deadlock!") => out.count("ending_deadlock", 1),
        Ending::Panicked(m) if m.starts_with("fail:") => out.count("ending_program_panic", 1),
        Ending::Panicked(_) => out.count("ending_other_panic", 1),
        Ending::Returned(_) => out.count("ending_pass", 1),
    }
    let mut seen = std::collections::BTreeSet::new();
    for f in findings {
        if !seen.insert(f.key.clone()) {
            continue;
        }
        let c = if shrink { shrink_case(case, &f.key, prop, 300) } else { case.clone() };
        out.violation(f.key.clone(), f.detail.clone(), case_json(&c));
    }
    run
}

pub fn replay_prog_case(case: &Value, prop: &str) -> RunOut {
    let mut out = RunOut::default();
    if let Some(c) = case_from_json(case) {
        process(&c, prop, &mut out, false);
    }
    out
}

pub fn dump_case(case: &Value) {
    let c = match case_from_json(case) {
        Some(c) => c,
        None => {
            println!("not a program case");
            return;
        }
    };
    println!("resources: {:?}", c.prog.res);
    for (b, ops) in c.prog.bodies.iter().enumerate() {
        println!("body {}: {:?}", b, ops);
    }
    println!("sim: {:?} max_steps {:?}", c.sim, c.max_steps);
    let run = run_case(&c);
    for (i, ex) in run.rt.execs.iter().enumerate() {
        println!("--- exec {} seed {} recorded {:?}", i, ex.seed, ex.recorded);
        let ds: Vec<_> = ex.decisions().collect();
        for (k, d) in ds.iter().enumerate() {
            println!("decision {}: offered {:?} blocked {:?} current {:?} yielding {} -> {:?}", k, d.offered, d.blocked, d.current, d.yielding, d.chosen);
            for e in ex.events.iter().filter(|e| e.step as usize == k + 1) {
                println!("      t{} {}{} = {}", e.task, e.kind, e.op, e.val);
            }
        }
    }
    println!("ending: {:?}", run.ending);
    println!("monitors: {:?}", run.monitors);
    let mut st = vec![];
    for f in findings_of(&c, &run, "DUMP", &mut st) {
        println!("finding: {} :: {}", f.key, f.detail);
    }
}
