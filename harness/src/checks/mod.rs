//! One module per property.
use crate::coord::Check;

pub mod common;
pub mod c01;
pub mod c03;
pub mod c16;

pub fn all() -> Vec<Check> {
    vec![c01::check(), c03::check(), c16::check()]
}

pub fn child_main(_args: &[String]) -> i32 {
    2
}
