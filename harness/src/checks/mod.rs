//! One module per property.
use crate::coord::Check;

pub mod common;
pub mod c01;
pub mod c02;
pub mod c03;
pub mod c04;
pub mod c05;
pub mod c06;
pub mod c07;
pub mod c08;
pub mod c09;
pub mod c10;
pub mod c11;
pub mod c12;
pub mod schedutil;
pub mod c13;
pub mod c14;
pub mod c15;
pub mod c19;
pub mod c19_gen;
pub mod c19_lock;
pub mod c19_micro_a;
pub mod c19_micro_b;
pub mod c19_model;
pub mod c19_prog;
pub mod c20;
pub mod c20_coll;
pub mod c20_dash;
pub mod c20_pl;
pub mod c20_rand;
pub mod families;
pub mod c16;
pub mod c17;
pub mod c18;

pub fn all() -> Vec<Check> {
    vec![c01::check(), c02::check(), c03::check(), c04::check(), c05::check(), c06::check(), c07::check(), c08::check(), c09::check(), c10::check(), c11::check(), c12::check(), c13::check(), c14::check(), c15::check(), c16::check(), c17::check(), c18::check(), c19::check(), c20::check()]
}

pub fn child_main(args: &[String]) -> i32 {
    crate::sim::silence_panics();
    match args.first().map(|s| s.as_str()) {
        Some("c14f17") => c14::child_f17(),
        Some("c10") => c10::child(&args[1..]),
        Some("c20coll") => c20_coll::child(&args[1..]),
        Some("c12") => c12::child_history(&args[1..]),
        Some("c12replay") => c12::child_replay(&args[1..]),
        Some("c12portfolio") => c12::child_portfolio(&args[1..]),
        _ => 2,
    }
}
