//! One module per property.
use crate::coord::Check;

pub mod c16;

pub fn all() -> Vec<Check> {
    vec![c16::check()]
}

pub fn child_main(_args: &[String]) -> i32 {
    2
}
