//! Shared helpers of the scheduler checks C09 / C10 / C11:
//!  * a tiny tree-shape DSL (`Shape`) interpreted directly over shuttle::sync / shuttle::thread,
//!  * `Tap`: a light transparent recorder (compact per-decision records, hit marks),
//!  * `CapSched`: bounds the number of executions a scheduler under test may start,
//!  * `enumerate_follow`: the INDEPENDENT schedule-tree enumerator (work-list of choice prefixes,
//!    each replayed through `sim::FollowSched` in its own run) and `enumerate`: the same
//!    algorithm as one scheduler (`EnumSched`) so that all executions share one `Runner::run`;
//!    both share nothing with `dfs.rs`,
//!  * a few statistics helpers (chi-square critical value at z sigma, harmonic numbers).

use crate::sim::{self, quiet_config, run_recorded, Ending, FollowSched, Item, Rng};
use serde::{Deserialize, Serialize};
use shuttle_engine::scheduler::{Schedule, Scheduler, Task, TaskId};
use std::collections::BTreeMap;
use std::sync::atomic::{AtomicBool, Ordering as StdOrdering};
use std::sync::{Arc, Mutex};

// ---------------------------------------------------------------------------------------------
// Shape DSL
// ---------------------------------------------------------------------------------------------

#[derive(Clone, Debug, PartialEq, Eq, Serialize, Deserialize)]
pub enum Step {
    /// thread::yield_now()
    Yield,
    /// atomics[i].fetch_add(1)
    Inc(usize),
    /// atomics[i].load()
    Load(usize),
    /// v = atomics[i].load(); then min(v, cap) extra yields (children count depends on earlier choices)
    Extra(usize, usize),
    /// v = atomics[i].load(); if v is odd run the nested steps
    IfOdd(usize, Vec<Step>),
    /// lock mutexes[i], run the nested steps (no Lock/Spawn/Join inside), unlock
    Lock(usize, Vec<Step>),
    /// spawn body j (every body is spawned at most once, by a body with a smaller index)
    Spawn(usize),
    /// join the previously spawned body j
    Join(usize),
    /// one shuttle::rand draw (logged)
    Rand,
    /// one draw; if the value is odd take one extra yield
    RandBranch,
    /// n draws in a row (long data streams: more values than any prefetch buffer or cache holds)
    RandBurst(usize),
}

#[derive(Clone, Debug, PartialEq, Eq, Serialize, Deserialize, Default)]
pub struct Shape {
    pub atomics: usize,
    pub mutexes: usize,
    pub bodies: Vec<Vec<Step>>,
}

impl Shape {
    pub fn uses_rand(&self) -> bool {
        fn any(s: &[Step]) -> bool {
            s.iter().any(|x| match x {
                Step::Rand | Step::RandBranch | Step::RandBurst(_) => true,
                Step::IfOdd(_, v) | Step::Lock(_, v) => any(v),
                _ => false,
            })
        }
        self.bodies.iter().any(|b| any(b))
    }
    pub fn step_count(&self) -> usize {
        fn cnt(s: &[Step]) -> usize {
            s.iter()
                .map(|x| match x {
                    Step::IfOdd(_, v) | Step::Lock(_, v) => 1 + cnt(v),
                    _ => 1,
                })
                .sum()
        }
        self.bodies.iter().map(|b| cnt(b)).sum()
    }
}

struct ShapeCtx {
    shape: Arc<Shape>,
    atomics: Vec<shuttle::sync::atomic::AtomicUsize>,
    mutexes: Vec<shuttle::sync::Mutex<u32>>,
}

/// The Shuttle body for a shape: body 0 is the main thread.
pub fn run_shape(shape: &Arc<Shape>) {
    let ctx = Arc::new(ShapeCtx {
        shape: shape.clone(),
        atomics: (0..shape.atomics.max(1)).map(|_| shuttle::sync::atomic::AtomicUsize::new(0)).collect(),
        mutexes: (0..shape.mutexes.max(1)).map(|_| shuttle::sync::Mutex::new(0)).collect(),
    });
    run_body(&ctx, 0);
}

fn run_body(ctx: &Arc<ShapeCtx>, b: usize) {
    let mut handles: Vec<(usize, shuttle::thread::JoinHandle<()>)> = vec![];
    let steps = ctx.shape.bodies[b].clone();
    exec_steps(ctx, b, &steps, &mut handles);
}

fn exec_steps(ctx: &Arc<ShapeCtx>, b: usize, steps: &[Step], handles: &mut Vec<(usize, shuttle::thread::JoinHandle<()>)>) {
    use shuttle::sync::atomic::Ordering::SeqCst;
    for st in steps {
        match st {
            Step::Yield => shuttle::thread::yield_now(),
            Step::Inc(i) => {
                let v = ctx.atomics[*i % ctx.atomics.len()].fetch_add(1, SeqCst);
                sim::log("A", format!("b{}inc{}", b, i), v.to_string());
            }
            Step::Load(i) => {
                let v = ctx.atomics[*i % ctx.atomics.len()].load(SeqCst);
                sim::log("A", format!("b{}load{}", b, i), v.to_string());
            }
            Step::Extra(i, cap) => {
                let v = ctx.atomics[*i % ctx.atomics.len()].load(SeqCst);
                sim::log("A", format!("b{}extra{}", b, i), v.to_string());
                for _ in 0..v.min(*cap) {
                    shuttle::thread::yield_now();
                }
            }
            Step::IfOdd(i, inner) => {
                let v = ctx.atomics[*i % ctx.atomics.len()].load(SeqCst);
                sim::log("A", format!("b{}ifodd{}", b, i), v.to_string());
                if v % 2 == 1 {
                    exec_steps(ctx, b, inner, handles);
                }
            }
            Step::Lock(i, inner) => {
                let mut g = ctx.mutexes[*i % ctx.mutexes.len()].lock().unwrap();
                *g += 1;
                sim::log("M", format!("b{}lock{}", b, i), g.to_string());
                exec_steps(ctx, b, inner, handles);
                drop(g);
            }
            Step::Spawn(j) => {
                let c2 = ctx.clone();
                let j = *j;
                let h = shuttle::thread::spawn(move || run_body(&c2, j));
                handles.push((j, h));
            }
            Step::Join(j) => {
                if let Some(p) = handles.iter().position(|(x, _)| x == j) {
                    let (_, h) = handles.remove(p);
                    let _ = h.join();
                    sim::log("J", format!("b{}join{}", b, j), "");
                }
            }
            Step::Rand => {
                use shuttle::rand::RngCore;
                let v = shuttle::rand::thread_rng().next_u64();
                sim::log("R", format!("b{}", b), v.to_string());
            }
            Step::RandBurst(n) => {
                use shuttle::rand::RngCore;
                let mut r = shuttle::rand::thread_rng();
                let mut h = 0u64;
                for k in 0..*n {
                    // alternate the draw flavours (each is exactly one scheduler draw)
                    let v = if k % 3 == 2 { r.next_u32() as u64 } else { r.next_u64() };
                    h = h.rotate_left(7) ^ v;
                }
                sim::log("R", format!("b{}burst{}", b, n), h.to_string());
            }
            Step::RandBranch => {
                use shuttle::rand::RngCore;
                let v = shuttle::rand::thread_rng().next_u64();
                sim::log("R", format!("b{}", b), v.to_string());
                if v % 2 == 1 {
                    shuttle::thread::yield_now();
                }
            }
        }
    }
}

#[derive(Clone, Debug)]
pub struct ShapeCfg {
    /// number of bodies (threads incl. main), 2..
    pub bodies: (usize, usize),
    /// own steps per body
    pub steps: (usize, usize),
    pub rand: bool,
    pub locks: bool,
    pub joins: bool,
    pub dependent: bool,
    pub yields: bool,
    /// spawn trees (children spawn grandchildren) instead of main spawning everything
    pub nested_spawn: bool,
}

/// Generate a random shape. Every body j >= 1 is spawned exactly once by a body with a smaller
/// index; nested Lock bodies contain only plain steps, so shapes never deadlock.
pub fn gen_shape(rng: &mut Rng, cfg: &ShapeCfg) -> Shape {
    let nb = rng.range(cfg.bodies.0, cfg.bodies.1);
    let atomics = rng.range(1, 3);
    let mutexes = if cfg.locks { rng.range(1, 2) } else { 0 };
    let mut bodies: Vec<Vec<Step>> = vec![vec![]; nb];
    // who spawns whom
    let mut parent = vec![0usize; nb];
    for j in 1..nb {
        parent[j] = if cfg.nested_spawn && j > 1 && rng.chance(1, 2) { rng.below(j) } else { 0 };
    }
    fn plain(rng: &mut Rng, cfg: &ShapeCfg, atomics: usize, allow_rand: bool) -> Step {
        loop {
            match rng.below(7) {
                0 if cfg.yields => return Step::Yield,
                1 | 2 => return Step::Inc(rng.below(atomics)),
                3 => return Step::Load(rng.below(atomics)),
                4 if cfg.dependent => return Step::Extra(rng.below(atomics), rng.range(1, 2)),
                5 | 6 if cfg.rand && allow_rand => return if rng.chance(1, 2) { Step::Rand } else { Step::RandBranch },
                6 => return Step::Inc(rng.below(atomics)),
                _ => {}
            }
        }
    }
    for b in 0..nb {
        let n = rng.range(cfg.steps.0, cfg.steps.1);
        let mut v: Vec<Step> = vec![];
        for _ in 0..n {
            let k = rng.below(10);
            if k == 0 && cfg.locks {
                let m = rng.range(0, 2);
                let inner = (0..m).map(|_| plain(rng, cfg, atomics, true)).collect();
                v.push(Step::Lock(rng.below(mutexes.max(1)), inner));
            } else if k == 1 && cfg.dependent {
                let m = rng.range(1, 2);
                let inner = (0..m).map(|_| plain(rng, cfg, atomics, true)).collect();
                v.push(Step::IfOdd(rng.below(atomics), inner));
            } else {
                v.push(plain(rng, cfg, atomics, true));
            }
        }
        bodies[b] = v;
    }
    // insert spawns (children in ascending order at random positions, keeping ascending order per parent)
    for p in 0..nb {
        let kids: Vec<usize> = (1..nb).filter(|j| parent[*j] == p).collect();
        let mut pos_lo = 0usize;
        for j in kids {
            let len = bodies[p].len();
            // bias towards early spawns so that threads overlap
            let pos = if rng.chance(2, 3) { pos_lo } else { rng.range(pos_lo, len) };
            bodies[p].insert(pos, Step::Spawn(j));
            pos_lo = pos + 1;
            if cfg.joins && rng.chance(1, 2) {
                let len = bodies[p].len();
                let jp = if rng.chance(1, 2) { len } else { rng.range(pos_lo, len) };
                bodies[p].insert(jp, Step::Join(j));
            }
        }
    }
    Shape { atomics, mutexes, bodies }
}

/// Remove one step from the longest body (used to bring a tree under the leaf cap).
pub fn shrink_shape(shape: &mut Shape) -> bool {
    // prefer removing plain steps; never remove Spawn (bodies must stay reachable) unless the body is last
    let mut best: Option<(usize, usize)> = None;
    let mut best_len = 0;
    for (b, body) in shape.bodies.iter().enumerate() {
        if let Some(p) = body.iter().rposition(|s| !matches!(s, Step::Spawn(_) | Step::Join(_))) {
            if body.len() > best_len {
                best_len = body.len();
                best = Some((b, p));
            }
        }
    }
    match best {
        Some((b, p)) => {
            shape.bodies[b].remove(p);
            true
        }
        None => {
            // drop the last body entirely
            if shape.bodies.len() > 2 {
                let j = shape.bodies.len() - 1;
                shape.bodies.pop();
                for body in shape.bodies.iter_mut() {
                    body.retain(|s| !matches!(s, Step::Spawn(x) | Step::Join(x) if *x == j));
                }
                true
            } else {
                false
            }
        }
    }
}

pub type Body = Arc<dyn Fn() + Send + Sync + 'static>;

pub fn shape_body(shape: &Shape) -> Body {
    let s = Arc::new(shape.clone());
    Arc::new(move || run_shape(&s))
}

// ---------------------------------------------------------------------------------------------
// Hit marks (plain thread-local; Shuttle runs all tasks of an execution on the calling OS thread)
// ---------------------------------------------------------------------------------------------

// process-wide (runs execute on their own short-lived threads, one at a time per worker)
static MARKS: std::sync::Mutex<Vec<u32>> = std::sync::Mutex::new(Vec::new());

pub fn mark(code: u32) {
    MARKS.lock().unwrap_or_else(|e| e.into_inner()).push(code);
}

pub fn take_marks() -> Vec<u32> {
    std::mem::take(&mut *MARKS.lock().unwrap_or_else(|e| e.into_inner()))
}

// ---------------------------------------------------------------------------------------------
// Tap: light transparent recorder
// ---------------------------------------------------------------------------------------------

#[derive(Clone, Copy, Debug, PartialEq, Eq)]
pub struct TapDec {
    /// bit i set = task i offered (ids >= 64 are not representable: `wide` is set on the exec)
    pub mask: u64,
    pub n: u8,
    /// position of the chosen task in the offered list
    pub pos: u8,
    pub chosen: u8,
    /// 255 = none
    pub current: u8,
    pub yielding: bool,
}

#[derive(Clone, Debug, Default, PartialEq, Eq)]
pub struct TapExec {
    pub seed: u64,
    /// chosen task id per decision, -1 per draw (same encoding as ExecTrace::reconstruct)
    pub steps: Vec<i32>,
    pub decs: Vec<TapDec>,
    pub draws: Vec<u64>,
    pub marks: Vec<u32>,
    pub wide: bool,
}

impl TapExec {
    pub fn chosen_seq(&self) -> Vec<u32> {
        self.decs.iter().map(|d| d.chosen as u32).collect()
    }
    pub fn multi_choice(&self) -> usize {
        self.decs.iter().filter(|d| d.n > 1).count()
    }
}

pub type TapOut = Arc<Mutex<Vec<TapExec>>>;

pub struct Tap<S: Scheduler> {
    inner: S,
    out: TapOut,
    /// keep per-decision records (false: only `steps`, `draws`, `marks`)
    detail: bool,
}

impl<S: Scheduler> std::fmt::Debug for Tap<S> {
    fn fmt(&self, f: &mut std::fmt::Formatter<'_>) -> std::fmt::Result {
        f.write_str("Tap")
    }
}

impl<S: Scheduler> Tap<S> {
    pub fn new(inner: S, detail: bool) -> (Self, TapOut) {
        let out: TapOut = Arc::new(Mutex::new(vec![]));
        (Tap { inner, out: out.clone(), detail }, out)
    }
}

fn tap_close(out: &TapOut) {
    let marks = take_marks();
    let _ = sim::take_log();
    let mut o = out.lock().unwrap_or_else(|e| e.into_inner());
    if let Some(last) = o.last_mut() {
        last.marks.extend(marks);
    }
}

impl<S: Scheduler> Scheduler for Tap<S> {
    fn new_execution(&mut self) -> Option<Schedule> {
        tap_close(&self.out);
        let r = self.inner.new_execution();
        if let Some(s) = &r {
            let mut o = self.out.lock().unwrap_or_else(|e| e.into_inner());
            let mut e = TapExec::default();
            e.seed = s.seed;
            o.push(e);
        }
        r
    }
    fn next_task(&mut self, runnable: &[&Task], current: Option<TaskId>, is_yielding: bool) -> Option<TaskId> {
        let ans = self.inner.next_task(runnable, current, is_yielding);
        let mut o = self.out.lock().unwrap_or_else(|e| e.into_inner());
        if let (Some(e), Some(c)) = (o.last_mut(), ans) {
            let cid = usize::from(c);
            e.steps.push(cid as i32);
            if self.detail {
                let mut mask = 0u64;
                let mut pos = 255u8;
                for (i, t) in runnable.iter().enumerate() {
                    let id = usize::from(t.id());
                    if id < 64 {
                        mask |= 1u64 << id;
                    } else {
                        e.wide = true;
                    }
                    if t.id() == c {
                        pos = i.min(254) as u8;
                    }
                }
                e.decs.push(TapDec {
                    mask,
                    n: runnable.len().min(255) as u8,
                    pos,
                    chosen: cid.min(255) as u8,
                    current: current.map(|c| usize::from(c).min(254) as u8).unwrap_or(255),
                    yielding: is_yielding,
                });
            }
        }
        ans
    }
    fn next_u64(&mut self) -> u64 {
        let v = self.inner.next_u64();
        let mut o = self.out.lock().unwrap_or_else(|e| e.into_inner());
        if let Some(e) = o.last_mut() {
            e.steps.push(-1);
            e.draws.push(v);
        }
        v
    }
}

/// Run `body` under `sched` wrapped in a Tap.
pub fn run_tapped<S: Scheduler + 'static>(sched: S, config: shuttle::Config, body: Body, detail: bool) -> (Ending, Vec<TapExec>) {
    sim::silence_panics();
    let _ = take_marks();
    let _ = sim::take_log();
    let (tap, out) = Tap::new(sched, detail);
    let r = std::panic::catch_unwind(std::panic::AssertUnwindSafe(|| {
        let runner = shuttle::Runner::new(tap, config);
        let b = body.clone();
        runner.run(move || b())
    }));
    tap_close(&out);
    let ending = match r {
        Ok(n) => Ending::Returned(n),
        Err(p) => Ending::Panicked(sim::payload_to_string(&*p)),
    };
    let v = std::mem::take(&mut *out.lock().unwrap_or_else(|e| e.into_inner()));
    (ending, v)
}

// ---------------------------------------------------------------------------------------------
// CapSched: the scheduler under test may start at most `cap` executions
// ---------------------------------------------------------------------------------------------

pub struct CapSched<S: Scheduler> {
    inner: S,
    cap: usize,
    started: usize,
    pub over: Arc<AtomicBool>,
}

impl<S: Scheduler> std::fmt::Debug for CapSched<S> {
    fn fmt(&self, f: &mut std::fmt::Formatter<'_>) -> std::fmt::Result {
        f.write_str("CapSched")
    }
}

impl<S: Scheduler> CapSched<S> {
    pub fn new(inner: S, cap: usize) -> (Self, Arc<AtomicBool>) {
        let over = Arc::new(AtomicBool::new(false));
        (CapSched { inner, cap, started: 0, over: over.clone() }, over)
    }
}

impl<S: Scheduler> Scheduler for CapSched<S> {
    fn new_execution(&mut self) -> Option<Schedule> {
        if self.over.load(StdOrdering::SeqCst) {
            return None;
        }
        let r = self.inner.new_execution();
        if r.is_some() {
            if self.started >= self.cap {
                self.over.store(true, StdOrdering::SeqCst);
                return None;
            }
            self.started += 1;
        }
        r
    }
    fn next_task(&mut self, runnable: &[&Task], current: Option<TaskId>, is_yielding: bool) -> Option<TaskId> {
        self.inner.next_task(runnable, current, is_yielding)
    }
    fn next_u64(&mut self) -> u64 {
        self.inner.next_u64()
    }
}

// ---------------------------------------------------------------------------------------------
// The independent enumerator
// ---------------------------------------------------------------------------------------------

#[derive(Clone, Debug, PartialEq, Eq)]
pub struct Leaf {
    /// chosen task id per decision, -1 per draw, in order
    pub items: Vec<i32>,
    /// number of offered tasks per decision
    pub lens: Vec<u8>,
    /// offered ids per decision (only kept when `keep_offered`)
    pub offered: Vec<Vec<u32>>,
    pub draws: Vec<u64>,
    pub events_hash: Option<u64>,
}

impl Leaf {
    pub fn chosen(&self) -> Vec<u32> {
        self.items.iter().filter(|x| **x >= 0).map(|x| *x as u32).collect()
    }
    /// probability of this leaf under a uniform random walk
    pub fn rw_probability(&self) -> f64 {
        self.lens.iter().map(|l| 1.0 / (*l as f64)).product()
    }
}

#[derive(Clone, Debug, Default)]
pub struct EnumResult {
    pub leaves: Vec<Leaf>,
    /// false: the leaf cap was reached and the enumeration abandoned
    pub complete: bool,
    pub executions: u64,
    pub decisions: u64,
    /// a replayed prefix diverged / an execution panicked: the body is not a valid workload
    pub failure: Option<String>,
}

/// Enumerate every maximal schedule of `body` under `config`.
///
/// Work-list of choice prefixes (task ids). Each prefix is replayed through
/// `FollowSched::new(seed, prefix, true)`, which afterwards always takes the first offered task.
/// For every decision at depth >= len(prefix) one new prefix per untaken sibling is pushed. By
/// induction over the depth of the deviation every maximal path of the choice tree is produced
/// exactly once, no execution is abandoned.
pub fn enumerate_follow(seed: u64, config: &shuttle::Config, body: &Body, cap: usize, keep_offered: bool) -> EnumResult {
    let mut res = EnumResult::default();
    let mut work: Vec<Vec<u32>> = vec![vec![]];
    while let Some(prefix) = work.pop() {
        if res.leaves.len() >= cap {
            res.complete = false;
            return res;
        }
        let plen = prefix.len();
        let fs = FollowSched::new(seed, prefix.clone(), true);
        let div = fs.diverged.clone();
        let b = body.clone();
        let (ending, rt) = run_recorded(fs, config.clone(), move || b());
        res.executions += 1;
        if let Ending::Panicked(m) = &ending {
            res.failure = Some(format!("prefix {:?}: execution panicked: {}", prefix, m));
            return res;
        }
        if let Some(d) = div.lock().unwrap().clone() {
            res.failure = Some(format!("prefix {:?}: {}", prefix, d));
            return res;
        }
        let ex = match rt.execs.first() {
            Some(e) => e,
            None => {
                res.failure = Some("enumerator execution did not run".into());
                return res;
            }
        };
        let mut leaf = Leaf { items: vec![], lens: vec![], offered: vec![], draws: vec![], events_hash: Some(events_hash(&ex.events)) };
        let mut chosen_so_far: Vec<u32> = vec![];
        for it in &ex.items {
            match it {
                Item::R(v) => {
                    leaf.items.push(-1);
                    leaf.draws.push(*v);
                }
                Item::D(d) => {
                    let c = match d.chosen {
                        Some(c) => c,
                        None => break,
                    };
                    let depth = chosen_so_far.len();
                    if depth >= plen {
                        for o in &d.offered {
                            if *o != c {
                                let mut p = chosen_so_far.clone();
                                p.push(*o);
                                work.push(p);
                            }
                        }
                    }
                    leaf.items.push(c as i32);
                    leaf.lens.push(d.offered.len().min(255) as u8);
                    if keep_offered {
                        leaf.offered.push(d.offered.clone());
                    }
                    chosen_so_far.push(c);
                    res.decisions += 1;
                }
            }
        }
        if chosen_so_far.len() < plen || chosen_so_far[..plen] != prefix[..] {
            res.failure = Some(format!("prefix {:?} was not followed: got {:?}", prefix, chosen_so_far));
            return res;
        }
        res.leaves.push(leaf);
    }
    res.complete = true;
    res
}

pub fn events_hash(ev: &[sim::Event]) -> u64 {
    sim::hash_debug(&ev.iter().map(|e| (e.task, &e.kind, &e.op, &e.val)).collect::<Vec<_>>())
}

/// The same enumeration algorithm as `enumerate_follow`, but as ONE scheduler that keeps the
/// work-list itself, so that all executions share one `Runner::run` (one continuation pool;
/// creating a Runner per prefix costs an mmap per task stack). Still shares nothing with
/// `dfs.rs`; `enumerate_follow` cross-checks it on small trees.
#[derive(Debug)]
pub struct EnumSched {
    seed: u64,
    work: Vec<Vec<u32>>,
    prefix: Vec<u32>,
    chosen: Vec<u32>,
    data: shuttle_engine::scheduler::data::RandomDataSource,
    started: usize,
    cap: usize,
    state: Arc<Mutex<EnumState>>,
}

#[derive(Debug, Default, Clone)]
pub struct EnumState {
    pub incomplete: bool,
    pub failure: Option<String>,
}

impl EnumSched {
    pub fn new(seed: u64, cap: usize) -> (Self, Arc<Mutex<EnumState>>) {
        use shuttle_engine::scheduler::data::DataSource;
        let state = Arc::new(Mutex::new(EnumState::default()));
        (
            EnumSched {
                seed,
                work: vec![vec![]],
                prefix: vec![],
                chosen: vec![],
                data: shuttle_engine::scheduler::data::RandomDataSource::initialize(seed),
                started: 0,
                cap,
                state: state.clone(),
            },
            state,
        )
    }
}

impl Scheduler for EnumSched {
    fn new_execution(&mut self) -> Option<Schedule> {
        use shuttle_engine::scheduler::data::DataSource;
        if self.state.lock().unwrap().failure.is_some() {
            return None;
        }
        let p = self.work.pop()?;
        if self.started >= self.cap {
            self.state.lock().unwrap().incomplete = true;
            return None;
        }
        self.started += 1;
        self.prefix = p;
        self.chosen.clear();
        self.data = shuttle_engine::scheduler::data::RandomDataSource::initialize(self.seed);
        Some(Schedule::new(self.data.reinitialize()))
    }
    fn next_task(&mut self, runnable: &[&Task], _c: Option<TaskId>, _y: bool) -> Option<TaskId> {
        let depth = self.chosen.len();
        let pick = if depth < self.prefix.len() {
            let want = self.prefix[depth];
            match runnable.iter().find(|t| usize::from(t.id()) as u32 == want) {
                Some(t) => t.id(),
                None => {
                    self.state.lock().unwrap().failure = Some(format!(
                        "prefix {:?}: task {} not offered at depth {} (offered {:?})",
                        self.prefix,
                        want,
                        depth,
                        runnable.iter().map(|t| usize::from(t.id())).collect::<Vec<_>>()
                    ));
                    return None;
                }
            }
        } else {
            let first = runnable[0].id();
            for t in runnable.iter().skip(1) {
                let mut p = self.chosen.clone();
                p.push(usize::from(t.id()) as u32);
                self.work.push(p);
            }
            first
        };
        self.chosen.push(usize::from(pick) as u32);
        Some(pick)
    }
    fn next_u64(&mut self) -> u64 {
        use shuttle_engine::scheduler::data::DataSource;
        self.data.next_u64()
    }
}

/// Enumerate with `EnumSched`. `full` = record through the full `sim::Recorder` (offered ids,
/// event hashes); otherwise through a `Tap` (compact).
pub fn enumerate(seed: u64, config: &shuttle::Config, body: &Body, cap: usize, full: bool) -> EnumResult {
    let mut res = EnumResult::default();
    let (es, state) = EnumSched::new(seed, cap);
    if full {
        let b = body.clone();
        let (ending, rt) = run_recorded(es, config.clone(), move || b());
        if let Ending::Panicked(m) = &ending {
            res.failure = Some(format!("enumeration run panicked: {}", m));
        }
        for ex in &rt.execs {
            let mut leaf = Leaf { items: vec![], lens: vec![], offered: vec![], draws: vec![], events_hash: Some(events_hash(&ex.events)) };
            for it in &ex.items {
                match it {
                    Item::R(v) => {
                        leaf.items.push(-1);
                        leaf.draws.push(*v);
                    }
                    Item::D(d) => {
                        if let Some(c) = d.chosen {
                            leaf.items.push(c as i32);
                            leaf.lens.push(d.offered.len().min(255) as u8);
                            leaf.offered.push(d.offered.clone());
                            res.decisions += 1;
                        }
                    }
                }
            }
            res.leaves.push(leaf);
        }
    } else {
        let (ending, execs) = run_tapped(es, config.clone(), body.clone(), true);
        if let Ending::Panicked(m) = &ending {
            res.failure = Some(format!("enumeration run panicked: {}", m));
        }
        for ex in execs {
            res.decisions += ex.decs.len() as u64;
            res.leaves.push(Leaf { lens: ex.decs.iter().map(|d| d.n).collect(), items: ex.steps, offered: vec![], draws: ex.draws, events_hash: None });
        }
    }
    res.executions = res.leaves.len() as u64;
    let st = state.lock().unwrap().clone();
    if res.failure.is_none() {
        res.failure = st.failure;
    }
    res.complete = !st.incomplete && res.failure.is_none();
    res
}

/// The `ContinueAfter(n)` truncation rule of the runtime, applied to a complete leaf: an
/// execution is stopped at the first *scheduling point* at which the recorded schedule
/// (answered decisions + draws) already has >= n entries; draws made by the running task
/// before it reaches that scheduling point still happen.
pub fn truncate_items(items: &[i32], n: usize) -> Vec<i32> {
    let mut out = vec![];
    for it in items {
        if *it >= 0 && out.len() >= n {
            break;
        }
        out.push(*it);
    }
    out
}

pub fn default_config() -> shuttle::Config {
    quiet_config()
}

// ---------------------------------------------------------------------------------------------
// Statistics helpers
// ---------------------------------------------------------------------------------------------

/// Wilson–Hilferty approximation of the chi-square quantile that a standard normal exceeds with
/// the probability of `z` sigma (one-sided). Conservative enough for our use: for df=1, z=6.5 it
/// gives ~54 (exact p there ~2e-13).
pub fn chi2_crit(df: usize, z: f64) -> f64 {
    let d = df.max(1) as f64;
    let a = 2.0 / (9.0 * d);
    d * (1.0 - a + z * a.sqrt()).powi(3)
}

pub fn chi2_uniform(counts: &[u64]) -> (f64, u64) {
    let n: u64 = counts.iter().sum();
    if n == 0 {
        return (0.0, 0);
    }
    let e = n as f64 / counts.len() as f64;
    (counts.iter().map(|c| (*c as f64 - e).powi(2) / e).sum(), n)
}

pub fn harmonic(n: usize) -> f64 {
    (1..=n.max(1)).map(|i| 1.0 / i as f64).sum()
}

/// key → count histogram helper with deterministic order
pub type Hist<K> = BTreeMap<K, u64>;
