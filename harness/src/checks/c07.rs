//! C07 — thread lifecycle: spawn, join, scope and thread-locals behave as in std.
use super::families::*;
use crate::coord::{Batch, Check, Tier};

const FAM: Family = Family { prop: "C07", gen: gen_c07 };

pub fn check() -> Check {
    Check {
        id: "C07",
        level: "exploration",
        rule: "per run: a seeded program with nested spawns (named threads), joins in any order, thread::scope with 1-3 scoped threads whose owner blocks on other primitives inside the scope closure, a pool of three thread_local keys whose values log initialisation and Drop and whose destructors touch another key / yield, lazy statics; oracle: lockstep reference model for blocking (join, scope end) + log monitors: closure runs once in the task spawn reported, join returns after the child's closure end and after all its destructor events, destructor order = initialisation order, exactly once, no resurrection, thread ids unique, id/name match. Distinct = (program, chosen sequence); non-trivial = at least one switch",
        assumptions: &["scope waits for the scoped closures, not for the scoped threads' TLS destructors (as std does)", "destructors that synchronise are exercised only while a current task exists (abandoned executions: known finding F17, see C14)"],
        real_components: "real: shuttle-std thread (spawn, Builder, join, scope, park), shuttle-engine thread_support (thread_fn, LocalKey), storage; model only as oracle",
        batches: |t: Tier| vec![Batch::new("threads", t.pick(12000, 200000), 400), Batch::new("tls", t.pick(12000, 200000), 400)],
        run: |b, _i, seed, t| run_family(&FAM, b, seed, t),
        replay: |c| replay_family(&FAM, c),
        probes: &["join_ok", "scope_end", "tls_ok", "tls_access_after_destruction_rejected", "tls_destructor_touched_other_key"],
    }
}
