//! C19 — reference models of the tokio contracts (written from the tokio documentation) as
//! micro-operation state machines. Every DSL operation is a short sequence of micro-operations
//! (guard + effect); the lockstep checker (c19_lock.rs) lets a task execute any number of its
//! enabled micro-operations in one of its steps; the completion must coincide with the logged
//! End event and produce the logged result.
//!
//! The model never looks at Shuttle's data structures. `Hyp` selects *defect hypotheses*: model
//! variants that describe one specific deviation from the contract; they are used only to name a
//! violation that the reference model (no hypothesis) has already established.

use super::c19_prog::{ret_val, Op, TProgram, NSLOTS};
use std::collections::{BTreeMap, VecDeque};

/// at most this many resources of one kind per program (fixed-size task-local arrays keep model
/// states cheap to clone)
pub const MAXR: usize = 4;

fn arr<T: Copy + Default>(it: impl Iterator<Item = T>) -> [T; MAXR] {
    let mut a = [T::default(); MAXR];
    for (i, v) in it.enumerate() {
        a[i] = v;
    }
    a
}

#[derive(Clone, Debug, Default, PartialEq, Eq)]
pub struct Hyp {
    /// receive method that does not give the slot back: "recv" | "try_recv" | "blocking_recv"
    pub cap_not_returned: Option<&'static str>,
    /// a `Notified` selected by notify_one and dropped unobserved does not forward
    pub dropped_notified_no_forward: bool,
    /// notify_waiters discards a stored permit
    pub nw_clears_permit: bool,
    /// notify_waiters skips waiters that were never polled / enabled
    pub nw_skips_init: bool,
}

#[derive(Clone, Debug, PartialEq, Eq, PartialOrd, Ord, Hash)]
pub enum TSt {
    NotSpawned,
    /// spawned, has not logged anything yet
    Ready,
    Idle,
    Pending { micro: u8 },
    Exiting,
    Done,
}

#[derive(Clone, Debug, PartialEq, Eq, PartialOrd, Ord, Hash)]
pub struct MTask {
    pub st: TSt,
    pub label: String,
    pub thread: bool,
    /// 0 none, 1 returned, 2 aborted
    pub outcome: u8,
    pub abort_req: bool,
    pub detached: bool,
    pub permits: [Vec<u32>; MAXR],
    pub mheld: [bool; MAXR],
    /// 0 none, 1 read, 2 write
    pub rheld: [u8; MAXR],
    pub tx: [bool; MAXR],
    pub rx: [bool; MAXR],
    pub ostx: [bool; MAXR],
    pub osrx: [bool; MAXR],
    pub os_taken: [bool; MAXR],
    pub wtx: [bool; MAXR],
    pub wrx: [Option<u64>; MAXR],
    /// (notify, waiter id)
    pub nslots: [Option<(usize, u32)>; NSLOTS],
    pub handles: Vec<Option<usize>>,
    /// scratch of the operation in flight (popped value, waiter id, result flag)
    pub tmp: u64,
}

#[derive(Clone, Debug, PartialEq, Eq, PartialOrd, Ord, Hash, Default)]
pub struct MSem {
    pub avail: usize,
    pub closed: bool,
    /// FIFO of (task, permits wanted)
    pub queue: Vec<(usize, usize)>,
    /// granted but not yet observed by the waiter
    pub granted: BTreeMap<usize, usize>,
}

pub enum Arr {
    Ok,
    Closed,
    Queued,
}

impl MSem {
    pub fn new(n: usize) -> MSem {
        MSem { avail: n, closed: false, queue: vec![], granted: BTreeMap::new() }
    }
    pub fn fits_now(&self, n: usize) -> bool {
        !self.closed && self.queue.is_empty() && self.avail >= n
    }
    pub fn arrive(&mut self, t: usize, n: usize) -> Arr {
        if self.closed {
            Arr::Closed
        } else if self.queue.is_empty() && self.avail >= n {
            self.avail -= n;
            Arr::Ok
        } else {
            self.queue.push((t, n));
            Arr::Queued
        }
    }
    /// 0 ok, 1 no permits, 2 closed
    pub fn try_acq(&mut self, n: usize) -> u8 {
        if self.closed {
            2
        } else if self.queue.is_empty() && self.avail >= n {
            self.avail -= n;
            0
        } else {
            1
        }
    }
    /// Some(true) granted, Some(false) closed, None still waiting
    pub fn poll_granted(&mut self, t: usize) -> Option<bool> {
        if self.granted.remove(&t).is_some() {
            Some(true)
        } else if self.queue.iter().any(|(w, _)| *w == t) {
            None
        } else {
            Some(false)
        }
    }
    pub fn would_complete(&self, t: usize) -> bool {
        self.granted.contains_key(&t) || !self.queue.iter().any(|(w, _)| *w == t)
    }
    pub fn grant_front(&mut self) {
        while let Some((t, n)) = self.queue.first().cloned() {
            if n <= self.avail {
                self.avail -= n;
                self.granted.insert(t, n);
                self.queue.remove(0);
            } else {
                break;
            }
        }
    }
    pub fn release(&mut self, k: usize) {
        if k == 0 {
            return;
        }
        self.avail += k;
        self.grant_front();
    }
    pub fn close(&mut self) {
        self.closed = true;
        self.queue.clear();
    }
    pub fn cancel(&mut self, t: usize) {
        if let Some(i) = self.queue.iter().position(|(w, _)| *w == t) {
            self.queue.remove(i);
            if i == 0 {
                self.grant_front();
            }
        } else if let Some(n) = self.granted.remove(&t) {
            self.release(n);
        }
    }
}

#[derive(Clone, Debug, PartialEq, Eq, PartialOrd, Ord, Hash, Default)]
pub struct MMutex {
    pub sem: MSem,
    pub val: u64,
}

#[derive(Clone, Debug, PartialEq, Eq, PartialOrd, Ord, Hash, Default)]
pub struct MRw {
    pub sem: MSem,
    pub max: usize,
    pub val: u64,
}

#[derive(Clone, Debug, PartialEq, Eq, PartialOrd, Ord, Hash, Default)]
pub struct MChan {
    pub bound: Option<usize>,
    /// send permits; `closed` = closed for sending
    pub cap: MSem,
    /// pushed values
    pub buf: VecDeque<u64>,
    /// values made available to the receiver
    pub published: usize,
    pub senders: usize,
    /// no sender left and nothing buffered: the receiver is released with None / Disconnected
    pub recv_closed: bool,
}

#[derive(Clone, Debug, PartialEq, Eq, PartialOrd, Ord, Hash, Default)]
pub struct MOne {
    pub val: Option<u64>,
    /// 0 alive, 1 sent, 2 dropped
    pub tx: u8,
    pub rx_alive: bool,
    pub rx_closed: bool,
}

#[derive(Clone, Debug, PartialEq, Eq, PartialOrd, Ord, Hash, Default)]
pub struct MWatch {
    pub val: u64,
    pub ver: u64,
    /// number of live `Sender` handles
    pub tx_count: usize,
    pub rx_count: usize,
}

/// waiter state: 0 created (registered for notify_waiters only), 1 enabled, 2 notified by
/// notify_waiters or a consumed permit, 3 selected by notify_one and not yet observed
#[derive(Clone, Debug, PartialEq, Eq, PartialOrd, Ord, Hash, Default)]
pub struct MNotify {
    pub permit: bool,
    pub waiters: Vec<(u32, u8)>,
    pub next_id: u32,
}

impl MNotify {
    pub fn st(&self, id: u32) -> Option<u8> {
        self.waiters.iter().find(|(w, _)| *w == id).map(|(_, s)| *s)
    }
    pub fn set(&mut self, id: u32, st: u8) {
        if let Some(w) = self.waiters.iter_mut().find(|(w, _)| *w == id) {
            w.1 = st;
        }
    }
    pub fn create(&mut self) -> u32 {
        let id = self.next_id;
        self.next_id += 1;
        self.waiters.push((id, 0));
        id
    }
    pub fn remove(&mut self, id: u32) {
        self.waiters.retain(|(w, _)| *w != id);
    }
    /// all outcomes of notify_one
    pub fn notify_one(&self) -> Vec<MNotify> {
        let en: Vec<u32> = self.waiters.iter().filter(|(_, s)| *s == 1).map(|(w, _)| *w).collect();
        if en.is_empty() {
            let mut n = self.clone();
            n.permit = true;
            return vec![n];
        }
        en.iter()
            .map(|w| {
                let mut n = self.clone();
                n.set(*w, 3);
                n
            })
            .collect()
    }
    /// first poll / enable of a waiter: true = ready
    pub fn enable(&mut self, id: u32) -> bool {
        match self.st(id) {
            Some(2) => true,
            Some(3) => {
                self.set(id, 2);
                true
            }
            Some(_) => {
                if self.permit {
                    self.permit = false;
                    self.set(id, 2);
                    true
                } else {
                    self.set(id, 1);
                    false
                }
            }
            None => false,
        }
    }
    /// all outcomes of dropping a waiter
    pub fn drop_waiter(&self, id: u32, h: &Hyp) -> Vec<MNotify> {
        let st = self.st(id);
        let mut n = self.clone();
        n.remove(id);
        if st == Some(3) && !h.dropped_notified_no_forward {
            n.notify_one()
        } else {
            vec![n]
        }
    }
}

#[derive(Clone, Debug, PartialEq, Eq, PartialOrd, Ord, Hash)]
pub struct MState {
    pub tasks: Vec<MTask>,
    pub sems: Vec<MSem>,
    pub mutexes: Vec<MMutex>,
    pub rws: Vec<MRw>,
    pub chans: Vec<MChan>,
    pub ones: Vec<MOne>,
    pub watches: Vec<MWatch>,
    pub notifies: Vec<MNotify>,
    pub triggered: Vec<bool>,
}

pub fn init_state(p: &TProgram) -> MState {
    let r = &p.res;
    let nb = p.bodies.len();
    let tasks = (0..nb)
        .map(|b| MTask {
            st: if b == 0 { TSt::Ready } else { TSt::NotSpawned },
            label: String::new(),
            thread: p.bodies[b].thread,
            outcome: 0,
            abort_req: false,
            detached: false,
            permits: Default::default(),
            mheld: [false; MAXR],
            rheld: [0; MAXR],
            tx: arr((0..r.chans.len()).map(|c| r.chan_tx[c].contains(&b))),
            rx: arr((0..r.chans.len()).map(|c| r.chan_rx[c] == b)),
            ostx: arr(r.oneshots.iter().map(|(t, _)| *t == b)),
            osrx: arr(r.oneshots.iter().map(|(_, x)| *x == b)),
            os_taken: [false; MAXR],
            wtx: arr(r.watches.iter().enumerate().map(|(w, (t, _))| *t == b || r.watch_tx_clones.get(w).map(|v| v.contains(&b)).unwrap_or(false))),
            wrx: arr(r.watches.iter().map(|(_, rs)| if rs.contains(&b) { Some(0) } else { None })),
            nslots: [None; NSLOTS],
            handles: vec![],
            tmp: 0,
        })
        .collect();
    MState {
        tasks,
        sems: r.sems.iter().map(|n| MSem::new(*n)).collect(),
        mutexes: (0..r.mutexes).map(|_| MMutex { sem: MSem::new(1), val: 0 }).collect(),
        rws: (0..r.rwlocks.len()).map(|i| MRw { sem: MSem::new(p.rw_max(i)), max: p.rw_max(i), val: 0 }).collect(),
        chans: (0..r.chans.len())
            .map(|c| {
                let senders = {
                    let mut v = r.chan_tx[c].clone();
                    v.sort();
                    v.dedup();
                    v.len()
                };
                let mut ch = MChan { bound: r.chans[c], cap: MSem::new(r.chans[c].unwrap_or(usize::MAX >> 4)), buf: VecDeque::new(), published: 0, senders, recv_closed: false };
                if senders == 0 {
                    // the only sender was dropped before any task ran
                    ch.cap.close();
                    ch.recv_closed = true;
                }
                ch
            })
            .collect(),
        ones: r.oneshots.iter().map(|_| MOne { val: None, tx: 0, rx_alive: true, rx_closed: false }).collect(),
        watches: r
            .watches
            .iter()
            .enumerate()
            .map(|(w, (t, rs))| {
                let mut v = rs.clone();
                v.sort();
                v.dedup();
                let mut txs: Vec<usize> = r.watch_tx_clones.get(w).cloned().unwrap_or_default();
                txs.push(*t);
                txs.sort();
                txs.dedup();
                MWatch { val: 0, ver: 0, tx_count: txs.len(), rx_count: v.len() }
            })
            .collect(),
        notifies: vec![MNotify::default(); r.notifies],
        triggered: vec![false; nb],
    }
}

#[derive(Clone, Debug, PartialEq, Eq)]
pub enum Res {
    Exact(String),
    Any,
}

impl Res {
    pub fn matches(&self, observed: &str) -> bool {
        match self {
            Res::Exact(s) => s == observed,
            Res::Any => true,
        }
    }
}

pub enum Out {
    /// continue with the given micro-operation
    Cont(MState, u8),
    Done(MState, Res),
}

pub fn ex(s: impl Into<String>) -> Res {
    Res::Exact(s.into())
}

pub fn join_result(s: &MState, b: usize) -> Res {
    if s.tasks[b].thread || s.tasks[b].outcome == 1 {
        ex(format!("ok:{}", ret_val(b)))
    } else {
        ex("cancelled")
    }
}

/// receive method name of a receive operation executed by task t
pub fn recv_method(s: &MState, t: usize, op: &Op) -> &'static str {
    match op {
        Op::TryRecv(_) => "try_recv",
        _ => {
            if s.tasks[t].thread {
                "blocking_recv"
            } else {
                "recv"
            }
        }
    }
}

#[derive(Clone, Copy, Debug)]
pub enum SemSel {
    Sem(usize),
    Mutex(usize),
    Rw(usize),
    Cap(usize),
}

pub fn sem_of(m: &mut MState, sel: SemSel) -> &mut MSem {
    match sel {
        SemSel::Sem(i) => &mut m.sems[i],
        SemSel::Mutex(i) => &mut m.mutexes[i].sem,
        SemSel::Rw(i) => &mut m.rws[i].sem,
        SemSel::Cap(i) => &mut m.chans[i].cap,
    }
}
