//! C20 family 1 — parking_lot replacement (`lock_api` RwLock / Mutex over Shuttle's raw locks).
//!
//! A seeded program (2-4 threads, 1-5 operations each) over one or two
//! `shuttle_parking_lot_impl::RwLock<u64>` and at most one `Mutex<u64>` runs under `SimSched`.
//! The interpreter logs Start / End events with results, and maintains model-independent holder
//! monitors around every acquisition / release (logged as "M" events). `analyze` then replays the
//! event log against the lock_api state model `(shared multiset, upgradable, writer, value)`.
//!
//! What the model asserts (and nothing more):
//! * an acquisition (blocking or try) completes only when its lock_api guard holds;
//! * a try-variant may fail although its guard holds only if another task is in the middle of an
//!   operation on the same lock (lock_api allows "could not be granted at this time"; the raw locks
//!   are strictly fair, so a queued waiter makes tries fail) — a try that fails on a lock nobody
//!   holds, nobody waits for and nobody is operating on means an earlier operation left something
//!   behind;
//! * between `upgrade` being called and its completion no exclusive acquisition completes;
//! * unlocks, downgrades and try-variants never block: the task stays offered from Start to End;
//! * the value seen under any guard is the model's current value (writers store unique values);
//! * a deadlock verdict needs, on every lock somebody is blocked on, a blocked operation whose
//!   guard is false (fair queueing may keep others behind it); otherwise it is a lost wake-up.

use super::common::{random_policy, Finding};
use crate::sim::{log, quiet_config, run_recorded, Decision, Ending, ExecTrace, FollowSched, Rng, RunTrace, SimCfg, SimSched};
use serde::{Deserialize, Serialize};
use shuttle::thread;
use shuttle_parking_lot_impl::{Mutex, MutexGuard, RwLock, RwLockReadGuard, RwLockUpgradableReadGuard, RwLockWriteGuard};
use std::collections::BTreeMap;
use std::sync::Arc;
use std::sync::Mutex as StdMutex;

#[derive(Clone, Debug, PartialEq, Eq, Serialize, Deserialize, Hash, PartialOrd, Ord)]
pub enum PlOp {
    Read(usize),
    TryRead(usize),
    Write(usize),
    TryWrite(usize),
    UpRead(usize),
    TryUpRead(usize),
    Upgrade(usize),
    TryUpgrade(usize),
    /// write -> read
    Downgrade(usize),
    /// upgradable -> read
    DowngradeUp(usize),
    /// write -> upgradable
    DowngradeToUp(usize),
    /// drop the most recently acquired guard on this rwlock
    Unlock(usize),
    UnlockFair(usize),
    IsLocked(usize),
    IsLockedExcl(usize),
    MLock(usize),
    MTryLock(usize),
    MUnlock(usize),
    MUnlockFair(usize),
    MIsLocked(usize),
    Yield,
    /// never generated: the main thread joins body b after its own operations
    Join(usize),
}

#[derive(Clone, Debug, PartialEq, Eq, Serialize, Deserialize, Hash)]
pub struct PlProg {
    pub rwlocks: usize,
    pub mutexes: usize,
    /// bodies[0] is the main thread; it spawns all other bodies first, runs its own operations,
    /// releases what it still holds and joins the others in order
    pub bodies: Vec<Vec<PlOp>>,
}

#[derive(Clone, Debug, PartialEq, Serialize, Deserialize)]
pub enum PlSched {
    Sim(SimCfg),
    /// explicit schedule: task ids; afterwards first offered
    Follow(u64, Vec<u32>),
}

#[derive(Clone, Debug, Serialize, Deserialize)]
pub struct PlCase {
    pub prog: PlProg,
    pub sched: PlSched,
}

pub fn unique_val(body: usize, idx: usize) -> u64 {
    (body as u64 + 1) * 1000 + idx as u64 + 1
}

// ---------------------------------------------------------------------------------------------
// Interpreter
// ---------------------------------------------------------------------------------------------

#[derive(Default, Clone, Debug)]
struct LockMon {
    shared: i32,
    upg: i32,
    excl: i32,
    /// number of tasks inside `upgrade`
    upgrading: i32,
    /// number of tasks inside the (two-phase) unlock of an upgradable guard
    up_releasing: i32,
}

struct PlCtx {
    prog: Arc<PlProg>,
    rw: Vec<RwLock<u64>>,
    mx: Vec<Mutex<u64>>,
    mon: StdMutex<Vec<LockMon>>,
    mxmon: StdMutex<Vec<i32>>,
}

enum Held<'a> {
    R(RwLockReadGuard<'a, u64>),
    W(RwLockWriteGuard<'a, u64>),
    U(RwLockUpgradableReadGuard<'a, u64>),
}

impl Held<'_> {
    fn kind(&self) -> K {
        match self {
            Held::R(_) => K::R,
            Held::W(_) => K::W,
            Held::U(_) => K::U,
        }
    }
    fn value(&self) -> u64 {
        match self {
            Held::R(g) => **g,
            Held::W(g) => **g,
            Held::U(g) => **g,
        }
    }
}

struct Local<'a> {
    rw: Vec<Vec<Held<'a>>>,
    mx: Vec<Option<MutexGuard<'a, u64>>>,
    body: usize,
}

#[derive(Clone, Copy, Debug, PartialEq, Eq)]
pub enum K {
    R,
    W,
    U,
}

/// Update the model-independent holder monitor of rwlock `k` and check its invariants.
fn mon(ctx: &PlCtx, k: usize, f: impl FnOnce(&mut LockMon), check: bool) {
    let mut m = ctx.mon.lock().unwrap();
    f(&mut m[k]);
    if !check {
        return;
    }
    let s = m[k].clone();
    drop(m);
    let mut bad: Option<&str> = None;
    if s.excl > 1 {
        bad = Some("two-exclusive-holders");
    } else if s.excl == 1 && s.shared > 0 {
        bad = Some("exclusive-with-shared");
    } else if s.excl == 1 && s.upg > 0 && s.up_releasing == 0 {
        bad = Some(if s.upgrading > 0 { "writer-between-upgradable-and-upgrade" } else { "exclusive-with-upgradable" });
    } else if s.upg > 1 {
        bad = Some("two-upgradable-holders");
    } else if s.excl < 0 || s.shared < 0 || s.upg < 0 {
        bad = Some("negative-holders");
    }
    if let Some(b) = bad {
        log("M", b, format!("rwlock {}: {:?}", k, s));
    }
}

fn mxmon(ctx: &PlCtx, k: usize, d: i32) {
    let mut m = ctx.mxmon.lock().unwrap();
    m[k] += d;
    let n = m[k];
    drop(m);
    if n > 1 || n < 0 {
        log("M", "mutex-two-holders", format!("mutex {}: {} holders", k, n));
    }
}

/// The (purely thread-local) precondition under which an operation is skipped; identical in the
/// interpreter and in the model.
fn skipped(held: &[Vec<K>], mheld: &[bool], op: &PlOp) -> bool {
    let top = |k: usize| held[k].last().copied();
    match op {
        PlOp::Read(k) | PlOp::Write(k) | PlOp::UpRead(k) => !held[*k].is_empty(),
        PlOp::TryRead(k) | PlOp::TryWrite(k) | PlOp::TryUpRead(k) => held[*k].len() >= 2,
        PlOp::Upgrade(k) | PlOp::TryUpgrade(k) | PlOp::DowngradeUp(k) => top(*k) != Some(K::U),
        PlOp::Downgrade(k) | PlOp::DowngradeToUp(k) => top(*k) != Some(K::W),
        PlOp::Unlock(k) | PlOp::UnlockFair(k) => held[*k].is_empty(),
        PlOp::IsLocked(_) | PlOp::IsLockedExcl(_) | PlOp::MIsLocked(_) | PlOp::MTryLock(_) | PlOp::Yield | PlOp::Join(_) => false,
        PlOp::MLock(k) => mheld[*k],
        PlOp::MUnlock(k) | PlOp::MUnlockFair(k) => !mheld[*k],
    }
}

fn exec<'a>(ctx: &'a PlCtx, l: &mut Local<'a>, label: &str, idx: usize, op: &PlOp) {
    log("S", label, "");
    let held: Vec<Vec<K>> = l.rw.iter().map(|v| v.iter().map(|h| h.kind()).collect()).collect();
    let mheld: Vec<bool> = l.mx.iter().map(|m| m.is_some()).collect();
    if skipped(&held, &mheld, op) {
        log("E", label, "skip");
        return;
    }
    let uv = unique_val(l.body, idx);
    let res: String = match op {
        PlOp::Read(k) => {
            let g = ctx.rw[*k].read();
            mon(ctx, *k, |m| m.shared += 1, true);
            let v = *g;
            l.rw[*k].push(Held::R(g));
            format!("ok:{}", v)
        }
        PlOp::TryRead(k) => match ctx.rw[*k].try_read() {
            Some(g) => {
                mon(ctx, *k, |m| m.shared += 1, true);
                let v = *g;
                l.rw[*k].push(Held::R(g));
                format!("ok:{}", v)
            }
            None => "fail".into(),
        },
        PlOp::Write(k) => {
            let mut g = ctx.rw[*k].write();
            mon(ctx, *k, |m| m.excl += 1, true);
            let v = *g;
            *g = uv;
            l.rw[*k].push(Held::W(g));
            format!("ok:{}", v)
        }
        PlOp::TryWrite(k) => match ctx.rw[*k].try_write() {
            Some(mut g) => {
                mon(ctx, *k, |m| m.excl += 1, true);
                let v = *g;
                *g = uv;
                l.rw[*k].push(Held::W(g));
                format!("ok:{}", v)
            }
            None => "fail".into(),
        },
        PlOp::UpRead(k) => {
            let g = ctx.rw[*k].upgradable_read();
            mon(ctx, *k, |m| m.upg += 1, true);
            let v = *g;
            l.rw[*k].push(Held::U(g));
            format!("ok:{}", v)
        }
        PlOp::TryUpRead(k) => match ctx.rw[*k].try_upgradable_read() {
            Some(g) => {
                mon(ctx, *k, |m| m.upg += 1, true);
                let v = *g;
                l.rw[*k].push(Held::U(g));
                format!("ok:{}", v)
            }
            None => "fail".into(),
        },
        PlOp::Upgrade(k) => {
            let g = match l.rw[*k].pop() {
                Some(Held::U(g)) => g,
                _ => unreachable!(),
            };
            mon(ctx, *k, |m| m.upgrading += 1, false);
            let mut w = RwLockUpgradableReadGuard::upgrade(g);
            mon(
                ctx,
                *k,
                |m| {
                    m.upgrading -= 1;
                    m.upg -= 1;
                    m.excl += 1
                },
                true,
            );
            let v = *w;
            *w = uv;
            l.rw[*k].push(Held::W(w));
            format!("ok:{}", v)
        }
        PlOp::TryUpgrade(k) => {
            let g = match l.rw[*k].pop() {
                Some(Held::U(g)) => g,
                _ => unreachable!(),
            };
            match RwLockUpgradableReadGuard::try_upgrade(g) {
                Ok(mut w) => {
                    mon(
                        ctx,
                        *k,
                        |m| {
                            m.upg -= 1;
                            m.excl += 1
                        },
                        true,
                    );
                    let v = *w;
                    *w = uv;
                    l.rw[*k].push(Held::W(w));
                    format!("ok:{}", v)
                }
                Err(g) => {
                    l.rw[*k].push(Held::U(g));
                    "fail".into()
                }
            }
        }
        PlOp::Downgrade(k) => {
            let w = match l.rw[*k].pop() {
                Some(Held::W(w)) => w,
                _ => unreachable!(),
            };
            let r = RwLockWriteGuard::downgrade(w);
            mon(
                ctx,
                *k,
                |m| {
                    m.excl -= 1;
                    m.shared += 1
                },
                true,
            );
            let v = *r;
            l.rw[*k].push(Held::R(r));
            format!("ok:{}", v)
        }
        PlOp::DowngradeToUp(k) => {
            let w = match l.rw[*k].pop() {
                Some(Held::W(w)) => w,
                _ => unreachable!(),
            };
            let u = RwLockWriteGuard::downgrade_to_upgradable(w);
            mon(
                ctx,
                *k,
                |m| {
                    m.excl -= 1;
                    m.upg += 1
                },
                true,
            );
            let v = *u;
            l.rw[*k].push(Held::U(u));
            format!("ok:{}", v)
        }
        PlOp::DowngradeUp(k) => {
            let u = match l.rw[*k].pop() {
                Some(Held::U(u)) => u,
                _ => unreachable!(),
            };
            let r = RwLockUpgradableReadGuard::downgrade(u);
            mon(
                ctx,
                *k,
                |m| {
                    m.upg -= 1;
                    m.shared += 1
                },
                true,
            );
            let v = *r;
            l.rw[*k].push(Held::R(r));
            format!("ok:{}", v)
        }
        PlOp::Unlock(k) | PlOp::UnlockFair(k) => {
            let fair = matches!(op, PlOp::UnlockFair(_));
            let h = l.rw[*k].pop().unwrap();
            let v = h.value();
            match h {
                Held::R(g) => {
                    if fair {
                        RwLockReadGuard::unlock_fair(g)
                    } else {
                        drop(g)
                    }
                    mon(ctx, *k, |m| m.shared -= 1, true);
                }
                Held::W(g) => {
                    if fair {
                        RwLockWriteGuard::unlock_fair(g)
                    } else {
                        drop(g)
                    }
                    mon(ctx, *k, |m| m.excl -= 1, true);
                }
                Held::U(g) => {
                    // two releases with a scheduling point in between: shared permit first, then the slot
                    mon(ctx, *k, |m| m.up_releasing += 1, false);
                    if fair {
                        RwLockUpgradableReadGuard::unlock_fair(g)
                    } else {
                        drop(g)
                    }
                    mon(
                        ctx,
                        *k,
                        |m| {
                            m.up_releasing -= 1;
                            m.upg -= 1
                        },
                        true,
                    );
                }
            }
            format!("ok:{}", v)
        }
        PlOp::IsLocked(k) => format!("{}", ctx.rw[*k].is_locked()),
        PlOp::IsLockedExcl(k) => format!("{}", ctx.rw[*k].is_locked_exclusive()),
        PlOp::MLock(k) => {
            let mut g = ctx.mx[*k].lock();
            mxmon(ctx, *k, 1);
            let v = *g;
            *g = uv;
            l.mx[*k] = Some(g);
            format!("ok:{}", v)
        }
        PlOp::MTryLock(k) => match ctx.mx[*k].try_lock() {
            Some(mut g) => {
                mxmon(ctx, *k, 1);
                let v = *g;
                *g = uv;
                // a successful try_lock while we already hold the mutex is reported by the monitor
                // and the model; keep the newer guard (the old one is dropped -> unlock)
                l.mx[*k] = Some(g);
                format!("ok:{}", v)
            }
            None => "fail".into(),
        },
        PlOp::MUnlock(k) | PlOp::MUnlockFair(k) => {
            let g = l.mx[*k].take().unwrap();
            let v = *g;
            if matches!(op, PlOp::MUnlockFair(_)) {
                MutexGuard::unlock_fair(g)
            } else {
                drop(g)
            }
            mxmon(ctx, *k, -1);
            format!("ok:{}", v)
        }
        PlOp::MIsLocked(k) => format!("{}", ctx.mx[*k].is_locked()),
        PlOp::Yield => {
            thread::yield_now();
            "ok".into()
        }
        PlOp::Join(_) => unreachable!(),
    };
    log("E", label, res);
}

fn run_body(ctx: &PlCtx, body: usize) {
    let prog = ctx.prog.clone();
    let mut l = Local { rw: (0..prog.rwlocks).map(|_| vec![]).collect(), mx: (0..prog.mutexes).map(|_| None).collect(), body };
    log("B", body.to_string(), "");
    for (i, op) in prog.bodies[body].iter().enumerate() {
        exec(ctx, &mut l, &i.to_string(), i, op);
    }
    // what is still held is released visibly, as implicit unlock operations
    for k in 0..prog.rwlocks {
        while !l.rw[k].is_empty() {
            exec(ctx, &mut l, &format!("x{}", k), 900 + k, &PlOp::Unlock(k));
        }
    }
    for k in 0..prog.mutexes {
        if l.mx[k].is_some() {
            exec(ctx, &mut l, &format!("xm{}", k), 950 + k, &PlOp::MUnlock(k));
        }
    }
}

/// The Shuttle body.
pub fn run_prog(prog: &Arc<PlProg>) {
    let ctx = Arc::new(PlCtx {
        prog: prog.clone(),
        rw: (0..prog.rwlocks).map(|_| RwLock::new(0)).collect(),
        mx: (0..prog.mutexes).map(|_| Mutex::new(0)).collect(),
        mon: StdMutex::new(vec![LockMon::default(); prog.rwlocks]),
        mxmon: StdMutex::new(vec![0; prog.mutexes]),
    });
    let mut handles = vec![];
    for b in 1..prog.bodies.len() {
        let c = ctx.clone();
        handles.push(thread::spawn(move || {
            run_body(&c, b);
            log("X", b.to_string(), "");
        }));
    }
    run_body(&ctx, 0);
    for (i, h) in handles.into_iter().enumerate() {
        let label = format!("j{}", i + 1);
        log("S", label.clone(), "");
        let r = h.join();
        log("E", label, if r.is_ok() { "ok" } else { "panicked" });
    }
    log("X", "0", "");
}

pub fn run_case(case: &PlCase) -> (Ending, RunTrace) {
    let prog = Arc::new(case.prog.clone());
    match &case.sched {
        PlSched::Sim(cfg) => run_recorded(SimSched::new(cfg.clone()), quiet_config(), move || run_prog(&prog)),
        PlSched::Follow(seed, script) => run_recorded(FollowSched::new(*seed, script.clone(), true), quiet_config(), move || run_prog(&prog)),
    }
}

// ---------------------------------------------------------------------------------------------
// Model
// ---------------------------------------------------------------------------------------------

#[derive(Clone, Debug, Default)]
struct RwM {
    shared: BTreeMap<usize, u32>,
    up: Option<usize>,
    up_releasing: bool,
    writer: Option<usize>,
    value: u64,
}

impl RwM {
    fn g_read(&self) -> bool {
        self.writer.is_none()
    }
    fn g_write(&self) -> bool {
        self.writer.is_none() && self.shared.is_empty() && (self.up.is_none() || self.up_releasing)
    }
    fn g_upread(&self) -> bool {
        self.writer.is_none() && self.up.is_none()
    }
    fn g_upgrade(&self) -> bool {
        self.shared.is_empty()
    }
    fn free(&self) -> bool {
        self.writer.is_none() && self.shared.is_empty() && self.up.is_none()
    }
    fn add_shared(&mut self, b: usize) {
        *self.shared.entry(b).or_insert(0) += 1;
    }
    fn del_shared(&mut self, b: usize) {
        if let Some(c) = self.shared.get_mut(&b) {
            *c -= 1;
            if *c == 0 {
                self.shared.remove(&b);
            }
        }
    }
}

#[derive(Clone, Debug, Default)]
struct MxM {
    holder: Option<usize>,
    value: u64,
}

#[derive(Clone, Debug)]
struct Pend {
    op: PlOp,
    label: String,
    idx: usize,
    start: u32,
    /// try-variants: at some moment between Start and now the guard was false or another task was
    /// operating on the lock (the two-phase tries decide before the step that logs End)
    excuse: bool,
    /// unlocks: the model's value when the operation started (the interpreter reads it then)
    val_at_start: u64,
}

#[derive(Clone, Debug, Default)]
struct BodyM {
    held: Vec<Vec<K>>,
    mheld: Vec<bool>,
    pending: Option<Pend>,
    started: bool,
    finished: bool,
    next: usize,
}

#[derive(Clone, Copy, Debug, PartialEq, Eq, PartialOrd, Ord)]
enum LockId {
    Rw(usize),
    Mx(usize),
}

fn lock_of(op: &PlOp) -> Option<LockId> {
    Some(match op {
        PlOp::Read(k)
        | PlOp::TryRead(k)
        | PlOp::Write(k)
        | PlOp::TryWrite(k)
        | PlOp::UpRead(k)
        | PlOp::TryUpRead(k)
        | PlOp::Upgrade(k)
        | PlOp::TryUpgrade(k)
        | PlOp::Downgrade(k)
        | PlOp::DowngradeUp(k)
        | PlOp::DowngradeToUp(k)
        | PlOp::Unlock(k)
        | PlOp::UnlockFair(k)
        | PlOp::IsLocked(k)
        | PlOp::IsLockedExcl(k) => LockId::Rw(*k),
        PlOp::MLock(k) | PlOp::MTryLock(k) | PlOp::MUnlock(k) | PlOp::MUnlockFair(k) | PlOp::MIsLocked(k) => LockId::Mx(*k),
        PlOp::Yield | PlOp::Join(_) => return None,
    })
}

fn is_blocking(op: &PlOp) -> bool {
    matches!(op, PlOp::Read(_) | PlOp::Write(_) | PlOp::UpRead(_) | PlOp::Upgrade(_) | PlOp::MLock(_) | PlOp::Join(_))
}

fn is_try_like(op: &PlOp) -> bool {
    matches!(op, PlOp::TryRead(_) | PlOp::TryWrite(_) | PlOp::TryUpRead(_) | PlOp::TryUpgrade(_) | PlOp::IsLocked(_) | PlOp::IsLockedExcl(_) | PlOp::MTryLock(_) | PlOp::MIsLocked(_))
}

fn nonblocking_class(op: &PlOp) -> &'static str {
    match op {
        PlOp::Downgrade(_) | PlOp::DowngradeUp(_) | PlOp::DowngradeToUp(_) => "downgrade-blocked",
        PlOp::Unlock(_) | PlOp::UnlockFair(_) | PlOp::MUnlock(_) | PlOp::MUnlockFair(_) => "unlock-blocked",
        PlOp::Yield => "yield-blocked",
        _ => "try-blocked",
    }
}

#[derive(Default, Debug, Clone)]
pub struct PlStats {
    pub probes: BTreeMap<String, u64>,
}

impl PlStats {
    fn hit(&mut self, k: &str) {
        *self.probes.entry(k.to_string()).or_insert(0) += 1;
    }
}

struct Model<'p> {
    prog: &'p PlProg,
    rw: Vec<RwM>,
    mx: Vec<MxM>,
    bodies: Vec<BodyM>,
    task_body: BTreeMap<u32, usize>,
    stats: PlStats,
}

fn fnd(key: &str, detail: String) -> Finding {
    Finding { key: format!("C20:pl:{}", key), detail }
}

impl<'p> Model<'p> {
    fn others_pending(&self, lock: LockId, me: usize) -> bool {
        self.bodies.iter().enumerate().any(|(b, bm)| b != me && bm.pending.as_ref().map(|p| lock_of(&p.op) == Some(lock)).unwrap_or(false))
    }

    fn pending_upgrade(&self, k: usize, me: usize) -> Option<usize> {
        self.bodies
            .iter()
            .enumerate()
            .find(|(b, bm)| *b != me && matches!(bm.pending.as_ref().map(|p| &p.op), Some(PlOp::Upgrade(x)) if *x == k))
            .map(|(b, _)| b)
    }

    /// the guard a try-like operation needs in order to succeed
    fn try_guard(&self, b: usize, op: &PlOp) -> bool {
        match op {
            PlOp::IsLocked(k) => self.rw[*k].g_write(),
            PlOp::IsLockedExcl(k) => self.rw[*k].g_read(),
            PlOp::MIsLocked(k) => self.mx[*k].holder.is_none(),
            _ => self.guard_of(b, op),
        }
    }

    fn update_excuses(&mut self) {
        for b in 0..self.bodies.len() {
            let ex = match &self.bodies[b].pending {
                // only try_upgradable_read decides in two steps (slot, then shared permit, roll-back);
                // every other try-variant decides in the step that logs its End
                Some(p) if matches!(p.op, PlOp::TryUpRead(_)) && !p.excuse => {
                    let l = lock_of(&p.op).unwrap();
                    !self.try_guard(b, &p.op) || self.others_pending(l, b)
                }
                _ => false,
            };
            if ex {
                self.bodies[b].pending.as_mut().unwrap().excuse = true;
            }
        }
    }

    fn guard_of(&self, b: usize, op: &PlOp) -> bool {
        match op {
            PlOp::Read(k) | PlOp::TryRead(k) => self.rw[*k].g_read(),
            PlOp::Write(k) | PlOp::TryWrite(k) => self.rw[*k].g_write(),
            PlOp::UpRead(k) | PlOp::TryUpRead(k) => self.rw[*k].g_upread(),
            PlOp::Upgrade(k) | PlOp::TryUpgrade(k) => self.rw[*k].g_upgrade(),
            PlOp::MLock(k) | PlOp::MTryLock(k) => self.mx[*k].holder.is_none(),
            PlOp::Join(t) => self.bodies[*t].finished,
            _ => {
                let _ = b;
                true
            }
        }
    }

    fn parse_ok(res: &str) -> Option<u64> {
        res.strip_prefix("ok:").and_then(|v| v.parse().ok())
    }

    /// Apply the completion of `p` by body `b` with result `res`.
    fn complete(&mut self, b: usize, p: &Pend, res: &str, step: u32) -> Result<(), Finding> {
        let op = &p.op;
        let skip = skipped(&self.bodies[b].held, &self.bodies[b].mheld, op);
        if skip != (res == "skip") {
            return Err(fnd("harness-skip-mismatch", format!("step {}: body {} op {:?}: result {:?}, model skip={}", step, b, op, res, skip)));
        }
        if skip {
            self.stats.hit("op_skipped");
            return Ok(());
        }
        let uv = unique_val(b, p.idx);
        let ctx = |m: &Model| format!("step {}: body {} op {} {:?} -> {:?}; model rw={:?} mx={:?}", step, b, p.label, op, res, m.rw, m.mx);
        let guard = self.guard_of(b, op);
        match op {
            PlOp::Read(k) | PlOp::TryRead(k) | PlOp::Write(k) | PlOp::TryWrite(k) | PlOp::UpRead(k) | PlOp::TryUpRead(k) | PlOp::Upgrade(k) | PlOp::TryUpgrade(k) => {
                let k = *k;
                let is_try = !is_blocking(op);
                if res == "fail" {
                    if !is_try {
                        return Err(fnd("harness-bad-result", ctx(self)));
                    }
                    if guard {
                        if p.excuse || self.others_pending(LockId::Rw(k), b) {
                            self.stats.hit("try_failed_with_waiters");
                        } else {
                            return Err(fnd("try-failed-while-available", format!("a try-variant failed although its lock_api guard holds and no other task is operating on the lock (something was left behind): {}", ctx(self))));
                        }
                    } else {
                        self.stats.hit("try_failed_excluded");
                    }
                    return Ok(());
                }
                let seen = match Self::parse_ok(res) {
                    Some(v) => v,
                    None => return Err(fnd("harness-bad-result", ctx(self))),
                };
                let exclusive = matches!(op, PlOp::Write(_) | PlOp::TryWrite(_));
                if exclusive {
                    if let Some(u) = self.pending_upgrade(k, b) {
                        return Err(fnd(
                            "writer-between-upgradable-and-upgrade",
                            format!("an exclusive acquisition completed while body {} is inside upgrade() (called at step {}): {}", u, self.bodies[u].pending.as_ref().unwrap().start, ctx(self)),
                        ));
                    }
                }
                if !guard {
                    let cls = match op {
                        PlOp::Read(_) | PlOp::TryRead(_) => "shared-acquired-while-excluded",
                        PlOp::Write(_) | PlOp::TryWrite(_) => "exclusive-acquired-while-excluded",
                        PlOp::UpRead(_) | PlOp::TryUpRead(_) => "upgradable-acquired-while-excluded",
                        _ => "upgrade-completed-with-shared-holders",
                    };
                    return Err(fnd(cls, ctx(self)));
                }
                if seen != self.rw[k].value {
                    return Err(fnd("stale-value", format!("value seen {} but the model's current value is {}: {}", seen, self.rw[k].value, ctx(self))));
                }
                if is_try {
                    self.stats.hit("try_succeeded");
                }
                match op {
                    PlOp::Read(_) | PlOp::TryRead(_) => {
                        if !self.rw[k].shared.is_empty() || self.rw[k].up.is_some() {
                            self.stats.hit("shared_with_other_readers");
                        }
                        self.rw[k].add_shared(b);
                        self.bodies[b].held[k].push(K::R);
                    }
                    PlOp::Write(_) | PlOp::TryWrite(_) => {
                        self.rw[k].writer = Some(b);
                        self.rw[k].value = uv;
                        self.bodies[b].held[k].push(K::W);
                    }
                    PlOp::UpRead(_) | PlOp::TryUpRead(_) => {
                        if !self.rw[k].shared.is_empty() {
                            self.stats.hit("upgradable_with_readers");
                        }
                        self.rw[k].up = Some(b);
                        self.bodies[b].held[k].push(K::U);
                    }
                    _ => {
                        // upgrade / try_upgrade
                        if matches!(op, PlOp::Upgrade(_)) {
                            self.stats.hit("upgrade_completed");

                        } else {
                            self.stats.hit("try_upgrade_succeeded");
                        }
                        self.rw[k].up = None;
                        self.rw[k].writer = Some(b);
                        self.rw[k].value = uv;
                        self.bodies[b].held[k].pop();
                        self.bodies[b].held[k].push(K::W);
                    }
                }
                Ok(())
            }
            PlOp::Downgrade(k) | PlOp::DowngradeUp(k) | PlOp::DowngradeToUp(k) => {
                let k = *k;
                let seen = match Self::parse_ok(res) {
                    Some(v) => v,
                    None => return Err(fnd("harness-bad-result", ctx(self))),
                };
                if seen != self.rw[k].value {
                    return Err(fnd("stale-value", format!("value seen after downgrade {} but model value {}: {}", seen, self.rw[k].value, ctx(self))));
                }
                self.bodies[b].held[k].pop();
                match op {
                    PlOp::Downgrade(_) => {
                        self.rw[k].writer = None;
                        self.rw[k].add_shared(b);
                        self.bodies[b].held[k].push(K::R);
                        self.stats.hit("downgrade_write_to_read");
                    }
                    PlOp::DowngradeUp(_) => {
                        self.rw[k].up = None;
                        self.rw[k].add_shared(b);
                        self.bodies[b].held[k].push(K::R);
                        self.stats.hit("downgrade_upgradable_to_read");
                    }
                    _ => {
                        self.rw[k].writer = None;
                        self.rw[k].up = Some(b);
                        self.bodies[b].held[k].push(K::U);
                        self.stats.hit("downgrade_write_to_upgradable");
                    }
                }
                Ok(())
            }
            PlOp::Unlock(k) | PlOp::UnlockFair(k) => {
                let k = *k;
                let seen = match Self::parse_ok(res) {
                    Some(v) => v,
                    None => return Err(fnd("harness-bad-result", ctx(self))),
                };
                if seen != p.val_at_start {
                    return Err(fnd("stale-value", format!("value seen at unlock {} but model value {}: {}", seen, p.val_at_start, ctx(self))));
                }
                match self.bodies[b].held[k].pop() {
                    Some(K::R) => self.rw[k].del_shared(b),
                    Some(K::W) => self.rw[k].writer = None,
                    Some(K::U) => {
                        self.rw[k].up = None;
                        self.rw[k].up_releasing = false;
                    }
                    None => {}
                }
                if matches!(op, PlOp::UnlockFair(_)) {
                    self.stats.hit("unlock_fair");
                }
                Ok(())
            }
            PlOp::IsLocked(k) | PlOp::IsLockedExcl(k) => {
                // is_locked = !try_lock_exclusive (released again); is_locked_exclusive = !try_lock_shared
                let k = *k;
                let would = if matches!(op, PlOp::IsLocked(_)) { self.rw[k].g_write() } else { self.rw[k].g_read() };
                match res {
                    "false" => {
                        if !would {
                            return Err(fnd("is-locked-false-while-held", ctx(self)));
                        }
                    }
                    "true" => {
                        if would && !p.excuse && !self.others_pending(LockId::Rw(k), b) {
                            return Err(fnd("try-failed-while-available", format!("is_locked reported a free lock as locked: {}", ctx(self))));
                        }
                    }
                    _ => return Err(fnd("harness-bad-result", ctx(self))),
                }
                self.stats.hit("is_locked_observed");
                Ok(())
            }
            PlOp::MLock(k) | PlOp::MTryLock(k) => {
                let k = *k;
                if res == "fail" {
                    if guard && !p.excuse && !self.others_pending(LockId::Mx(k), b) {
                        return Err(fnd("try-failed-while-available", ctx(self)));
                    }
                    self.stats.hit("mutex_try_failed");
                    return Ok(());
                }
                let seen = match Self::parse_ok(res) {
                    Some(v) => v,
                    None => return Err(fnd("harness-bad-result", ctx(self))),
                };
                if !guard {
                    return Err(fnd("mutex-acquired-while-held", ctx(self)));
                }
                if seen != self.mx[k].value {
                    return Err(fnd("stale-value", ctx(self)));
                }
                self.mx[k].holder = Some(b);
                self.mx[k].value = uv;
                self.bodies[b].mheld[k] = true;
                self.stats.hit("mutex_acquired");
                Ok(())
            }
            PlOp::MUnlock(k) | PlOp::MUnlockFair(k) => {
                let k = *k;
                let seen = Self::parse_ok(res);
                if seen != Some(p.val_at_start) {
                    return Err(fnd("stale-value", ctx(self)));
                }
                self.mx[k].holder = None;
                self.bodies[b].mheld[k] = false;
                Ok(())
            }
            PlOp::MIsLocked(k) => {
                let k = *k;
                let free = self.mx[k].holder.is_none();
                match res {
                    "false" if !free => Err(fnd("is-locked-false-while-held", ctx(self))),
                    "true" if free && !p.excuse && !self.others_pending(LockId::Mx(k), b) => Err(fnd("try-failed-while-available", ctx(self))),
                    "true" | "false" => Ok(()),
                    _ => Err(fnd("harness-bad-result", ctx(self))),
                }
            }
            PlOp::Yield => Ok(()),
            PlOp::Join(t) => {
                if !self.bodies[*t].finished {
                    return Err(fnd("join-before-finish", ctx(self)));
                }
                Ok(())
            }
        }
    }
}

fn label_to_op(prog: &PlProg, body: usize, label: &str) -> Option<(PlOp, usize)> {
    if let Some(r) = label.strip_prefix("xm") {
        let k: usize = r.parse().ok()?;
        return Some((PlOp::MUnlock(k), 950 + k));
    }
    if let Some(r) = label.strip_prefix('x') {
        let k: usize = r.parse().ok()?;
        return Some((PlOp::Unlock(k), 900 + k));
    }
    if let Some(r) = label.strip_prefix('j') {
        let t: usize = r.parse().ok()?;
        return Some((PlOp::Join(t), 0));
    }
    let i: usize = label.parse().ok()?;
    prog.bodies.get(body)?.get(i).map(|o| (o.clone(), i))
}

/// Replay the event log of one execution against the model. Returns all findings (the first
/// model mismatch, every interpreter-monitor event, blocking findings, the verdict finding).
pub fn analyze(prog: &PlProg, ex: &ExecTrace, ending: Option<&str>) -> (Vec<Finding>, PlStats) {
    let mut out: Vec<Finding> = vec![];
    let nb = prog.bodies.len();
    let mut m = Model {
        prog,
        rw: vec![RwM::default(); prog.rwlocks],
        mx: vec![MxM::default(); prog.mutexes],
        bodies: (0..nb).map(|_| BodyM { held: vec![vec![]; prog.rwlocks], mheld: vec![false; prog.mutexes], ..Default::default() }).collect(),
        task_body: BTreeMap::new(),
        stats: PlStats::default(),
    };
    let decisions: Vec<&Decision> = ex.decisions().collect();
    let offered_between = |task: u32, from: u32, to: u32| -> Option<u32> {
        // decisions with index from..to were taken while the operation was in progress
        for k in from..to {
            if let Some(d) = decisions.get(k as usize) {
                if d.chosen.is_some() && !d.offered.contains(&task) {
                    return Some(k);
                }
            }
        }
        None
    };
    let mut model_broken = false;
    for ev in &ex.events {
        match ev.kind.as_str() {
            "M" => {
                out.push(fnd(&format!("monitor:{}", ev.op), format!("step {} task {}: {}", ev.step, ev.task, ev.val)));
                continue;
            }
            "B" => {
                if let Ok(b) = ev.op.parse::<usize>() {
                    m.task_body.insert(ev.task, b);
                    if b < nb {
                        m.bodies[b].started = true;
                    }
                }
                continue;
            }
            _ => {}
        }
        if model_broken {
            continue;
        }
        let b = match m.task_body.get(&ev.task) {
            Some(b) if *b < nb => *b,
            _ => {
                out.push(fnd("harness-unknown-task", format!("{:?}", ev)));
                model_broken = true;
                continue;
            }
        };
        match ev.kind.as_str() {
            "X" => m.bodies[b].finished = true,
            "S" => {
                let (op, idx) = match label_to_op(prog, b, &ev.op) {
                    Some(x) => x,
                    None => {
                        out.push(fnd("harness-bad-label", format!("{:?}", ev)));
                        model_broken = true;
                        continue;
                    }
                };
                if m.bodies[b].pending.is_some() {
                    out.push(fnd("harness-nested-start", format!("{:?}", ev)));
                    model_broken = true;
                    continue;
                }
                let sk = skipped(&m.bodies[b].held, &m.bodies[b].mheld, &op);
                let mut val_at_start = 0;
                if !sk {
                    if let PlOp::Unlock(k) | PlOp::UnlockFair(k) = &op {
                        val_at_start = m.rw[*k].value;
                        if m.bodies[b].held[*k].last() == Some(&K::U) {
                            m.rw[*k].up_releasing = true;
                        }
                    }
                    if let PlOp::MUnlock(k) | PlOp::MUnlockFair(k) = &op {
                        val_at_start = m.mx[*k].value;
                    }
                }
                m.bodies[b].pending = Some(Pend { op, label: ev.op.clone(), idx, start: ev.step, excuse: false, val_at_start });
                m.update_excuses();
            }
            "E" => {
                let p = match m.bodies[b].pending.take() {
                    Some(p) if p.label == ev.op => p,
                    other => {
                        out.push(fnd("harness-end-without-start", format!("{:?} pending {:?}", ev, other)));
                        model_broken = true;
                        continue;
                    }
                };
                if is_blocking(&p.op) && !matches!(p.op, PlOp::Join(_)) && offered_between(ev.task, p.start, ev.step).is_some() {
                    m.stats.hit(if matches!(p.op, PlOp::Upgrade(_)) { "upgrade_waited" } else { "blocking_op_waited" });
                }
                if !is_blocking(&p.op) {
                    if let Some(k) = offered_between(ev.task, p.start, ev.step) {
                        out.push(fnd(
                            nonblocking_class(&p.op),
                            format!("body {} op {} {:?} started in step {} and ended in step {}, but the task was not offered at decision {} (it was blocked inside an operation that must not wait)", b, p.label, p.op, p.start, ev.step, k),
                        ));
                    }
                }
                if let Err(f) = m.complete(b, &p, &ev.val, ev.step) {
                    out.push(f);
                    model_broken = true;
                }
                m.update_excuses();
            }
            _ => {}
        }
    }
    // non-blocking operations still in progress at the end of the execution
    let last = decisions.len() as u32;
    let task_of = |b: usize| m.task_body.iter().find(|(_, x)| **x == b).map(|(t, _)| *t);
    let deadlocked = ending.map(|e| e.starts_with("deadlock!")).unwrap_or(false);
    for (b, bm) in m.bodies.iter().enumerate() {
        if model_broken {
            break;
        }
        if let Some(p) = &bm.pending {
            if !is_blocking(&p.op) {
                if let Some(t) = task_of(b) {
                    let at = offered_between(t, p.start, last);
                    if at.is_some() || deadlocked {
                        out.push(fnd(
                            nonblocking_class(&p.op),
                            format!("body {} op {} {:?} started in step {} and never completed: the task was blocked inside an operation that must not wait (first not offered at decision {:?}); ending {:?}", b, p.label, p.op, p.start, at, ending),
                        ));
                    }
                }
            }
        }
    }
    // verdict
    match ending {
        None => {
            if !model_broken {
                for (b, bm) in m.bodies.iter().enumerate() {
                    if bm.pending.is_some() || (bm.started && !bm.finished) {
                        out.push(fnd("harness-unfinished-body", format!("body {} did not finish although the execution ended normally: {:?}", b, bm.pending)));
                    }
                }
            }
        }
        Some(msg) if msg.starts_with("deadlock!") => {
            m.stats.hit("deadlock_verdicts");
            if !model_broken {
                // every lock somebody is blocked on needs a blocked operation with a false guard
                let mut by_lock: BTreeMap<LockId, Vec<(usize, PlOp, bool)>> = BTreeMap::new();
                for (b, bm) in m.bodies.iter().enumerate() {
                    match &bm.pending {
                        Some(p) => {
                            let g = m.guard_of(b, &p.op);
                            if let PlOp::Join(_) = p.op {
                                if g {
                                    out.push(fnd("deadlock-not-explained", format!("deadlock reported while body {} waits in join for a finished thread", b)));
                                }
                            } else if let Some(l) = lock_of(&p.op) {
                                by_lock.entry(l).or_default().push((b, p.op.clone(), g));
                            }
                        }
                        None => {
                            if bm.started && !bm.finished {
                                out.push(fnd("deadlock-not-explained", format!("deadlock reported but body {} is not inside any operation", b)));
                            }
                        }
                    }
                }
                let mut explained_any = false;
                for (l, v) in &by_lock {
                    let nonblocking_only = v.iter().all(|(_, op, _)| !is_blocking(op));
                    if v.iter().all(|(_, _, g)| *g) && !nonblocking_only {
                        out.push(fnd(
                            "deadlock-not-explained",
                            format!("deadlock reported, but every operation blocked on {:?} has a true lock_api guard (lost wake-up / leaked permit): {:?}; model rw={:?} mx={:?}; runtime said: {}", l, v, m.rw, m.mx, msg),
                        ));
                    } else {
                        explained_any = true;
                    }
                }
                if explained_any {
                    m.stats.hit("deadlock_explained_by_model");
                }
            }
        }
        Some(msg) => {
            let cls: String = msg.chars().take(40).map(|c| if c.is_ascii_alphanumeric() { c } else { '-' }).collect();
            out.push(fnd(&format!("unexpected-panic:{}", cls), msg.to_string()));
        }
    }
    let _ = m.prog;
    (out, m.stats)
}

// ---------------------------------------------------------------------------------------------
// Generator
// ---------------------------------------------------------------------------------------------

#[derive(Clone, Debug)]
pub struct PlGen {
    pub rwlocks: usize,
    pub mutexes: usize,
    pub threads: usize,
    pub max_ops: usize,
    /// apply the narrow generator exclusions for the known findings F11 / F12
    pub avoid_f11: bool,
    pub avoid_f12: bool,
    pub tries: bool,
    pub upgradable: bool,
    pub fair: bool,
    pub observers: bool,
}

impl PlGen {
    pub fn swarm(rng: &mut Rng) -> Self {
        PlGen {
            rwlocks: if rng.chance(1, 3) { 2 } else { 1 },
            mutexes: if rng.chance(1, 3) { 1 } else { 0 },
            threads: rng.range(2, 4),
            max_ops: rng.range(2, 5),
            avoid_f11: true,
            avoid_f12: true,
            tries: rng.chance(3, 4),
            upgradable: rng.chance(4, 5),
            fair: rng.chance(1, 2),
            observers: rng.chance(1, 3),
        }
    }
}

fn gen_body(rng: &mut Rng, g: &PlGen) -> Vec<PlOp> {
    let n = rng.range(1, g.max_ops);
    let mut held: Vec<Vec<K>> = vec![vec![]; g.rwlocks];
    let mut mheld = vec![false; g.mutexes];
    let mut ops = vec![];
    while ops.len() < n {
        // pick a target: mutex or rwlock
        if g.mutexes > 0 && rng.chance(1, 4) {
            let k = rng.below(g.mutexes);
            let op = if mheld[k] {
                match rng.below(6) {
                    0 if g.tries => PlOp::MTryLock(k),
                    1 if g.fair => PlOp::MUnlockFair(k),
                    2 if g.observers => PlOp::MIsLocked(k),
                    _ => PlOp::MUnlock(k),
                }
            } else {
                match rng.below(6) {
                    0 | 1 if g.tries => PlOp::MTryLock(k),
                    2 if g.observers => PlOp::MIsLocked(k),
                    _ => PlOp::MLock(k),
                }
            };
            match &op {
                PlOp::MLock(_) => mheld[k] = true,
                PlOp::MTryLock(_) if !mheld[k] => mheld[k] = true,
                PlOp::MUnlock(_) | PlOp::MUnlockFair(_) => mheld[k] = false,
                _ => {}
            }
            ops.push(op);
            continue;
        }
        let k = rng.below(g.rwlocks);
        if rng.chance(1, 16) {
            ops.push(PlOp::Yield);
            continue;
        }
        // mostly well-formed with respect to the guard we (probably) hold; sometimes arbitrary
        let wild = rng.chance(1, 10);
        let top = held[k].last().copied();
        let op = if wild {
            match rng.below(13) {
                0 => PlOp::Read(k),
                1 => PlOp::TryRead(k),
                2 => PlOp::Write(k),
                3 => PlOp::TryWrite(k),
                4 => PlOp::UpRead(k),
                5 => PlOp::TryUpRead(k),
                6 => PlOp::Upgrade(k),
                7 => PlOp::TryUpgrade(k),
                8 => PlOp::Downgrade(k),
                9 => PlOp::DowngradeUp(k),
                10 => PlOp::DowngradeToUp(k),
                11 => PlOp::IsLocked(k),
                _ => PlOp::Unlock(k),
            }
        } else {
            match top {
                None => match rng.below(10) {
                    0 | 1 => PlOp::Read(k),
                    2 if g.tries => PlOp::TryRead(k),
                    3 | 4 => PlOp::Write(k),
                    5 if g.tries => PlOp::TryWrite(k),
                    6 | 7 if g.upgradable => PlOp::UpRead(k),
                    8 if g.upgradable && g.tries => PlOp::TryUpRead(k),
                    9 if g.observers => {
                        if rng.chance(1, 2) {
                            PlOp::IsLocked(k)
                        } else {
                            PlOp::IsLockedExcl(k)
                        }
                    }
                    _ => {
                        if rng.chance(1, 2) {
                            PlOp::Read(k)
                        } else {
                            PlOp::Write(k)
                        }
                    }
                },
                Some(K::R) => match rng.below(8) {
                    0 if g.fair => PlOp::UnlockFair(k),
                    1 if g.tries && held[k].len() < 2 => PlOp::TryRead(k),
                    2 if g.tries && held[k].len() < 2 => PlOp::TryWrite(k),
                    3 if g.tries && g.upgradable && held[k].len() < 2 => PlOp::TryUpRead(k),
                    4 if g.observers => PlOp::IsLockedExcl(k),
                    _ => PlOp::Unlock(k),
                },
                Some(K::W) => match rng.below(8) {
                    0 | 1 => PlOp::Downgrade(k),
                    2 | 3 if g.upgradable => PlOp::DowngradeToUp(k),
                    4 if g.fair => PlOp::UnlockFair(k),
                    5 if g.tries && held[k].len() < 2 => PlOp::TryRead(k),
                    _ => PlOp::Unlock(k),
                },
                Some(K::U) => match rng.below(10) {
                    0 | 1 | 2 => PlOp::Upgrade(k),
                    3 | 4 if g.tries => PlOp::TryUpgrade(k),
                    5 | 6 => PlOp::DowngradeUp(k),
                    7 if g.fair => PlOp::UnlockFair(k),
                    _ => PlOp::Unlock(k),
                },
            }
        };
        // track the guard we would hold if every try succeeded
        let sk = skipped(&held, &mheld, &op);
        if !sk {
            match &op {
                PlOp::Read(_) | PlOp::TryRead(_) => held[k].push(K::R),
                PlOp::Write(_) | PlOp::TryWrite(_) => held[k].push(K::W),
                PlOp::UpRead(_) | PlOp::TryUpRead(_) => held[k].push(K::U),
                PlOp::Upgrade(_) | PlOp::TryUpgrade(_) => {
                    held[k].pop();
                    held[k].push(K::W)
                }
                PlOp::Downgrade(_) | PlOp::DowngradeUp(_) => {
                    held[k].pop();
                    held[k].push(K::R)
                }
                PlOp::DowngradeToUp(_) => {
                    held[k].pop();
                    held[k].push(K::U)
                }
                PlOp::Unlock(_) | PlOp::UnlockFair(_) => {
                    held[k].pop();
                }
                _ => {}
            }
        }
        ops.push(op);
    }
    ops
}

/// F11 trigger: `upgrade` (blocking) on lock k in one thread and a blocking `write` on k in another
/// (the writer may already be queued when upgrade gives its read permit back).
pub fn f11_possible(p: &PlProg) -> bool {
    for k in 0..p.rwlocks {
        for (a, ba) in p.bodies.iter().enumerate() {
            if ba.iter().any(|o| *o == PlOp::Upgrade(k)) {
                for (b, bb) in p.bodies.iter().enumerate() {
                    if a != b && bb.iter().any(|o| *o == PlOp::Write(k)) {
                        return true;
                    }
                }
            }
        }
    }
    false
}

/// F12 trigger: `downgrade_to_upgradable` on lock k in one thread while another thread may own or
/// wait for k's upgradable slot at that moment: upgradable_read / try_upgradable_read in another
/// thread (the slot is taken before the shared permit), or another thread's own
/// downgrade_to_upgradable (its later unlock gives the shared permit back one step before the slot).
pub fn f12_possible(p: &PlProg) -> bool {
    for k in 0..p.rwlocks {
        for (a, ba) in p.bodies.iter().enumerate() {
            if ba.iter().any(|o| *o == PlOp::DowngradeToUp(k)) {
                for (b, bb) in p.bodies.iter().enumerate() {
                    if a != b && bb.iter().any(|o| *o == PlOp::UpRead(k) || *o == PlOp::TryUpRead(k) || *o == PlOp::DowngradeToUp(k)) {
                        return true;
                    }
                }
            }
        }
    }
    false
}

pub fn gen_prog(rng: &mut Rng, g: &PlGen) -> PlProg {
    let mut p = PlProg { rwlocks: g.rwlocks, mutexes: g.mutexes, bodies: (0..g.threads).map(|_| gen_body(rng, g)).collect() };
    // narrow exclusions for the known findings: rewrite only the operations that form the trigger
    let mut guard = 0;
    while g.avoid_f11 && f11_possible(&p) && guard < 50 {
        guard += 1;
        let upgrade_side = rng.chance(1, 2);
        for k in 0..p.rwlocks {
            let ups: Vec<usize> = (0..p.bodies.len()).filter(|a| p.bodies[*a].contains(&PlOp::Upgrade(k))).collect();
            for a in ups {
                let writers: Vec<usize> = (0..p.bodies.len()).filter(|b| *b != a && p.bodies[*b].contains(&PlOp::Write(k))).collect();
                if writers.is_empty() {
                    continue;
                }
                if upgrade_side {
                    for o in p.bodies[a].iter_mut() {
                        if *o == PlOp::Upgrade(k) {
                            *o = PlOp::TryUpgrade(k);
                        }
                    }
                } else {
                    for b in writers {
                        for o in p.bodies[b].iter_mut() {
                            if *o == PlOp::Write(k) {
                                *o = PlOp::TryWrite(k);
                            }
                        }
                    }
                }
            }
        }
    }
    guard = 0;
    while g.avoid_f12 && f12_possible(&p) && guard < 50 {
        guard += 1;
        let down_side = rng.chance(1, 2);
        for k in 0..p.rwlocks {
            let downs: Vec<usize> = (0..p.bodies.len()).filter(|a| p.bodies[*a].contains(&PlOp::DowngradeToUp(k))).collect();
            for a in downs {
                let ups: Vec<usize> = (0..p.bodies.len())
                    .filter(|b| *b != a && (p.bodies[*b].contains(&PlOp::UpRead(k)) || p.bodies[*b].contains(&PlOp::TryUpRead(k)) || p.bodies[*b].contains(&PlOp::DowngradeToUp(k))))
                    .collect();
                if ups.is_empty() {
                    continue;
                }
                if down_side {
                    for o in p.bodies[a].iter_mut() {
                        if *o == PlOp::DowngradeToUp(k) {
                            *o = PlOp::Downgrade(k);
                        }
                    }
                } else {
                    for b in ups {
                        for o in p.bodies[b].iter_mut() {
                            if *o == PlOp::UpRead(k) {
                                *o = PlOp::Read(k);
                            } else if *o == PlOp::TryUpRead(k) {
                                *o = PlOp::TryRead(k);
                            } else if *o == PlOp::DowngradeToUp(k) {
                                *o = PlOp::Downgrade(k);
                            }
                        }
                    }
                }
            }
        }
    }
    p
}

pub fn gen_case(rng: &mut Rng, g: &PlGen) -> PlCase {
    let prog = gen_prog(rng, g);
    let mut sim = SimCfg::new(rng.next_u64());
    sim.policy = random_policy(rng);
    sim.execs = 1;
    PlCase { prog, sched: PlSched::Sim(sim) }
}

// ---------------------------------------------------------------------------------------------
// Processing / shrinking
// ---------------------------------------------------------------------------------------------

pub struct PlRun {
    pub ending: Ending,
    pub rt: RunTrace,
    pub findings: Vec<Finding>,
    pub stats: Vec<PlStats>,
}

pub fn process_case(case: &PlCase) -> PlRun {
    let (ending, rt) = run_case(case);
    let mut findings = vec![];
    let mut stats = vec![];
    for c in crate::sim::contract_findings(&rt) {
        findings.push(fnd("contract", c));
    }
    let n = rt.execs.len();
    for (i, ex) in rt.execs.iter().enumerate() {
        let e = match &ending {
            Ending::Panicked(m) if i + 1 == n => Some(m.as_str()),
            _ => None,
        };
        let (f, s) = analyze(&case.prog, ex, e);
        findings.extend(f);
        stats.push(s);
    }
    PlRun { ending, rt, findings, stats }
}

fn shrink_candidates(p: &PlProg) -> Vec<PlProg> {
    let mut v = vec![];
    // drop a whole (non-main) body
    for b in 1..p.bodies.len() {
        if p.bodies.len() > 2 {
            let mut q = p.clone();
            q.bodies.remove(b);
            v.push(q);
        }
    }
    // drop a single op
    for b in 0..p.bodies.len() {
        for i in 0..p.bodies[b].len() {
            let mut q = p.clone();
            q.bodies[b].remove(i);
            v.push(q);
        }
    }
    // drop the second lock / the mutex if unused
    v
}

/// Greedy shrink that keeps finding `key`; every candidate program is tried under the original
/// scheduler configuration and a handful of derived seeds.
pub fn shrink(case: &PlCase, key: &str, budget: usize) -> PlCase {
    let mut best = case.clone();
    let base = match &case.sched {
        PlSched::Sim(c) => c.clone(),
        PlSched::Follow(s, _) => SimCfg::new(*s),
    };
    let mut tries = 0;
    loop {
        let mut improved = false;
        'cands: for cand in shrink_candidates(&best.prog) {
            for s in 0..12u64 {
                if tries >= budget {
                    return finalize(best, key);
                }
                tries += 1;
                let mut cfg = base.clone();
                if s > 0 {
                    cfg.seed = crate::sim::derive(base.seed, "plshrink", s);
                    cfg.policy = crate::sim::Policy::Uniform;
                }
                let c = PlCase { prog: cand.clone(), sched: PlSched::Sim(cfg) };
                let r = process_case(&c);
                if r.findings.iter().any(|f| f.key == key) {
                    best = c;
                    improved = true;
                    break 'cands;
                }
            }
        }
        if !improved {
            break;
        }
    }
    finalize(best, key)
}

/// Turn a Sim case into an explicit task-id schedule when that reproduces the same finding.
fn finalize(case: PlCase, key: &str) -> PlCase {
    let r = process_case(&case);
    if let Some(ex) = r.rt.execs.first() {
        let seed = match &case.sched {
            PlSched::Sim(c) => c.seed,
            PlSched::Follow(s, _) => *s,
        };
        let c2 = PlCase { prog: case.prog.clone(), sched: PlSched::Follow(seed, ex.chosen_seq()) };
        let r2 = process_case(&c2);
        if r2.findings.iter().any(|f| f.key == key) {
            return c2;
        }
    }
    case
}

pub fn describe(case: &PlCase, r: &PlRun) -> String {
    let mut s = String::new();
    s.push_str(&format!("program: rwlocks={} mutexes={}", case.prog.rwlocks, case.prog.mutexes));
    for (b, ops) in case.prog.bodies.iter().enumerate() {
        s.push_str(&format!(" | T{}: {:?}", b, ops));
    }
    if let Some(ex) = r.rt.execs.first() {
        s.push_str(&format!(" | schedule (task ids): {:?}", ex.chosen_seq()));
    }
    s.push_str(&format!(" | ending: {:?}", r.ending));
    s
}

pub fn dump(case: &PlCase) {
    let r = process_case(case);
    println!("{}", describe(case, &r));
    for (i, ex) in r.rt.execs.iter().enumerate() {
        println!("--- exec {}", i);
        let ds: Vec<_> = ex.decisions().collect();
        for (k, d) in ds.iter().enumerate() {
            println!("decision {}: offered {:?} -> {:?}", k, d.offered, d.chosen);
            for e in ex.events.iter().filter(|e| e.step as usize == k + 1) {
                println!("      t{} {} {} = {}", e.task, e.kind, e.op, e.val);
            }
        }
    }
    for f in &r.findings {
        println!("finding: {} :: {}", f.key, f.detail);
    }
}
