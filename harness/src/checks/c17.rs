//! C17 — async executor: no lost wake-up, each task result delivered exactly once.
//!
//! Own small async DSL (futures spawned with shuttle::future::spawn, hand-written waker futures,
//! abort / detach / select / nested block_on) run on the real executor under SimSched. Oracles:
//! log monitors for result delivery and abort semantics (Appendix A.9 of DESIGN.md) and an
//! end-of-execution verdict check: whatever the runtime reports as stuck must really be stuck.
use super::common::random_policy;
use crate::coord::{Batch, Check, RunOut, Tier};
use crate::model::parse_deadlock_tasks;
use crate::sim::{contract_findings, hash_debug, log, quiet_config, run_recorded, Ending, ExecTrace, Rng, SimCfg, SimSched};
use serde::{Deserialize, Serialize};
use serde_json::{json, Value};
use shuttle::future::JoinHandle;
use shuttle::sync::atomic::{AtomicBool, Ordering};
use std::collections::{BTreeMap, BTreeSet};
use std::future::Future;
use std::pin::Pin;
use std::sync::{Arc, Mutex as StdMutex};
use std::task::{Context, Poll, Waker};

#[derive(Clone, Debug, Serialize, Deserialize, PartialEq)]
pub enum AOp {
    Spawn(usize),
    Await(usize),
    Abort(usize),
    /// abort through an AbortHandle obtained before the JoinHandle was dropped
    AbortViaHandle(usize),
    DropHandle(usize),
    IsFinished(usize),
    /// wait until flag f is set: hand-written future registering its waker (before / after the check)
    FlagWait(usize, bool),
    FlagSet(usize),
    /// like FlagWait, but the first poll, after registering its waker, blocks on a std-style
    /// channel until some FlagSet sends its hand-shake message (a wake can arrive while the task is
    /// Blocked inside its poll), then returns Pending
    FlagWaitBlocking(usize),
    /// race two flag waits, drop the loser
    Select2(usize, usize),
    /// wait for flag a with a future whose every poll registers its waker for a, then runs a
    /// nested block_on that waits for flag b (and really sleeps if b is not set yet), then returns
    /// Pending: a wake for a can arrive while the task is asleep inside the nested executor loop
    FlagWaitNested(usize, usize),
    YieldNow,
    /// wake own waker during poll and return Pending once
    SelfWake,
    /// return Pending without registering any waker
    PendingForever,
    /// block_on inside an async task (nested executor loop on the same task)
    NestedBlockOn(Vec<AOp>),
    /// spawn an OS-style thread that block_on's the given body; joined at the end of the op list
    ThreadBlockOn(usize),
    /// poll the JoinHandle in the slot once with a throw-away waker (like `now_or_never` on a
    /// `&mut` handle); a later Await polls it under the task's real waker
    PollHandleOnce(usize),
    /// initialise a task-local whose destructor has a scheduling point (k = 1), touches another
    /// task-local (k = 0) or does nothing (k = 2); destructors run when the task finishes
    TlsTouch(usize),
}

#[derive(Clone, Debug, Serialize, Deserialize)]
pub struct AProg {
    pub flags: usize,
    pub bodies: Vec<Vec<AOp>>,
}

#[derive(Clone, Debug, Serialize, Deserialize)]
struct Case {
    prog: AProg,
    sim: SimCfg,
}

struct Flag {
    set: AtomicBool,
    wakers: StdMutex<Vec<Waker>>,
    tx: shuttle::sync::mpsc::Sender<()>,
    rx: StdMutex<Option<shuttle::sync::mpsc::Receiver<()>>>,
}

struct FlagWaitBlocking {
    ctx: Arc<Ctx>,
    f: usize,
    rx: Option<shuttle::sync::mpsc::Receiver<()>>,
}

impl Future for FlagWaitBlocking {
    type Output = ();
    fn poll(mut self: Pin<&mut Self>, cx: &mut Context<'_>) -> Poll<()> {
        let ctx = self.ctx.clone();
        let fl = &ctx.flags[self.f];
        if fl.set.load(Ordering::SeqCst) {
            return Poll::Ready(());
        }
        fl.wakers.lock().unwrap().push(cx.waker().clone());
        if let Some(rx) = self.rx.take() {
            log("BR", self.f.to_string(), "");
            let _ = rx.recv();
            log("BU", self.f.to_string(), "");
        }
        Poll::Pending
    }
}

struct Ctx {
    prog: AProg,
    flags: Vec<Flag>,
}

struct FlagWait {
    ctx: Arc<Ctx>,
    f: usize,
    register_first: bool,
}

impl Future for FlagWait {
    type Output = ();
    fn poll(self: Pin<&mut Self>, cx: &mut Context<'_>) -> Poll<()> {
        let fl = &self.ctx.flags[self.f];
        if self.register_first {
            fl.wakers.lock().unwrap().push(cx.waker().clone());
            if fl.set.load(Ordering::SeqCst) {
                Poll::Ready(())
            } else {
                Poll::Pending
            }
        } else if fl.set.load(Ordering::SeqCst) {
            Poll::Ready(())
        } else {
            fl.wakers.lock().unwrap().push(cx.waker().clone());
            // the flag may have been set while the load was waiting at its scheduling point? No:
            // the load's scheduling point is BEFORE the read, and nothing runs between the read and
            // the registration, so this is race free on a sequentially consistent runtime.
            Poll::Pending
        }
    }
}

struct FlagWaitNested {
    ctx: Arc<Ctx>,
    a: usize,
    b: usize,
}
impl Future for FlagWaitNested {
    type Output = ();
    fn poll(self: Pin<&mut Self>, cx: &mut Context<'_>) -> Poll<()> {
        let fl = &self.ctx.flags[self.a];
        if fl.set.load(Ordering::SeqCst) {
            return Poll::Ready(());
        }
        fl.wakers.lock().unwrap().push(cx.waker().clone());
        log("NS", self.a.to_string(), self.b.to_string());
        shuttle::future::block_on(FlagWait { ctx: self.ctx.clone(), f: self.b, register_first: true });
        log("NE", self.a.to_string(), self.b.to_string());
        Poll::Pending
    }
}

struct SelfWake(bool);
impl Future for SelfWake {
    type Output = ();
    fn poll(mut self: Pin<&mut Self>, cx: &mut Context<'_>) -> Poll<()> {
        if self.0 {
            return Poll::Ready(());
        }
        self.0 = true;
        cx.waker().wake_by_ref();
        Poll::Pending
    }
}

struct PendingForever(String);
impl Future for PendingForever {
    type Output = ();
    fn poll(self: Pin<&mut Self>, _cx: &mut Context<'_>) -> Poll<()> {
        log("PF", self.0.clone(), "");
        Poll::Pending
    }
}

/// wraps a task's future: logs poll starts / ends and the drop of the future
struct Traced {
    body: usize,
    fut: Pin<Box<dyn Future<Output = usize> + Send>>,
    done: bool,
}
impl Future for Traced {
    type Output = usize;
    fn poll(self: Pin<&mut Self>, cx: &mut Context<'_>) -> Poll<usize> {
        let this = self.get_mut();
        log("PS", this.body.to_string(), "");
        let r = this.fut.as_mut().poll(cx);
        match &r {
            Poll::Ready(_) => {
                this.done = true;
                log("FR", this.body.to_string(), "");
            }
            Poll::Pending => log("PE", this.body.to_string(), ""),
        }
        r
    }
}
impl Drop for Traced {
    fn drop(&mut self) {
        log("FD", self.body.to_string(), if self.done { "done" } else { "unfinished" });
    }
}

enum Slot {
    Handle(JoinHandle<usize>),
    Dropped(Option<shuttle::future::AbortHandle>),
    Consumed,
}

fn run_body(ctx: Arc<Ctx>, body: usize) -> Pin<Box<dyn Future<Output = usize> + Send>> {
    Box::pin(async move {
        let ops = ctx.prog.bodies[body].clone();
        run_ops(ctx, body, ops, String::new()).await;
        body
    })
}

fn run_ops(ctx: Arc<Ctx>, body: usize, ops: Vec<AOp>, prefix: String) -> Pin<Box<dyn Future<Output = ()> + Send>> {
    Box::pin(async move {
        let mut slots: Vec<Slot> = vec![];
        let mut threads: Vec<shuttle::thread::JoinHandle<()>> = vec![];
        for (i, op) in ops.iter().enumerate() {
            let label = format!("{}{}", prefix, i);
            log("S", label.clone(), format!("{:?}", op));
            let res: String = match op {
                AOp::Spawn(b) => {
                    let c2 = ctx.clone();
                    let b = *b;
                    let h = shuttle::future::spawn(Traced { body: b, fut: run_body(c2, b), done: false });
                    slots.push(Slot::Handle(h));
                    b.to_string()
                }
                AOp::Await(s) => match slots.get_mut(*s) {
                    Some(slot @ Slot::Handle(_)) => {
                        let h = match std::mem::replace(slot, Slot::Consumed) {
                            Slot::Handle(h) => h,
                            _ => unreachable!(),
                        };
                        match h.await {
                            Ok(v) => format!("ok:{}", v),
                            Err(_) => "cancelled".into(),
                        }
                    }
                    _ => "skip".into(),
                },
                AOp::Abort(s) => match slots.get(*s) {
                    Some(Slot::Handle(h)) => {
                        h.abort();
                        "ok".into()
                    }
                    _ => "skip".into(),
                },
                AOp::AbortViaHandle(s) => match slots.get(*s) {
                    Some(Slot::Dropped(Some(a))) => {
                        a.abort();
                        "ok".into()
                    }
                    Some(Slot::Handle(h)) => {
                        h.abort_handle().abort();
                        "ok".into()
                    }
                    _ => "skip".into(),
                },
                AOp::DropHandle(s) => match slots.get_mut(*s) {
                    Some(slot @ Slot::Handle(_)) => {
                        let h = match std::mem::replace(slot, Slot::Consumed) {
                            Slot::Handle(h) => h,
                            _ => unreachable!(),
                        };
                        let a = h.abort_handle();
                        drop(h);
                        *slot = Slot::Dropped(Some(a));
                        "ok".into()
                    }
                    _ => "skip".into(),
                },
                AOp::IsFinished(s) => match slots.get(*s) {
                    Some(Slot::Handle(h)) => h.is_finished().to_string(),
                    _ => "skip".into(),
                },
                AOp::FlagWait(f, rf) => {
                    FlagWait { ctx: ctx.clone(), f: *f, register_first: *rf }.await;
                    "".into()
                }
                AOp::FlagSet(f) => {
                    ctx.flags[*f].set.store(true, Ordering::SeqCst);
                    let ws: Vec<Waker> = std::mem::take(&mut *ctx.flags[*f].wakers.lock().unwrap());
                    let n = ws.len();
                    for w in ws {
                        w.wake();
                    }
                    let _ = ctx.flags[*f].tx.send(());
                    n.to_string()
                }
                AOp::FlagWaitBlocking(f) => {
                    let rx = ctx.flags[*f].rx.lock().unwrap().take();
                    FlagWaitBlocking { ctx: ctx.clone(), f: *f, rx }.await;
                    "".into()
                }
                AOp::Select2(f, g) => {
                    let a = FlagWait { ctx: ctx.clone(), f: *f, register_first: true };
                    let b = FlagWait { ctx: ctx.clone(), f: *g, register_first: true };
                    match futures::future::select(Box::pin(a), Box::pin(b)).await {
                        futures::future::Either::Left(_) => "first".into(),
                        futures::future::Either::Right(_) => "second".into(),
                    }
                }
                AOp::FlagWaitNested(a, b) => {
                    FlagWaitNested { ctx: ctx.clone(), a: *a, b: *b }.await;
                    "".into()
                }
                AOp::YieldNow => {
                    shuttle::future::yield_now().await;
                    "".into()
                }
                AOp::SelfWake => {
                    SelfWake(false).await;
                    "".into()
                }
                AOp::PendingForever => {
                    PendingForever(label.clone()).await;
                    "".into()
                }
                AOp::NestedBlockOn(inner) => {
                    let c2 = ctx.clone();
                    let inner = inner.clone();
                    let p = format!("{}.", label);
                    shuttle::future::block_on(run_ops(c2, body, inner, p));
                    "".into()
                }
                AOp::PollHandleOnce(s) => match slots.get_mut(*s) {
                    Some(slot @ Slot::Handle(_)) => {
                        let r = match slot {
                            Slot::Handle(h) => Pin::new(h).poll(&mut Context::from_waker(futures::task::noop_waker_ref())),
                            _ => unreachable!(),
                        };
                        match r {
                            Poll::Pending => "pending".into(),
                            Poll::Ready(r) => {
                                *slot = Slot::Consumed;
                                match r {
                                    Ok(v) => format!("ok:{}", v),
                                    Err(_) => "cancelled".into(),
                                }
                            }
                        }
                    }
                    _ => "skip".into(),
                },
                AOp::TlsTouch(k) => crate::prog::tls_touch(*k).to_string(),
                AOp::ThreadBlockOn(b) => {
                    let c2 = ctx.clone();
                    let b = *b;
                    threads.push(shuttle::thread::spawn(move || {
                        log("TB", b.to_string(), "");
                        let v = shuttle::future::block_on(Traced { body: b, fut: run_body(c2, b), done: false });
                        log("TE", b.to_string(), v.to_string());
                    }));
                    b.to_string()
                }
            };
            log("E", label, res);
        }
        for t in threads {
            let _ = t.join();
        }
        drop(slots);
    })
}

pub fn run_prog(p: &Arc<AProg>) {
    let ctx = Arc::new(Ctx {
        prog: (**p).clone(),
        flags: (0..p.flags)
            .map(|_| {
                let (tx, rx) = shuttle::sync::mpsc::channel::<()>();
                Flag { set: AtomicBool::new(false), wakers: StdMutex::new(vec![]), tx, rx: StdMutex::new(Some(rx)) }
            })
            .collect(),
    });
    let v = shuttle::future::block_on(Traced { body: 0, fut: run_body(ctx, 0), done: false });
    log("ME", "0", v.to_string());
}

fn gen_ops(rng: &mut Rng, flags: usize, children: &[usize], thread_children: &[usize], depth: usize) -> Vec<AOp> {
    let mut ops = vec![];
    let mut slot_of: Vec<usize> = vec![];
    for c in children {
        ops.push(AOp::Spawn(*c));
        slot_of.push(*c);
    }
    for c in thread_children {
        ops.push(AOp::ThreadBlockOn(*c));
    }
    let n = rng.range(1, 4);
    for _ in 0..n {
        let k = rng.below(16);
        let op = match k {
            0 | 1 if flags > 0 => AOp::FlagWait(rng.below(flags), rng.chance(1, 2)),
            2 if flags > 1 && rng.chance(1, 2) => {
                let a = rng.below(2);
                AOp::FlagWaitNested(a, 1 - a)
            }
            2 if flags > 0 => AOp::FlagWaitBlocking(rng.below(flags)),
            3 | 4 | 5 if flags > 0 => AOp::FlagSet(rng.below(flags)),
            6 if flags > 1 => AOp::Select2(0, 1),
            7 => {
                if rng.chance(1, 3) {
                    AOp::TlsTouch(rng.below(3))
                } else {
                    AOp::YieldNow
                }
            }
            8 => AOp::SelfWake,
            9 if depth == 0 && rng.chance(1, 3) => AOp::NestedBlockOn(vec![if flags > 0 && rng.chance(1, 2) { AOp::FlagWait(rng.below(flags), true) } else { AOp::YieldNow }]),
            10 if rng.chance(1, 4) => AOp::PendingForever,
            11 | 12 if !slot_of.is_empty() => AOp::Abort(rng.below(slot_of.len())),
            13 if !slot_of.is_empty() => {
                if rng.chance(1, 2) {
                    AOp::IsFinished(rng.below(slot_of.len()))
                } else {
                    AOp::PollHandleOnce(rng.below(slot_of.len()))
                }
            }
            14 if !slot_of.is_empty() => AOp::DropHandle(rng.below(slot_of.len())),
            15 if !slot_of.is_empty() => AOp::AbortViaHandle(rng.below(slot_of.len())),
            _ => AOp::YieldNow,
        };
        ops.push(op);
    }
    // await (most of) the children, in random order, possibly twice aborting first
    let mut order: Vec<usize> = (0..slot_of.len()).collect();
    rng.shuffle(&mut order);
    for s in order {
        if rng.chance(1, 6) {
            ops.push(AOp::Abort(s));
        }
        if rng.chance(5, 6) {
            ops.push(AOp::Await(s));
        }
    }
    // shuffle the non-spawn tail a little: move one op earlier
    ops
}

pub fn gen_prog(rng: &mut Rng) -> AProg {
    let nb = rng.range(2, 4);
    let flags = rng.range(0, 2);
    let mut parent = vec![0usize; nb];
    let mut as_thread = vec![false; nb];
    for b in 1..nb {
        parent[b] = rng.below(b);
        as_thread[b] = rng.chance(1, 6);
    }
    let mut bodies = vec![];
    for b in 0..nb {
        let children: Vec<usize> = (1..nb).filter(|c| parent[*c] == b && !as_thread[*c]).collect();
        let tchildren: Vec<usize> = (1..nb).filter(|c| parent[*c] == b && as_thread[*c]).collect();
        let mut ops = gen_ops(rng, flags, &children, &tchildren, 0);
        // interleave: sometimes move spawns later
        if !ops.is_empty() && rng.chance(1, 3) {
            let i = rng.below(ops.len());
            if !matches!(ops[i], AOp::Spawn(_) | AOp::ThreadBlockOn(_) | AOp::Await(_) | AOp::Abort(_) | AOp::DropHandle(_) | AOp::AbortViaHandle(_) | AOp::IsFinished(_) | AOp::PollHandleOnce(_)) {
                let o = ops.remove(i);
                ops.insert(0, o);
            }
        }
        bodies.push(ops);
    }
    AProg { flags, bodies }
}

fn check_exec(p: &AProg, ex: &ExecTrace, ending: &Ending, out: &mut RunOut, cj: &Value) {
    let nb = p.bodies.len();
    // body <-> task id from the first poll start of each body
    let mut tid_of: BTreeMap<usize, u32> = BTreeMap::new();
    for e in &ex.events {
        if e.kind == "PS" {
            if let Ok(b) = e.op.parse::<usize>() {
                tid_of.entry(b).or_insert(e.task);
            }
        }
    }
    let body_of: BTreeMap<u32, usize> = tid_of.iter().map(|(b, t)| (*t, *b)).collect();
    let pos = |kind: &str, b: usize| ex.events.iter().position(|e| e.kind == kind && e.op == b.to_string());
    let count = |kind: &str, b: usize| ex.events.iter().filter(|e| e.kind == kind && e.op == b.to_string()).count();
    let viols: std::cell::RefCell<Vec<(String, String)>> = std::cell::RefCell::new(vec![]);
    let v = |key: &str, detail: String| viols.borrow_mut().push((format!("C17:{}", key), detail));
    // which body spawned which, and as what
    let mut spawner: BTreeMap<usize, (usize, usize, bool)> = BTreeMap::new(); // child -> (parent, slot, as_thread)
    for (b, ops) in p.bodies.iter().enumerate() {
        let mut slot = 0;
        for o in ops {
            match o {
                AOp::Spawn(c) => {
                    spawner.insert(*c, (b, slot, false));
                    slot += 1;
                }
                AOp::ThreadBlockOn(c) => {
                    spawner.insert(*c, (b, usize::MAX, true));
                }
                _ => {}
            }
        }
    }
    // abort completions targeting each body, await results
    let mut abort_done_at: BTreeMap<usize, usize> = BTreeMap::new(); // child -> first event index of a completed abort
    let mut await_results: BTreeMap<usize, Vec<String>> = BTreeMap::new();
    let mut handle_dropped_at: BTreeMap<usize, usize> = BTreeMap::new();
    for (i, e) in ex.events.iter().enumerate() {
        if e.kind != "E" || e.op.contains('.') {
            continue;
        }
        let b = match body_of.get(&e.task) {
            Some(b) => *b,
            None => continue,
        };
        let idx: usize = match e.op.parse() {
            Ok(i) => i,
            Err(_) => continue,
        };
        let child_of_slot = |s: usize| -> Option<usize> {
            let mut k = 0;
            for o in &p.bodies[b] {
                if let AOp::Spawn(c) = o {
                    if k == s {
                        return Some(*c);
                    }
                    k += 1;
                }
            }
            None
        };
        match p.bodies[b].get(idx) {
            Some(AOp::Abort(s)) | Some(AOp::AbortViaHandle(s)) if e.val == "ok" => {
                if let Some(c) = child_of_slot(*s) {
                    abort_done_at.entry(c).or_insert(i);
                    out.count("abort_issued", 1);
                }
            }
            Some(AOp::PollHandleOnce(s)) if e.val == "pending" => {
                out.count("handle_polled_with_foreign_waker", 1);
            }
            Some(AOp::PollHandleOnce(s)) if e.val != "skip" => {
                if let Some(c) = child_of_slot(*s) {
                    await_results.entry(c).or_default().push(e.val.clone());
                }
            }
            Some(AOp::Await(s)) if e.val != "skip" => {
                if let Some(c) = child_of_slot(*s) {
                    await_results.entry(c).or_default().push(e.val.clone());
                }
            }
            Some(AOp::DropHandle(s)) if e.val == "ok" => {
                if let Some(c) = child_of_slot(*s) {
                    handle_dropped_at.insert(c, i);
                    out.count("handle_dropped", 1);
                }
            }
            _ => {}
        }
    }
    for c in 1..nb {
        let fr = pos("FR", c);
        let fd = ex.events.iter().position(|e| e.kind == "FD" && e.op == c.to_string() && e.val == "unfinished" && e.task != u32::MAX);
        // (1) result delivered exactly once and truthfully
        if let Some(rs) = await_results.get(&c) {
            if rs.len() > 1 {
                v("result-delivered-twice", format!("body {} was awaited {} times: {:?}", c, rs.len(), rs));
            }
            match rs[0].as_str() {
                "cancelled" => {
                    out.count("await_cancelled", 1);
                    if fr.is_some() {
                        v("cancelled-although-completed", format!("body {} completed its future but its JoinHandle reported Cancelled", c));
                    }
                    if !abort_done_at.contains_key(&c) && !ex.events.iter().any(|e| e.kind == "S" && e.val.contains("Abort")) {
                        v("cancelled-without-abort", format!("body {} reported Cancelled but nobody called abort", c));
                    }
                }
                r if r.starts_with("ok:") => {
                    out.count("await_ok", 1);
                    if r != format!("ok:{}", c) {
                        v("wrong-output", format!("body {} returned {} ", c, r));
                    }
                    if fr.is_none() {
                        v("output-without-completion", format!("body {} delivered an output although its future never completed", c));
                    }
                }
                _ => {}
            }
        }
        // (2) abort semantics: no poll of the task STARTS after an abort call completed, except that the
        // wrapper may already be inside a poll; once cancelled the future is dropped and logs nothing more
        if let Some(a) = abort_done_at.get(&c) {
            let late_poll = ex.events.iter().enumerate().find(|(i, e)| *i > *a && e.kind == "PS" && e.op == c.to_string());
            if let Some((i, _)) = late_poll {
                // legal only if the future had already completed before the abort (then no poll happens at all)
                v("polled-after-abort", format!("body {}: a poll started at event {} after abort() had returned at event {}", c, i, a));
            }
            if fr.map(|f| f > *a).unwrap_or(false) {
                // completed after the abort: legal only for a poll that was already in progress
                let in_progress = ex.events[..*a].iter().rev().find(|e| (e.kind == "PS" || e.kind == "PE") && e.op == c.to_string()).map(|e| e.kind == "PS").unwrap_or(false);
                if !in_progress {
                    v("completed-after-abort", format!("body {} completed although abort() had returned before any poll was in progress", c));
                } else {
                    out.count("abort_lost_race_with_poll_in_progress", 1);
                }
            }
            if fr.is_none() && fd.is_some() {
                out.count("abort_took_effect_future_dropped", 1);
            }
        }
        if let Some(d) = fd {
            // a dropped, unfinished future performs no further steps (the task's thread-local
            // destructors, which run after the future is gone, are not steps of the future)
            if let Some(t) = tid_of.get(&c) {
                if let Some((i, e)) = ex.events.iter().enumerate().find(|(i, e)| *i > d && e.task == *t && e.task != u32::MAX && !["D", "DA", "Y", "T"].contains(&e.kind.as_str())) {
                    v("steps-after-cancellation", format!("body {} logged {:?} at {} after its future was dropped at {}", c, e, i, d));
                }
            }
            if !abort_done_at.contains_key(&c) && !ex.events.iter().any(|e| e.kind == "S" && e.val.contains("Abort")) {
                v("future-dropped-without-abort", format!("body {}'s unfinished future was dropped during the execution but nobody called abort", c));
            }
        }
        if count("FR", c) > 1 {
            v("completed-twice", format!("body {} completed {} times", c, count("FR", c)));
        }
    }
    // (3) PendingForever is polled once per task poll that reaches it and never because of a phantom wake:
    // a task suspended in PendingForever with no waker registered anywhere must not be polled again
    // unless one of its stale wakers (from an earlier FlagWait/Select) is invoked; we only count.
    let pf = ex.events.iter().filter(|e| e.kind == "PF").count();
    if pf > 0 {
        out.count("pending_forever_polls", pf as u64);
    }
    // (4) verdict
    let flag_set_at_end: Vec<bool> = (0..p.flags).map(|f| ex.events.iter().any(|e| e.kind == "E" && op_at(p, &body_of, e).map(|o| o == AOp::FlagSet(f)).unwrap_or(false))).collect();
    let finished = |b: usize| -> bool { pos("FR", b).is_some() || ex.events.iter().any(|e| e.kind == "FD" && e.op == b.to_string()) };
    // the operation each unfinished body is suspended in = its last S without E
    let suspended_in = |b: usize| -> Option<AOp> {
        let t = tid_of.get(&b)?;
        let mut last: Option<(String, String)> = None;
        for e in ex.events.iter().filter(|e| e.task == *t) {
            if e.kind == "S" {
                last = Some((e.op.clone(), e.val.clone()));
            } else if e.kind == "E" {
                if last.as_ref().map(|l| l.0 == e.op).unwrap_or(false) {
                    last = None;
                }
            }
        }
        let (label, _) = last?;
        let top: usize = label.split('.').next()?.parse().ok()?;
        let op = p.bodies[b].get(top)?.clone();
        if label.contains('.') {
            if let AOp::NestedBlockOn(inner) = &op {
                let j: usize = label.split('.').nth(1)?.parse().ok()?;
                return inner.get(j).cloned();
            }
        }
        Some(op)
    };
    let child_in_slot = |b: usize, s: usize| -> Option<usize> {
        let mut k = 0;
        for o in &p.bodies[b] {
            if let AOp::Spawn(c) = o {
                if k == s {
                    return Some(*c);
                }
                k += 1;
            }
        }
        None
    };
    let can_progress = |b: usize| -> Option<bool> {
        Some(match suspended_in(b)? {
            AOp::FlagWait(f, _) | AOp::FlagWaitBlocking(f) => flag_set_at_end[f],
            AOp::Select2(f, g) => flag_set_at_end[f] || flag_set_at_end[g],
            AOp::FlagWaitNested(a, bb) => {
                // asleep inside the nested block_on (NS without NE): waits for b; otherwise the
                // outer future returned Pending with its waker registered for a
                let t = tid_of.get(&b)?;
                let in_nested = ex.events.iter().rev().find(|e| e.task == *t && (e.kind == "NS" || e.kind == "NE")).map(|e| e.kind == "NS").unwrap_or(false);
                if in_nested {
                    flag_set_at_end[bb]
                } else {
                    flag_set_at_end[a]
                }
            }
            AOp::PendingForever => false,
            AOp::Await(s) => child_in_slot(b, s).map(|c| finished(c)).unwrap_or(false),
            AOp::ThreadBlockOn(_) | AOp::NestedBlockOn(_) => return None,
            // every other operation completes without waiting for anyone
            _ => true,
        })
    };
    match ending {
        Ending::Returned(_) => {
            out.count("ending_pass", 1);
            // main's block_on returned its output
            if !ex.events.iter().any(|e| e.kind == "ME" && e.val == "0") {
                v("block-on-output", "the run ended normally but block_on(main) did not return main's output".to_string());
            }
        }
        Ending::Panicked(m) => {
            if let Some(ids) = parse_deadlock_tasks(m) {
                out.count("ending_deadlock", 1);
                for t in &ids {
                    if let Some(b) = body_of.get(t) {
                        if let Some(true) = can_progress(*b) {
                            v(
                                "lost-wakeup-or-false-deadlock",
                                format!("deadlock report {:?} lists body {} (task {}), suspended in {:?}, whose wake-up condition holds (flags set at the end: {:?})", m, b, t, suspended_in(*b), flag_set_at_end),
                            );
                        }
                    }
                }
                // an aborted task is woken by the abort: it cannot remain pending in a deadlocked execution
                for (c, a) in &abort_done_at {
                    // (a poll that is in progress — blocked inside a primitive — does not observe the abort)
                    let mid_poll = ex.events.iter().rev().find(|e| (e.kind == "PS" || e.kind == "PE") && e.op == c.to_string()).map(|e| e.kind == "PS").unwrap_or(false);
                    if !finished(*c) && !mid_poll {
                        if let Some(t) = tid_of.get(c) {
                            if ids.contains(t) {
                                let nested = p.bodies[*c].iter().any(|o| matches!(o, AOp::NestedBlockOn(_) | AOp::FlagWaitNested(..)));
                                v(
                                    if nested { "known:F25:wake-during-nested-block_on-is-lost" } else { "aborted-task-never-cancelled" },
                                    format!("abort() of body {} returned at event {} but the execution deadlocked with that task still pending (suspended in {:?}); an abort must wake its target so that it is cancelled", c, a, suspended_in(*c)),
                                );
                            }
                        }
                    }
                }
                // every unfinished body with a task must be listed
                let listed: BTreeSet<u32> = ids.iter().cloned().collect();
                for (b, t) in &tid_of {
                    if !finished(*b) && *b != 0 && !listed.contains(t) && spawner.get(b).map(|s| !s.2).unwrap_or(false) {
                        v("deadlock-report-omits-task", format!("body {} (task {}) is unfinished but missing from {:?}", b, t, m));
                    }
                }
            } else {
                v(&format!("unexpected-panic:{}", m.chars().take(40).map(|c| if c.is_ascii_alphanumeric() { c } else { '-' }).collect::<String>()), m.clone());
            }
        }
    }
    let _ = handle_dropped_at;
    for (k, d) in viols.into_inner() {
        out.violation(k, d, cj.clone());
    }
}

fn op_at(p: &AProg, body_of: &BTreeMap<u32, usize>, e: &crate::sim::Event) -> Option<AOp> {
    let b = *body_of.get(&e.task)?;
    let mut parts = e.op.split('.');
    let top: usize = parts.next()?.parse().ok()?;
    let op = p.bodies[b].get(top)?.clone();
    if let Some(j) = parts.next() {
        if let AOp::NestedBlockOn(inner) = &op {
            return inner.get(j.parse::<usize>().ok()?).cloned();
        }
    }
    Some(op)
}

fn check_case(case: &Case, out: &mut RunOut) {
    let cj = json!({"c17": case});
    let p = Arc::new(case.prog.clone());
    let p2 = p.clone();
    let (ending, rt) = run_recorded(SimSched::new(case.sim.clone()), quiet_config(), move || run_prog(&p2));
    for c in contract_findings(&rt) {
        // the event/owner rule does not apply to wakers invoked from other tasks' steps; only shape findings
        if !c.contains("logged") {
            out.violation("C17:contract", c, cj.clone());
        }
    }
    for ex in &rt.execs {
        out.evals += 1;
        out.decisions += ex.decisions().count() as u64;
        if ex.switches() > 0 {
            out.distinct.push(hash_debug(&(format!("{:?}", case.prog), ex.chosen_seq())));
        }
        check_exec(&case.prog, ex, &ending, out, &cj);
    }
    if out.sample.is_none() {
        out.sample = Some(json!({"program": case.prog, "ending": format!("{:?}", ending), "events": rt.execs.first().map(|e| e.events.iter().take(30).map(|e| format!("t{} {}{}={}", e.task, e.kind, e.op, e.val)).collect::<Vec<_>>())}));
    }
}

pub fn check() -> Check {
    Check {
        id: "C17",
        level: "exploration",
        rule: "per run: a seeded async program (2-4 futures spawned with shuttle::future::spawn or run by block_on in extra threads; hand-written waker futures that register before/after checking and are woken from other tasks, self-waking futures, futures that return Pending without a waker, select with the loser dropped, nested block_on, a future that registers its waker and then sleeps in a nested block_on within the same poll (outer wake arriving during the nested loop), yield_now, a JoinHandle polled once under a throw-away waker before it is awaited, task-locals whose destructors have scheduling points) with faults abort (also repeated, through AbortHandle, before the first poll / while sleeping / after completion) and detach (drop of the JoinHandle) at drawn points; every task future is wrapped to log poll starts/ends, completion and drop. Oracle: result delivered exactly once and truthfully; Cancelled iff the abort took effect before completion (no poll starts after abort() returned; a poll already in progress may complete); a cancelled future is dropped and performs no further step; nobody's future is dropped without an abort; the final verdict is exact: a task listed in a deadlock report must be suspended in an operation whose wake-up condition does not hold. Distinct = (program, chosen sequence); non-trivial = at least one switch",
        assumptions: &["step-level enabledness of async tasks is not modelled; lost wake-ups are detected at the end of the execution (the task stays pending although its condition holds)", "futures moved between tasks after their first poll are covered by C18 (SemCancel) and C19"],
        real_components: "real: shuttle-engine executor (Task::from_future, wakers, sleep_unless_woken, block_on), shuttle-std future (spawn, JoinHandle, AbortHandle, Wrapper); stub: none",
        batches: |t: Tier| vec![Batch::new("async", t.pick(20000, 400000), 400), Batch::new("nestedwake", t.pick(400, 8000), 100), Batch::new("known", 4, 4)],
        run: |b, i, seed, _t| {
            let mut rng = Rng::new(seed);
            let mut out = RunOut::default();
            if b == "known" {
                // pinned witness of known finding F25 (abort arriving during a nested block_on)
                let prog = AProg {
                    flags: 0,
                    bodies: vec![
                        vec![AOp::Spawn(1), AOp::AbortViaHandle(0), AOp::YieldNow, AOp::Abort(0), AOp::Await(0)],
                        vec![AOp::Spawn(2), AOp::NestedBlockOn(vec![AOp::YieldNow]), AOp::PendingForever, AOp::YieldNow],
                        vec![AOp::YieldNow],
                    ],
                };
                let mut sim = SimCfg::new(3130958313277173833 + i);
                sim.policy = crate::sim::Policy::RoundRobin;
                check_case(&Case { prog, sim }, &mut out);
                return out;
            }
            if b == "nestedwake" {
                // directed: the outer waker (flag 0) is invoked while the task is asleep inside the
                // nested block_on (waiting for flag 1); the setter runs as a task or as a thread
                let setter = vec![AOp::FlagSet(0), AOp::YieldNow, AOp::FlagSet(1)];
                let prog = match i % 3 {
                    0 => AProg { flags: 2, bodies: vec![[vec![AOp::Spawn(1)], setter, vec![AOp::Await(0)]].concat(), vec![AOp::FlagWaitNested(0, 1)]] },
                    1 => AProg { flags: 2, bodies: vec![vec![AOp::Spawn(1), AOp::Spawn(2), AOp::Await(0), AOp::Await(1)], vec![AOp::FlagWaitNested(0, 1), AOp::YieldNow], setter] },
                    _ => AProg { flags: 2, bodies: vec![vec![AOp::Spawn(1), AOp::Spawn(2), AOp::Await(1), AOp::Await(0)], vec![AOp::YieldNow, AOp::FlagWaitNested(1, 0)], vec![AOp::FlagSet(1), AOp::TlsTouch(1), AOp::FlagSet(0)]] },
                };
                let mut sim = SimCfg::new(rng.next_u64());
                sim.policy = random_policy(&mut rng);
                check_case(&Case { prog, sim }, &mut out);
                return out;
            }
            let prog = gen_prog(&mut rng);
            let mut sim = SimCfg::new(rng.next_u64());
            sim.policy = random_policy(&mut rng);
            check_case(&Case { prog, sim }, &mut out);
            out
        },
        replay: |case| {
            let mut out = RunOut::default();
            if let Some(c) = case.get("c17").and_then(|c| serde_json::from_value::<Case>(c.clone()).ok()) {
                check_case(&c, &mut out);
            }
            out
        },
        probes: &["await_ok", "await_cancelled", "abort_issued", "abort_took_effect_future_dropped", "handle_dropped", "ending_deadlock", "ending_pass", "pending_forever_polls", "handle_polled_with_foreign_waker"],
    }
}
