//! C05 — Condvar, Barrier, Once, park/unpark neither lose nor invent wake-ups.
use super::families::*;
use crate::coord::{Batch, Check, Tier};

const FAM: Family = Family { prop: "C05", gen: gen_c05 };

pub fn check() -> Check {
    Check {
        id: "C05",
        level: "exploration",
        rule: "per run: a seeded program over one family (condvar: 1-4 waiters/notifiers in any order relative to the waits; barrier: bound 0-3 reused by more threads than the bound; once: per-program and static Once cells and lazy statics raced by several threads, with yielding initialisers; park/unpark incl. several unparks before a park and spurious wake-ups chosen by the scheduler), a scheduling policy and a seed; oracle: lockstep powerset reference model (offered set at every decision, every result, final verdict) + leader-per-generation and initialiser-count monitors. Distinct = (program, chosen task sequence); non-trivial = at least one task switch",
        assumptions: &["reference models (harness/src/model.rs A.3-A.6) encode the std documentation; Condvar never wakes spuriously (Shuttle's documented choice)"],
        real_components: "real: shuttle-std Condvar/Barrier/Once/thread::park, shuttle lazy_static, shuttle-engine runtime; model only as oracle",
        batches: |t: Tier| vec![Batch::new("condvar", t.pick(8000, 150000), 400), Batch::new("cohorts", t.pick(8000, 150000), 400), Batch::new("barrier", t.pick(5000, 80000), 400), Batch::new("once", t.pick(5000, 80000), 400), Batch::new("park", t.pick(6000, 100000), 400)],
        run: |b, _i, seed, t| run_family(&FAM, b, seed, t),
        replay: |c| replay_family(&FAM, c),
        probes: &["condvar_wait_returned", "barrier_leader", "barrier_follower", "once_init_run", "park_returned", "spurious_wake_taken", "ending_deadlock"],
    }
}
