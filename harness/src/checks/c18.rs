//! C18 — BatchSemaphore conserves permits, honours its fairness mode and is cancel-safe.
use super::families::*;
use super::common::*;
use crate::coord::{Batch, Check, Tier};
use crate::prog::{gen_program, GenCfg, Op, Program, Resources};
use crate::coord::RunOut;
use crate::sim::Rng;

const FAM: Family = Family { prop: "C18", gen: gen_c18 };

/// Directed hand-off shape (foreign poller / stale waiter): task A creates an Acquire, polls it once
/// and parks it as its last operation; task B takes the parked future over and awaits it; permits
/// arrive from the main thread or a third task at any point (before A ends, between, after B polls).
fn gen_handoff(rng: &mut Rng) -> ProgCase {
    let fair = rng.chance(2, 3);
    let init = rng.below(2);
    let n = 1 + rng.below(2);
    let res = Resources { sems: vec![(init, fair)], ..Default::default() };
    let sem_op = |rng: &mut Rng| match rng.below(5) {
        0 => Op::SemTry(0, 1),
        1 => Op::SemRelease(0, 1 + rng.below(2)),
        2 => Op::Yield,
        3 => Op::SemAcquire(0, 1),
        _ => Op::SemRelease(0, 1),
    };
    let mut a = vec![];
    for _ in 0..rng.below(2) {
        a.push(sem_op(rng));
    }
    a.push(Op::SemStash(0, n));
    let mut b = vec![];
    for _ in 0..rng.below(2) {
        b.push(Op::Yield);
    }
    b.push(Op::SemTakeAwait(0));
    let mut main = vec![Op::Spawn(1), Op::Spawn(2)];
    for _ in 0..rng.range(1, 3) {
        let pos = rng.range(1, main.len());
        main.insert(pos, Op::SemRelease(0, 1 + rng.below(2)));
    }
    if rng.chance(1, 2) {
        main.push(Op::Join(0));
    }
    if rng.chance(1, 2) {
        main.push(Op::SemRelease(0, 2));
    }
    if rng.chance(2, 3) {
        main.push(Op::Join(1));
    }
    ProgCase { prog: Program { res, bodies: vec![main, a, b] }, sim: sim_for(rng), max_steps: None }
}

pub fn gen_c18(batch: &str, rng: &mut Rng) -> ProgCase {
    if batch == "handoff" {
        return gen_handoff(rng);
    }
    let mut cfg = GenCfg::none();
    cfg.sem = true;
    cfg.max_bodies = rng.range(2, 5);
    cfg.max_ops = rng.range(2, 5);
    cfg.join_prob = 5;
    cfg.yields = rng.chance(1, 4);
    if batch == "mixed" {
        cfg.mutex = rng.chance(1, 2);
        cfg.atomic = rng.chance(1, 2);
        cfg.chan = rng.chance(1, 4);
    }
    let mut prog = gen_program(rng, &cfg);
    match batch {
        "fair" => prog.res.sems.iter_mut().for_each(|s| s.1 = true),
        "unfair" => prog.res.sems.iter_mut().for_each(|s| s.1 = false),
        _ => {}
    }
    // Exclusion for known finding F9: on an UNFAIR semaphore a task that holds a queued Acquire it is
    // not awaiting (polled once, still alive across a scheduling point) may be blocked by another task's
    // acquisition (reblock_if_unfair); two-poll cancellations are generated for fair semaphores only.
    let sems = prog.res.sems.clone();
    for b in prog.bodies.iter_mut() {
        for o in b.iter_mut() {
            if let Op::SemCancel(sm, _, polls) = o {
                if !sems[*sm].1 {
                    *polls = 1; // (0 and 2 keep the Acquire alive across a scheduling point)
                }
            }
        }
    }
    ProgCase { prog, sim: sim_for(rng), max_steps: None }
}

pub fn check() -> Check {
    Check {
        id: "C18",
        level: "exploration",
        rule: "per run: a seeded program of 2-5 threads over 1-2 engine-level BatchSemaphores (initial permits 0-3, strictly fair or unfair): blocking acquire(n), try_acquire(n), release(n) (also of permits never acquired = added permits), close, and cancellation (an Acquire future polled once or twice with a scheduling point in between and then dropped: before queueing, queued, granted-but-not-observed); every operation reports available_permits() right after it. Oracle: lockstep reference model (FIFO queue, head granted as soon as it fits, nobody overtakes in fair mode; any fitting waiter may win in unfair mode; cancel leaves the queue and returns what it was granted; close fails pending and later acquisitions): results, available permits after every operation (conservation), offered set at every decision, final verdict. Distinct = (program, chosen sequence); non-trivial = at least one switch",
        assumptions: &["acquisitions are issued from threads (acquire_blocking / manual polling); futures moved between tasks and waiters whose task finished are exercised by C17/C19", "n >= 1 (acquire of 0 permits is a tokio-level question, see C19)"],
        real_components: "real: shuttle-engine future::batch_semaphore (BatchSemaphore, Acquire incl. Drop), block_on, runtime; model only as oracle",
        batches: |t: Tier| vec![Batch::new("fair", t.pick(9000, 150000), 300), Batch::new("unfair", t.pick(9000, 150000), 300), Batch::new("mixed", t.pick(6000, 100000), 300), Batch::new("handoff", t.pick(8000, 120000), 400), Batch::new("known", t.pick(40, 200), 20)],
        run: |b, i, seed, t| {
            if b == "known" {
                // pinned witness of known finding F9
                let mut rng = Rng::new(seed);
                let res = Resources { sems: vec![(0, false)], ..Default::default() };
                let bodies = vec![vec![Op::Spawn(1), Op::SemCancel(0, 2, 2)], vec![Op::SemRelease(0, 2), Op::SemAcquire(0, 1)]];
                let case = ProgCase { prog: Program { res, bodies }, sim: sim_for(&mut rng), max_steps: None };
                let mut tmp = RunOut::default();
                let _ = process(&case, "C18", &mut tmp, false);
                let mut out = RunOut::default();
                out.evals = tmp.evals;
                for v in tmp.violations {
                    if v.key.starts_with("C18:model:") {
                        out.violation("C18:known:F9:unfair-reblock-blocks-a-task-that-is-not-awaiting", v.detail, v.case);
                    } else {
                        out.violation(v.key, v.detail, v.case);
                    }
                }
                let _ = i;
                return out;
            }
            run_family(&FAM, b, seed, t)
        },
        replay: |c| replay_family(&FAM, c),
        probes: &["sem_acquire_ok", "sem_acquire_err", "sem_try_ok", "sem_try_nopermits", "sem_try_closed", "sem_cancelled", "sem_cancel_acquired", "sem_stashed", "sem_takeover_ok", "sem_close", "ending_deadlock"],
    }
}
