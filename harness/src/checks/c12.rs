//! C12 — failures surface to the caller with a schedule that reproduces them (oracle G).
//!
//! One `run` = one *history*: 1..=4 configured Shuttle runs executed in order by ONE child
//! process (`vcheck --child c12 <history-json> <scratch>`), each in `catch_unwind`, delimited on
//! stderr by `@@RUN k BEGIN` / `@@RUN k END`. The parent (this worker) inspects every run's
//! stderr section, the persistence directories (listed by the child before/after every run) and
//! the caught payload, then replays every emitted schedule in a further fresh child
//! (`vcheck --child c12replay ..`). A second batch compares the verdict of a `PortfolioRunner`
//! with the verdicts of its members run alone (`vcheck --child c12portfolio ..`).

use crate::coord::{self, Batch, Check, RunOut, Tier};
use crate::sim::{hash_debug, payload_to_string, Rng};
use serde::{Deserialize, Serialize};
use serde_json::{json, Value};
use shuttle::scheduler::{DfsScheduler, PctScheduler, RandomScheduler, ReplayScheduler, RoundRobinScheduler};
use shuttle::{Config, FailurePersistence, MaxSteps, PortfolioRunner, Runner};
use shuttle_engine::scheduler::serialization::deserialize_schedule;
use shuttle_engine::scheduler::Scheduler;
use std::collections::BTreeMap;
use std::panic::{catch_unwind, AssertUnwindSafe};
use std::path::{Path, PathBuf};
use std::process::{Command, Stdio};
use std::sync::Arc;
use std::time::{Duration, Instant};

// ---------------------------------------------------------------------------------------------
// case description
// ---------------------------------------------------------------------------------------------

#[derive(Clone, Copy, Debug, Serialize, Deserialize, PartialEq, Eq)]
pub enum BodyKind {
    Pass,
    PanicMain,
    PanicThread,
    PanicFuture,
    PanicMutex,
    Deadlock,
    StepBound,
}

const KINDS: [BodyKind; 7] = [
    BodyKind::Pass,
    BodyKind::PanicMain,
    BodyKind::PanicThread,
    BodyKind::PanicFuture,
    BodyKind::PanicMutex,
    BodyKind::Deadlock,
    BodyKind::StepBound,
];

impl BodyKind {
    fn name(&self) -> &'static str {
        match self {
            BodyKind::Pass => "pass",
            BodyKind::PanicMain => "panic_main",
            BodyKind::PanicThread => "panic_thread",
            BodyKind::PanicFuture => "panic_future",
            BodyKind::PanicMutex => "panic_mutex",
            BodyKind::Deadlock => "deadlock",
            BodyKind::StepBound => "stepbound",
        }
    }
    /// failure class used in violation keys
    fn class(&self) -> &'static str {
        match self {
            BodyKind::Pass => "pass",
            BodyKind::Deadlock => "deadlock",
            BodyKind::StepBound => "stepbound",
            _ => "task-panic",
        }
    }
    fn is_task_panic(&self) -> bool {
        self.class() == "task-panic"
    }
}

#[derive(Clone, Copy, Debug, Serialize, Deserialize, PartialEq, Eq)]
pub enum Persist {
    None,
    Print,
    File,
}

const PERSISTS: [Persist; 3] = [Persist::None, Persist::Print, Persist::File];

impl Persist {
    fn name(&self) -> &'static str {
        match self {
            Persist::None => "none",
            Persist::Print => "print",
            Persist::File => "file",
        }
    }
}

#[derive(Clone, Debug, Serialize, Deserialize, PartialEq)]
pub enum SchedSpec {
    Random { seed: u64, iters: usize },
    Pct { seed: u64, depth: usize, iters: usize },
    Dfs { iters: usize },
    RoundRobin { iters: usize },
}

impl SchedSpec {
    fn name(&self) -> &'static str {
        match self {
            SchedSpec::Random { .. } => "Random",
            SchedSpec::Pct { .. } => "Pct",
            SchedSpec::Dfs { .. } => "Dfs",
            SchedSpec::RoundRobin { .. } => "RoundRobin",
        }
    }
    fn build(&self) -> Box<dyn Scheduler + Send> {
        match self {
            SchedSpec::Random { seed, iters } => Box::new(RandomScheduler::new_from_seed(*seed, *iters)),
            SchedSpec::Pct { seed, depth, iters } => Box::new(PctScheduler::new_from_seed(*seed, *depth, *iters)),
            SchedSpec::Dfs { iters } => Box::new(DfsScheduler::new(Some(*iters), false)),
            SchedSpec::RoundRobin { iters } => Box::new(RoundRobinScheduler::new(*iters)),
        }
    }
}

/// The pool of persistence directories of a history (relative to the scratch directory). "cwd" is
/// the child's working directory and is configured as `FailurePersistence::File(None)`.
const DIRS: [&str; 3] = ["d0", "d1", "cwd"];

#[derive(Clone, Debug, Serialize, Deserialize, PartialEq)]
pub struct RunSpec {
    pub k: usize,
    pub body: BodyKind,
    /// the failure only happens when all workers logged everything before the failing task (schedule dependent)
    pub cond: bool,
    pub persist: Persist,
    /// for Persist::File: one of DIRS
    pub dir: Option<String>,
    pub sched: SchedSpec,
    /// run on a freshly spawned std::thread (else on the child's main thread)
    pub new_thread: bool,
    pub nonce: u64,
    pub max_steps: usize,
    pub workers: usize,
    pub steps: usize,
}

#[derive(Clone, Debug, Serialize, Deserialize, PartialEq)]
pub struct History {
    pub runs: Vec<RunSpec>,
    /// per directory of DIRS: 0 = empty, 1 = schedule000..002 exist, 2 = schedule000 and schedule002 exist
    pub prepop: Vec<u8>,
    /// seed of the parent-side choices (replay mode, truncation point)
    pub aux_seed: u64,
}

#[derive(Clone, Debug, Serialize, Deserialize, PartialEq)]
pub struct PortfolioSpec {
    pub members: Vec<SchedSpec>,
    pub stop_on_first_failure: bool,
    pub threads: usize,
    pub incs: usize,
    pub nonce: u64,
}

type DirListing = BTreeMap<String, BTreeMap<String, String>>;

#[derive(Clone, Debug, Default, Serialize, Deserialize)]
struct RunReport {
    k: usize,
    payload: Option<String>,
    iterations: Option<usize>,
    /// body invocations during this run
    execs: u64,
    /// event trace of the last body invocation
    trace: String,
    before: DirListing,
    after: DirListing,
}

#[derive(Clone, Debug, Default, Serialize, Deserialize)]
struct HistoryReport {
    runs: Vec<RunReport>,
}

#[derive(Clone, Debug, Serialize, Deserialize)]
struct ReplaySpec {
    run: RunSpec,
    /// "replay" | "replay_from_file" | "runner_encoded" | "runner_file"
    how: String,
    /// the schedule text (as printed / as found in the file)
    schedule: String,
    /// path of the persisted file (file based modes)
    file: Option<String>,
    /// truncation point for the corrupt-artefact probe
    cut: usize,
    /// suffix of the report file name
    tag: String,
}

#[derive(Clone, Debug, Default, Serialize, Deserialize)]
struct ReplayReport {
    payload: Option<String>,
    trace: String,
    /// "panic:<message>" | "accepted"
    corrupt: String,
}

#[derive(Clone, Debug, Default, Serialize, Deserialize)]
struct PortfolioReport {
    /// per member run alone: payload if it failed
    alone: Vec<Option<String>>,
    /// the portfolio run: payload if it failed
    portfolio: Option<String>,
    done: bool,
}

// ---------------------------------------------------------------------------------------------
// registration
// ---------------------------------------------------------------------------------------------

pub fn check() -> Check {
    // reach probes: every (body kind x persistence mode x position 0..2) cell, plus the mechanisms
    let mut probes: Vec<&'static str> = vec![
        "replays",
        "replay_how_replay",
        "replay_how_replay_from_file",
        "replay_how_runner_encoded",
        "replay_how_runner_file",
        "corrupt_artifact_rejected",
        "file_into_prepopulated_dir",
        "file_into_dir_with_gap",
        "file_second_schedule_in_same_dir",
        "file_into_cwd_default_dir",
        "run_on_new_thread",
        "run_on_main_thread",
        "failed_after_passing_executions",
        "portfolio_expected_fail",
        "portfolio_expected_pass",
        "portfolio_stop_true",
        "portfolio_stop_false",
        "portfolio_members_1",
        "portfolio_members_4",
    ];
    for k in KINDS.iter() {
        for p in PERSISTS.iter() {
            for pos in 0..3 {
                probes.push(Box::leak(cell_name(*k, *p, pos).into_boxed_str()));
            }
        }
    }
    Check {
        id: "C12",
        level: "fault_enumeration",
        rule: "a run of batch `histories` draws a history of 1..=3 (thorough 1..=4) Shuttle runs executed in order inside ONE child process; run = (body: pass | panic in main / spawned thread / spawned future / while holding a Mutex guard | deadlock | FailAfter(n) exceeded by a yield loop; optionally failing only under some interleavings) x persistence (None, Print, File(dir) with dir drawn from a pool of three directories, one of them the child's cwd via File(None), some pre-populated with schedule000..002 or with a gap) x scheduler (Random, PCT, DFS, RoundRobin with seeds, 1..8 iterations) x (child main thread | fresh std::thread). The (body, persistence) pair at one position of the history is enumerated from the run index so that every (body x persistence x position) cell is hit; everything else is seeded. Every schedule emitted the configured way is replayed in a fresh child by shuttle::replay / replay_from_file / Runner+ReplayScheduler with the same Config, and a truncated copy of the artefact is fed to ReplayScheduler. Batch `portfolio` draws 1..=4 seeded member schedulers, both stop_on_first_failure values, over a racy load+store counter body and compares the verdict with the members run alone. Distinct = hash of the history / portfolio spec; non-trivial = at least one failing run",
        assumptions: &[
            "the child installs a no-op panic hook before its first Shuttle run, so Shuttle's own hook chains to it and only Shuttle's eprintln output appears on stderr",
            "stderr of a child is a file; sections are attributed to runs by the delimiter lines the child prints before and after each run (runs are sequential; a run on a fresh std::thread is joined before the END line)",
            "PortfolioRunner members run on real OS threads: only the verdict (and which payloads are acceptable) is checked",
        ],
        real_components: "real: shuttle-engine failure.rs (panic hook, persist_failure, file naming), Execution::run failure paths, Runner, PortfolioRunner, Config; shuttle-schedulers Random/PCT/DFS/RoundRobin/ReplayScheduler, shuttle::replay / replay_from_file; shuttle-std threads, Mutex, futures, atomics; real processes, real stderr, real files. stub: none",
        batches,
        run,
        replay,
        probes: Box::leak(probes.into_boxed_slice()),
    }
}

fn batches(t: Tier) -> Vec<Batch> {
    vec![Batch::new("histories", t.pick(147, 2520), 10), Batch::new("portfolio", t.pick(48, 600), 8)]
}

fn cell_name(k: BodyKind, p: Persist, pos: usize) -> String {
    format!("cell:{}:{}:pos{}", k.name(), p.name(), pos)
}

// ---------------------------------------------------------------------------------------------
// generation
// ---------------------------------------------------------------------------------------------

fn gen_sched(rng: &mut Rng, iters: usize) -> SchedSpec {
    match rng.below(4) {
        0 => SchedSpec::Random { seed: rng.next_u64(), iters },
        1 => SchedSpec::Pct { seed: rng.next_u64(), depth: rng.range(1, 3), iters },
        2 => SchedSpec::Dfs { iters },
        _ => SchedSpec::RoundRobin { iters },
    }
}

fn gen_history(rng: &mut Rng, idx: u64, tier: Tier) -> History {
    let maxlen = tier.pick(3, 4) as usize;
    let cell = (idx % 21) as usize;
    let pos = ((idx / 21) as usize) % maxlen;
    let len = rng.range(pos + 1, maxlen);
    let mut runs: Vec<RunSpec> = vec![];
    for k in 0..len {
        let designated = k == pos;
        let (body, persist) = if designated {
            (KINDS[cell / 3], PERSISTS[cell % 3])
        } else {
            let body = if rng.chance(1, 6) { BodyKind::Pass } else { KINDS[rng.range(1, 6)] };
            (body, *rng.pick(&PERSISTS))
        };
        // a "twin" repeats the previous run's body, scheduler and shape on the same thread with another
        // persistence mode: the failing schedule has the same length as the previous run's (the
        // duplicate-suppression marker is compared by length)
        if !designated && k > 0 && rng.chance(1, 4) {
            let mut twin: RunSpec = runs[k - 1].clone();
            runs[k - 1].new_thread = false;
            twin.k = k;
            twin.new_thread = false;
            twin.nonce = rng.next_u64() % 1_000_000_000;
            twin.persist = *rng.pick(&PERSISTS);
            twin.dir = if twin.persist == Persist::File { Some(rng.pick(&DIRS).to_string()) } else { None };
            runs.push(twin);
            continue;
        }
        let cond = !designated && body.is_task_panic() && rng.chance(1, 2);
        let iters = if cond { rng.range(4, 12) } else { rng.range(1, 4) };
        let dir = if persist == Persist::File { Some(rng.pick(&DIRS).to_string()) } else { None };
        let max_steps = if body == BodyKind::StepBound { rng.range(25, 70) } else { 5000 };
        runs.push(RunSpec {
            k,
            body,
            cond,
            persist,
            dir,
            // conditional failures are looked for with the randomized schedulers, over several iterations
            sched: if cond {
                if rng.chance(1, 2) {
                    SchedSpec::Random { seed: rng.next_u64(), iters }
                } else {
                    SchedSpec::Pct { seed: rng.next_u64(), depth: rng.range(1, 3), iters }
                }
            } else {
                gen_sched(rng, iters)
            },
            new_thread: rng.chance(1, 3),
            nonce: rng.next_u64() % 1_000_000_000,
            max_steps,
            workers: rng.range(1, 2),
            steps: rng.range(1, 2),
        });
    }
    let prepop = (0..DIRS.len()).map(|_| rng.below(3) as u8).collect();
    History { runs, prepop, aux_seed: rng.next_u64() }
}

fn gen_portfolio(rng: &mut Rng, idx: u64) -> PortfolioSpec {
    let n = (idx % 4) as usize + 1;
    let stop = (idx / 4) % 2 == 0;
    let members = (0..n)
        .map(|_| {
            let iters = rng.range(1, 6);
            gen_sched(rng, iters)
        })
        .collect();
    PortfolioSpec { members, stop_on_first_failure: stop, threads: rng.range(2, 3), incs: rng.range(1, 2), nonce: rng.next_u64() % 1_000_000_000 }
}

// ---------------------------------------------------------------------------------------------
// the bodies (executed in child processes only)
// ---------------------------------------------------------------------------------------------

static TRACE: std::sync::Mutex<Vec<u8>> = std::sync::Mutex::new(Vec::new());
static EXECS: std::sync::atomic::AtomicU64 = std::sync::atomic::AtomicU64::new(0);

fn trace_lock() -> std::sync::MutexGuard<'static, Vec<u8>> {
    TRACE.lock().unwrap_or_else(|e| e.into_inner())
}
fn trace_push(b: u8) {
    trace_lock().push(b);
}
fn trace_get() -> String {
    String::from_utf8_lossy(&trace_lock()).to_string()
}
/// the failure condition of a conditional body: every log entry of every worker (`need` of them)
/// was written before the failing task wrote its own
fn triggered(cond: bool, me: u8, need: usize) -> bool {
    !cond || trace_lock().iter().position(|b| *b == me).map(|p| p >= need).unwrap_or(false)
}

fn run_body(s: &RunSpec) {
    use shuttle::sync::Mutex;
    use shuttle::thread;
    EXECS.fetch_add(1, std::sync::atomic::Ordering::SeqCst);
    trace_lock().clear();
    let log = Arc::new(Mutex::new(()));
    let m = Arc::new(Mutex::new(0u32));
    let boom = format!("boom-{}-{}-", s.k, s.nonce);
    let cond = s.cond;
    let need = s.workers * s.steps;
    // the deadlock body: main holds `m` for the whole execution
    let main_guard = if s.body == BodyKind::Deadlock { Some(m.lock().unwrap()) } else { None };
    let mut hs = vec![];
    for i in 0..s.workers {
        let log = log.clone();
        let steps = s.steps;
        hs.push(thread::spawn(move || {
            for _ in 0..steps {
                {
                    let _g = log.lock().unwrap();
                    trace_push(b'a' + i as u8);
                }
                thread::yield_now();
            }
        }));
    }
    let log_main = |c: u8| {
        let _g = log.lock().unwrap();
        trace_push(c);
    };
    match s.body {
        BodyKind::Pass => {
            log_main(b'M');
        }
        BodyKind::PanicMain => {
            log_main(b'M');
            if triggered(cond, b'M', need) {
                panic!("{}{}", boom, trace_get());
            }
        }
        BodyKind::PanicThread => {
            let log2 = log.clone();
            let boom2 = boom.clone();
            hs.push(thread::spawn(move || {
                {
                    let _g = log2.lock().unwrap();
                    trace_push(b'P');
                }
                thread::yield_now();
                if triggered(cond, b'P', need) {
                    panic!("{}{}", boom2, trace_get());
                }
            }));
            log_main(b'M');
        }
        BodyKind::PanicFuture => {
            let log2 = log.clone();
            let boom2 = boom.clone();
            let h = shuttle::future::spawn(async move {
                shuttle::future::yield_now().await;
                {
                    let _g = log2.lock().unwrap();
                    trace_push(b'F');
                }
                shuttle::future::yield_now().await;
                if triggered(cond, b'F', need) {
                    panic!("{}{}", boom2, trace_get());
                }
            });
            log_main(b'M');
            let _ = shuttle::future::block_on(h);
        }
        BodyKind::PanicMutex => {
            let log2 = log.clone();
            let boom2 = boom.clone();
            let m2 = m.clone();
            hs.push(thread::spawn(move || {
                let mut g = m2.lock().unwrap();
                *g += 1;
                {
                    let _g = log2.lock().unwrap();
                    trace_push(b'P');
                }
                thread::yield_now();
                if triggered(cond, b'P', need) {
                    // panics while holding the guard `g` (and with other tasks possibly queued on `m`)
                    panic!("{}{}", boom2, trace_get());
                }
                drop(g);
            }));
            log_main(b'M');
            {
                let _r = m.lock();
            }
        }
        BodyKind::Deadlock => {
            let log2 = log.clone();
            let m2 = m.clone();
            let d = thread::spawn(move || {
                {
                    let _g = log2.lock().unwrap();
                    trace_push(b'D');
                }
                let _g = m2.lock();
            });
            log_main(b'M');
            // main still holds `m`: D can never finish
            let _ = d.join();
        }
        BodyKind::StepBound => {
            log_main(b'M');
            loop {
                thread::yield_now();
            }
        }
    }
    for h in hs {
        let _ = h.join();
    }
    drop(main_guard);
}

fn racy_body(p: &PortfolioSpec) {
    use shuttle::sync::atomic::{AtomicUsize, Ordering};
    let c = Arc::new(AtomicUsize::new(0));
    let mut hs = vec![];
    for _ in 0..p.threads {
        let c = c.clone();
        let incs = p.incs;
        hs.push(shuttle::thread::spawn(move || {
            for _ in 0..incs {
                let v = c.load(Ordering::SeqCst);
                c.store(v + 1, Ordering::SeqCst);
            }
        }));
    }
    for h in hs {
        let _ = h.join();
    }
    let total = c.load(Ordering::SeqCst);
    if total != p.threads * p.incs {
        panic!("race-{}-lost-{}", p.nonce, p.threads * p.incs - total);
    }
}

fn run_config(s: &RunSpec, scratch: &Path) -> Config {
    let mut c = Config::new();
    c.failure_persistence = match s.persist {
        Persist::None => FailurePersistence::None,
        Persist::Print => FailurePersistence::Print,
        Persist::File => match s.dir.as_deref() {
            Some("cwd") | None => FailurePersistence::File(None),
            Some(d) => FailurePersistence::File(Some(scratch.join(d))),
        },
    };
    c.max_steps = MaxSteps::FailAfter(s.max_steps);
    c
}

// ---------------------------------------------------------------------------------------------
// child entry points
// ---------------------------------------------------------------------------------------------

/// A no-op hook installed BEFORE the first Shuttle run: Shuttle's hook (installed once, at the
/// first `Execution::run`) chains to it, so the default panic message / backtrace is suppressed
/// while everything Shuttle itself prints stays.
fn install_quiet_previous_hook() {
    std::panic::set_hook(Box::new(|_| {}));
}

fn list_dirs(scratch: &Path) -> DirListing {
    let mut out = DirListing::new();
    for d in DIRS {
        let mut files = BTreeMap::new();
        if let Ok(rd) = std::fs::read_dir(scratch.join(d)) {
            for e in rd.flatten() {
                let name = e.file_name().to_string_lossy().to_string();
                let content = std::fs::read(e.path()).map(|b| String::from_utf8_lossy(&b).to_string()).unwrap_or_default();
                files.insert(name, content);
            }
        }
        out.insert(d.to_string(), files);
    }
    out
}

fn write_json<T: Serialize>(path: &Path, v: &T) {
    let tmp = path.with_extension("tmp");
    let _ = std::fs::write(&tmp, serde_json::to_string(v).unwrap());
    let _ = std::fs::rename(&tmp, path);
}

/// `vcheck --child c12 <history-json> <scratch-dir>`
pub fn child_history(args: &[String]) -> i32 {
    if args.len() != 2 {
        return 2;
    }
    let hist: History = match serde_json::from_str(&args[0]) {
        Ok(h) => h,
        Err(_) => return 2,
    };
    let scratch = PathBuf::from(&args[1]);
    install_quiet_previous_hook();
    let mut report = HistoryReport::default();
    for spec in &hist.runs {
        let before = list_dirs(&scratch);
        EXECS.store(0, std::sync::atomic::Ordering::SeqCst);
        trace_lock().clear();
        eprintln!("@@RUN {} BEGIN", spec.k);
        let cfg = run_config(spec, &scratch);
        let sched = spec.sched.build();
        let s2 = spec.clone();
        let job = move || catch_unwind(AssertUnwindSafe(move || Runner::new(sched, cfg).run(move || run_body(&s2))));
        let res = if spec.new_thread {
            match std::thread::spawn(job).join() {
                Ok(r) => r,
                Err(e) => Err(e),
            }
        } else {
            job()
        };
        let (payload, iterations) = match res {
            Ok(n) => (None, Some(n)),
            Err(p) => (Some(payload_to_string(&*p)), None),
        };
        eprintln!("@@RUN {} END payload={:?}", spec.k, payload);
        report.runs.push(RunReport {
            k: spec.k,
            payload,
            iterations,
            execs: EXECS.load(std::sync::atomic::Ordering::SeqCst),
            trace: trace_get(),
            before,
            after: list_dirs(&scratch),
        });
        write_json(&scratch.join("report.json"), &report);
    }
    0
}

/// `vcheck --child c12replay <replayspec-json> <scratch-dir>`
pub fn child_replay(args: &[String]) -> i32 {
    if args.len() != 2 {
        return 2;
    }
    let rs: ReplaySpec = match serde_json::from_str(&args[0]) {
        Ok(h) => h,
        Err(_) => return 2,
    };
    let scratch = PathBuf::from(&args[1]);
    install_quiet_previous_hook();
    let file_based = rs.how == "replay_from_file" || rs.how == "runner_file";
    // (a) the corrupted artefact
    let cut = rs.cut.min(rs.schedule.len());
    let truncated: String = rs.schedule.chars().take(cut).collect();
    let corrupt = {
        let r = if file_based {
            let p = scratch.join(format!("corrupt-{}.txt", rs.tag));
            let _ = std::fs::write(&p, &truncated);
            catch_unwind(AssertUnwindSafe(|| ReplayScheduler::new_from_file(&p).map(|_| ()).map_err(|e| e.to_string())))
        } else {
            catch_unwind(AssertUnwindSafe(|| {
                let _ = ReplayScheduler::new_from_encoded(&truncated);
                Ok(())
            }))
        };
        match r {
            Ok(Ok(())) => "accepted".to_string(),
            Ok(Err(e)) => format!("io-error:{}", e),
            Err(p) => format!("panic:{}", payload_to_string(&*p)),
        }
    };
    // (b) the replay itself
    EXECS.store(0, std::sync::atomic::Ordering::SeqCst);
    trace_lock().clear();
    eprintln!("@@REPLAY BEGIN");
    let spec = rs.run.clone();
    let body = {
        let s2 = spec.clone();
        move || run_body(&s2)
    };
    let mut cfg = Config::new();
    cfg.failure_persistence = FailurePersistence::Print;
    cfg.max_steps = MaxSteps::FailAfter(spec.max_steps);
    let file = rs.file.clone().unwrap_or_default();
    let text = rs.schedule.clone();
    let how = rs.how.clone();
    let res = catch_unwind(AssertUnwindSafe(move || match how.as_str() {
        "replay" => shuttle::replay(body, &text),
        "replay_from_file" => shuttle::replay_from_file(body, &file),
        "runner_encoded" => {
            Runner::new(ReplayScheduler::new_from_encoded(&text), cfg).run(body);
        }
        _ => {
            Runner::new(ReplayScheduler::new_from_file(&file).expect("could not load schedule from file"), cfg).run(body);
        }
    }));
    let payload = res.err().map(|p| payload_to_string(&*p));
    eprintln!("@@REPLAY END payload={:?}", payload);
    write_json(&scratch.join(format!("replay-{}.json", rs.tag)), &ReplayReport { payload, trace: trace_get(), corrupt });
    0
}

/// `vcheck --child c12portfolio <portfoliospec-json> <scratch-dir>`
pub fn child_portfolio(args: &[String]) -> i32 {
    if args.len() != 2 {
        return 2;
    }
    let ps: PortfolioSpec = match serde_json::from_str(&args[0]) {
        Ok(h) => h,
        Err(_) => return 2,
    };
    let scratch = PathBuf::from(&args[1]);
    install_quiet_previous_hook();
    let quiet = || {
        let mut c = Config::new();
        c.failure_persistence = FailurePersistence::None;
        c.max_steps = MaxSteps::FailAfter(5000);
        c
    };
    let mut report = PortfolioReport::default();
    for m in &ps.members {
        let sched = m.build();
        let p2 = ps.clone();
        let cfg = quiet();
        let r = catch_unwind(AssertUnwindSafe(move || Runner::new(sched, cfg).run(move || racy_body(&p2))));
        report.alone.push(r.err().map(|p| payload_to_string(&*p)));
        write_json(&scratch.join("portfolio.json"), &report);
    }
    let members: Vec<_> = ps.members.iter().map(|m| m.build()).collect();
    let p2 = ps.clone();
    let cfg = quiet();
    let stop = ps.stop_on_first_failure;
    let r = catch_unwind(AssertUnwindSafe(move || {
        let mut pr = PortfolioRunner::new(stop, cfg);
        for m in members {
            pr.add(m);
        }
        pr.run(move || racy_body(&p2));
    }));
    report.portfolio = r.err().map(|p| payload_to_string(&*p));
    report.done = true;
    write_json(&scratch.join("portfolio.json"), &report);
    0
}

// ---------------------------------------------------------------------------------------------
// parent side
// ---------------------------------------------------------------------------------------------

struct ChildOut {
    /// None = killed after the timeout
    code: Option<i32>,
    abnormal: Option<String>,
    stderr: String,
}

fn spawn_child(kind: &str, json_arg: &str, scratch: &Path, tag: &str, out: &mut RunOut) -> ChildOut {
    out.count("child_processes", 1);
    let exe = std::env::current_exe().expect("current_exe");
    let errp = scratch.join(format!("stderr-{}.txt", tag));
    let f = std::fs::File::create(&errp).expect("stderr file");
    let mut cmd = Command::new(exe);
    cmd.arg("--child")
        .arg(kind)
        .arg(json_arg)
        .arg(scratch)
        .current_dir(scratch.join("cwd"))
        .stdin(Stdio::null())
        .stdout(Stdio::null())
        .stderr(Stdio::from(f));
    coord::scrub_env(&mut cmd);
    let mut child = cmd.spawn().expect("spawn child");
    let t0 = Instant::now();
    let status = loop {
        match child.try_wait().expect("wait") {
            Some(st) => break Some(st),
            None => {
                if t0.elapsed() > Duration::from_secs(40) {
                    let _ = child.kill();
                    let _ = child.wait();
                    break None;
                }
                std::thread::sleep(Duration::from_millis(2));
            }
        }
    };
    let stderr = std::fs::read(&errp).map(|b| String::from_utf8_lossy(&b).to_string()).unwrap_or_default();
    match status {
        None => ChildOut { code: None, abnormal: Some("hung for more than 40 s (killed)".into()), stderr },
        Some(st) => ChildOut {
            code: st.code(),
            abnormal: if st.success() { None } else { Some(format!("exited abnormally: {:?}", st)) },
            stderr,
        },
    }
}

fn make_scratch(seed: u64, prepop: &[u8]) -> PathBuf {
    static N: std::sync::atomic::AtomicU64 = std::sync::atomic::AtomicU64::new(0);
    let n = N.fetch_add(1, std::sync::atomic::Ordering::SeqCst);
    let root = coord::verif_root().join("harness").join("target").join("vtmp");
    let dir = root.join(format!("c12-{}-{}-{:016x}", std::process::id(), n, seed));
    let _ = std::fs::remove_dir_all(&dir);
    for (i, d) in DIRS.iter().enumerate() {
        let p = dir.join(d);
        std::fs::create_dir_all(&p).expect("scratch dir");
        let names: &[&str] = match prepop.get(i).cloned().unwrap_or(0) {
            1 => &["schedule000.txt", "schedule001.txt", "schedule002.txt"],
            2 => &["schedule000.txt", "schedule002.txt"],
            _ => &[],
        };
        for n in names {
            std::fs::write(p.join(n), format!("PREEXISTING {}/{}\n", d, n)).expect("prepopulate");
        }
    }
    dir
}

fn is_one_time_warning(line: &str) -> bool {
    line.contains("Shuttle only correctly models SeqCst atomics") || (line.contains("WARNING") && line.contains("lazy_static"))
}

/// the lines between `@@RUN k BEGIN` and `@@RUN k END` (one-time warnings removed)
fn section<'a>(stderr: &'a str, begin: &str, end_prefix: &str) -> Option<Vec<&'a str>> {
    let mut inside = false;
    let mut lines = vec![];
    for l in stderr.lines() {
        if !inside {
            if l == begin {
                inside = true;
            }
        } else if l.starts_with(end_prefix) {
            return Some(lines);
        } else if !is_one_time_warning(l) {
            lines.push(l);
        }
    }
    None
}

#[derive(Debug, Default)]
struct Emitted {
    /// schedule texts of `failing schedule:` blocks
    printed: Vec<String>,
    /// paths of `failing schedule persisted to file:` lines
    file_mentions: Vec<String>,
    /// "failed to persist schedule to file" fallbacks
    fallbacks: usize,
    /// lines that look like a bare schedule outside of a block
    stray_hex_lines: usize,
    /// `failing seed:` blocks (RandomScheduler)
    failing_seeds: usize,
}

fn is_hex_line(l: &str) -> bool {
    l.len() >= 4 && l.starts_with("91") && l.chars().all(|c| c.is_ascii_hexdigit())
}

fn parse_section(lines: &[&str]) -> Emitted {
    let mut e = Emitted::default();
    let mut i = 0;
    while i < lines.len() {
        let l = lines[i];
        if l == "failing schedule:" && lines.get(i + 1) == Some(&"\"") {
            let mut j = i + 2;
            let mut text = vec![];
            while j < lines.len() && lines[j] != "\"" {
                text.push(lines[j]);
                j += 1;
            }
            e.printed.push(text.join("\n"));
            i = j + 1;
            continue;
        }
        if l == "failing seed:" && lines.get(i + 1) == Some(&"\"") && lines.get(i + 3) == Some(&"\"") {
            // RandomScheduler's drop guard: the seed of the whole run (not a schedule; printed
            // whatever the persistence mode is, the scheduler does not know the Config)
            e.failing_seeds += 1;
            i += 4;
            continue;
        }
        if let Some(p) = l.strip_prefix("failing schedule persisted to file: ") {
            e.file_mentions.push(p.trim().to_string());
        } else if l.starts_with("failed to persist schedule to file") {
            e.fallbacks += 1;
        } else if is_hex_line(l) {
            e.stray_hex_lines += 1;
        }
        i += 1;
    }
    e
}

fn flat(s: &str) -> String {
    s.chars().filter(|c| !c.is_whitespace()).collect()
}

fn is_schedule_file_name(n: &str) -> bool {
    n.strip_prefix("schedule")
        .and_then(|r| r.strip_suffix(".txt"))
        .map(|d| d.len() >= 3 && d.chars().all(|c| c.is_ascii_digit()))
        .unwrap_or(false)
}

fn decodes(text: &str) -> Result<Option<(u64, Vec<i64>)>, String> {
    let t = text.to_string();
    match catch_unwind(move || deserialize_schedule(&t)) {
        Ok(s) => Ok(s.map(|s| crate::sim::schedule_to_vec(&s))),
        Err(p) => Err(payload_to_string(&*p)),
    }
}

struct ToReplay {
    k: usize,
    file_based: bool,
    schedule: String,
    file: Option<String>,
    /// number of schedules the original run emitted in any way (1, or 2 when the schedule grew during unwinding)
    emitted: usize,
    /// this is the EARLIER of two emitted schedules (persisted by the hook at panic time)
    early: bool,
}

/// Several emissions for one failure: do they form a chain in which every later schedule extends
/// the previous one (the schedule grew between the panic hook and the end of the execution)?
fn grew(texts: &[&String]) -> bool {
    let mut prev: Option<(u64, Vec<i64>)> = None;
    for t in texts {
        let cur = match decodes(t) {
            Ok(Some(c)) => c,
            _ => return false,
        };
        if let Some(p) = &prev {
            if p.0 != cur.0 || cur.1.len() <= p.1.len() || cur.1[..p.1.len()] != p.1[..] {
                return false;
            }
        }
        prev = Some(cur);
    }
    true
}

fn check_history(h: &History, out: &mut RunOut) {
    let case = json!({ "history": h });
    let scratch = make_scratch(h.aux_seed, &h.prepop);
    check_history_in(h, &scratch, out, &case);
    let _ = std::fs::remove_dir_all(&scratch);
}

fn check_history_in(h: &History, scratch: &Path, out: &mut RunOut, case: &Value) {
    let mut aux = Rng::new(h.aux_seed);
    let summary: Vec<String> = h
        .runs
        .iter()
        .map(|r| format!("{}:{}{}/{}{}{}", r.k, r.body.name(), if r.cond { "?" } else { "" }, r.persist.name(), r.dir.as_ref().map(|d| format!("({})", d)).unwrap_or_default(), if r.new_thread { "/new-thread" } else { "" }))
        .collect();
    let summary = format!("history [{}]", summary.join(", "));
    let co = spawn_child("c12", &serde_json::to_string(h).unwrap(), scratch, "history", out);
    let report: HistoryReport = std::fs::read_to_string(scratch.join("report.json")).ok().and_then(|t| serde_json::from_str(&t).ok()).unwrap_or_default();
    if let Some(why) = &co.abnormal {
        let at = report.runs.len();
        let kind = h.runs.get(at).map(|r| r.body.name()).unwrap_or("?");
        out.violation(
            format!("C12:child-{}:{}", if co.code.is_none() && why.starts_with("hung") { "hang" } else { "abort" }, kind),
            format!("{}: the child process {} during run {}; stderr tail: {:?}", summary, why, at, tail(&co.stderr, 600)),
            case.clone(),
        );
    }
    let mut any_failed = false;
    let mut to_replay: Vec<ToReplay> = vec![];
    for rep in &report.runs {
        let spec = match h.runs.get(rep.k) {
            Some(s) => s,
            None => continue,
        };
        out.evals += 1;
        let k = spec.k;
        let pos = if k == 0 { "first-run" } else { "later-run" };
        let kind = spec.body;
        let ctx = format!("{} run {} ({} / {} / {} / {})", summary, k, kind.name(), spec.persist.name(), spec.sched.name(), if spec.new_thread { "fresh thread" } else { "main thread" });
        let lines = match section(&co.stderr, &format!("@@RUN {} BEGIN", k), &format!("@@RUN {} END", k)) {
            Some(l) => l,
            None => {
                out.violation("C12:harness-section-missing", format!("{}: no stderr section", ctx), case.clone());
                continue;
            }
        };
        let em = parse_section(&lines);
        let sect_text = || lines.join("\n");
        out.count(if spec.new_thread { "run_on_new_thread" } else { "run_on_main_thread" }, 1);
        out.count(&format!("sched_{}", spec.sched.name()), 1);

        // ---- (1) the verdict and the payload
        let failed = rep.payload.is_some();
        match (&rep.payload, kind) {
            (Some(p), BodyKind::Pass) => {
                out.violation("C12:passing-body-failed", format!("{}: failed with {:?}", ctx, p), case.clone());
            }
            (None, BodyKind::Pass) => {}
            (None, _) if spec.cond => out.count("conditional_body_passed", 1),
            (None, _) => {
                out.violation(format!("C12:failure-not-surfaced:{}", kind.name()), format!("{}: Runner::run returned {:?} although the body always fails", ctx, rep.iterations), case.clone());
            }
            (Some(p), _) => {
                any_failed = true;
                if spec.cond {
                    out.count("conditional_body_failed", 1);
                }
                if rep.execs > 1 {
                    out.count("failed_after_passing_executions", 1);
                }
                let ok = match kind {
                    BodyKind::Deadlock => p.starts_with("deadlock! blocked tasks"),
                    BodyKind::StepBound => p.starts_with(&format!("exceeded max_steps bound {}", spec.max_steps)),
                    // the payload embeds the event trace at panic time: a non-empty prefix of the final trace
                    // (other tasks may still run while the failing task unwinds through a guard's drop)
                    _ => p.strip_prefix(&format!("boom-{}-{}-", k, spec.nonce)).map(|t| !t.is_empty() && rep.trace.starts_with(t)).unwrap_or(false),
                };
                if !ok && kind == BodyKind::PanicMutex && p.contains("PoisonError") {
                    // F20 again: while the panicking holder unwinds through its guard's Drop another
                    // task is scheduled, finds the lock poisoned, panics in its own `lock().unwrap()`,
                    // and that second panic is what the run re-raises
                    out.count("second_panic_during_unwind_surfaced", 1);
                    out.violation(
                        format!("C12:unwind-yield:second-panic-surfaces:{}", kind.name()),
                        format!("{}: caught payload {:?} (a task that ran while the failing task was unwinding); expected \"boom-{}-{}-<prefix of {}>\"", ctx, p, k, spec.nonce, rep.trace),
                        case.clone(),
                    );
                } else if !ok {
                    out.violation(
                        format!("C12:payload-not-the-failing-tasks-own:{}", kind.name()),
                        format!("{}: caught payload {:?}; expected {}", ctx, p, match kind {
                            BodyKind::Deadlock => "a message starting with \"deadlock! blocked tasks\"".to_string(),
                            BodyKind::StepBound => format!("a message starting with \"exceeded max_steps bound {}\"", spec.max_steps),
                            _ => format!("\"boom-{}-{}-<prefix of {}>\"", k, spec.nonce, rep.trace),
                        }),
                        case.clone(),
                    );
                }
            }
        }
        if failed || kind == BodyKind::Pass {
            out.count(&cell_name(kind, spec.persist, k), 1);
        }

        // ---- (2) what was emitted, and where
        let mut new_own: Vec<(String, String)> = vec![];
        let mut new_other: Vec<(String, String)> = vec![];
        for d in DIRS {
            let empty = BTreeMap::new();
            let b = rep.before.get(d).unwrap_or(&empty);
            let a = rep.after.get(d).unwrap_or(&empty);
            for (name, content) in a {
                match b.get(name) {
                    None => {
                        let own = spec.persist == Persist::File && spec.dir.as_deref() == Some(d);
                        if own {
                            new_own.push((format!("{}/{}", d, name), content.clone()));
                        } else {
                            new_other.push((format!("{}/{}", d, name), content.clone()));
                        }
                    }
                    Some(old) if old != content => {
                        out.violation(
                            format!("C12:existing-file-overwritten:{}", pos),
                            format!("{}: {}/{} existed before the run with content {:?} and now holds {:?}", ctx, d, name, tail(old, 80), tail(content, 80)),
                            case.clone(),
                        );
                    }
                    _ => {}
                }
            }
            for name in b.keys() {
                if !a.contains_key(name) {
                    out.violation(format!("C12:existing-file-removed:{}", pos), format!("{}: {}/{} disappeared during the run", ctx, d, name), case.clone());
                }
            }
        }
        let n_print = em.printed.len();
        let n_files = new_own.len() + new_other.len();
        let class = kind.class();
        let observed = format!(
            "observed in this run's stderr section: {} `failing schedule:` block(s), {} `persisted to file` line(s); new files: own dir {:?}, elsewhere {:?}; first run of the process used persistence {}",
            n_print,
            em.file_mentions.len(),
            new_own.iter().map(|x| &x.0).collect::<Vec<_>>(),
            new_other.iter().map(|x| &x.0).collect::<Vec<_>>(),
            h.runs[0].persist.name()
        );
        if em.failing_seeds > 0 {
            out.count(if spec.persist == Persist::None { "random_failing_seed_printed_with_persistence_none" } else { "random_failing_seed_printed" }, 1);
        }
        if !failed {
            if n_print + n_files + em.file_mentions.len() > 0 {
                out.violation(format!("C12:schedule-emitted-for-passing-run:{}", pos), format!("{}: the run passed; {}", ctx, observed), case.clone());
            }
            continue;
        }
        match spec.persist {
            Persist::None => {
                if n_print > 0 {
                    out.violation(format!("C12:schedule-emitted-though-disabled:printed:{}:{}", pos, class), format!("{}: persistence is None in this run's Config; {}", ctx, observed), case.clone());
                }
                if n_files > 0 || !em.file_mentions.is_empty() {
                    out.violation(format!("C12:schedule-emitted-though-disabled:file:{}:{}", pos, class), format!("{}: persistence is None in this run's Config; {}", ctx, observed), case.clone());
                }
                if n_print == 0 && em.stray_hex_lines > 0 {
                    out.violation(format!("C12:schedule-emitted-though-disabled:bare-text:{}:{}", pos, class), format!("{}: schedule-like text in the section: {:?}", ctx, tail(&sect_text(), 400)), case.clone());
                }
            }
            Persist::Print => {
                if n_files > 0 || !em.file_mentions.is_empty() {
                    out.violation(format!("C12:schedule-emitted-wrong-way:want-print-got-file:{}:{}", pos, class), format!("{}: {}", ctx, observed), case.clone());
                }
                if n_print == 0 {
                    out.violation(format!("C12:schedule-missing:print:{}:{}", pos, class), format!("{}: {}", ctx, observed), case.clone());
                } else {
                    let texts: Vec<&String> = em.printed.iter().collect();
                    if n_print > 1 {
                        if n_print == 2 && grew(&texts) && kind == BodyKind::PanicMutex {
                            out.count("emitted_twice_schedule_grew_during_unwind", 1);
                            out.violation(
                                format!("C12:unwind-yield:schedule-emitted-twice:print:{}", kind.name()),
                                format!("{}: two different schedules were printed for one failure: {:?} at panic time (hook) and its extension {:?} when the execution ended; {}", ctx, flat(texts[0]), flat(texts[1]), observed),
                                case.clone(),
                            );
                        } else {
                            out.violation(format!("C12:schedule-emitted-twice:print:{}:{}", pos, class), format!("{}: {}; blocks {:?}", ctx, observed, em.printed), case.clone());
                        }
                    }
                    for (i, t) in texts.iter().enumerate() {
                        match decodes(t) {
                            Ok(Some(_)) => {
                                if i + 1 == texts.len() || (i == 0 && texts.len() == 2 && grew(&texts)) {
                                    to_replay.push(ToReplay { k, file_based: false, schedule: (*t).clone(), file: None, emitted: n_print + n_files, early: i + 1 < texts.len() });
                                }
                            }
                            other => out.violation(format!("C12:printed-schedule-invalid:{}", class), format!("{}: printed text {:?} decodes to {:?}", ctx, t, other), case.clone()),
                        }
                    }
                }
            }
            Persist::File => {
                let d = spec.dir.clone().unwrap_or_default();
                let pre = h.prepop.get(DIRS.iter().position(|x| *x == d).unwrap_or(0)).cloned().unwrap_or(0);
                if n_print > 0 {
                    out.violation(format!("C12:schedule-emitted-wrong-way:want-file-got-print:{}:{}", pos, class), format!("{}: {}{}", ctx, observed, if em.fallbacks > 0 { " (fallback after a file error)" } else { "" }), case.clone());
                }
                if !new_other.is_empty() {
                    out.violation(format!("C12:schedule-emitted-wrong-way:file-in-another-directory:{}:{}", pos, class), format!("{}: configured directory is {}; {}", ctx, d, observed), case.clone());
                }
                if new_own.is_empty() {
                    out.violation(format!("C12:schedule-missing:file:{}:{}", pos, class), format!("{}: no fresh file in the configured directory {}; {}", ctx, d, observed), case.clone());
                } else {
                    // file names ascend in creation order (the first unused index is taken)
                    let texts: Vec<&String> = new_own.iter().map(|x| &x.1).collect();
                    let chain = new_own.len() == 2 && grew(&texts) && kind == BodyKind::PanicMutex;
                    if new_own.len() > 1 {
                        if chain {
                            out.count("emitted_twice_schedule_grew_during_unwind", 1);
                            out.violation(
                                format!("C12:unwind-yield:schedule-emitted-twice:file:{}", kind.name()),
                                format!("{}: two files were written for one failure: {} = {:?} at panic time (hook) and {} = its extension {:?} when the execution ended; {}", ctx, new_own[0].0, flat(texts[0]), new_own[1].0, flat(texts[1]), observed),
                                case.clone(),
                            );
                        } else {
                            out.violation(format!("C12:schedule-emitted-twice:file:{}:{}", pos, class), format!("{}: {}", ctx, observed), case.clone());
                        }
                    }
                    let had_before = rep.before.get(&d).map(|m| m.len()).unwrap_or(0);
                    if pre == 1 {
                        out.count("file_into_prepopulated_dir", 1);
                    } else if pre == 2 {
                        out.count("file_into_dir_with_gap", 1);
                    }
                    if had_before > match pre { 1 => 3, 2 => 2, _ => 0 } {
                        out.count("file_second_schedule_in_same_dir", 1);
                    }
                    if d == "cwd" {
                        out.count("file_into_cwd_default_dir", 1);
                    }
                    for (i, (rel, content)) in new_own.iter().enumerate() {
                        let name = rel.rsplit('/').next().unwrap_or("");
                        if !is_schedule_file_name(name) {
                            out.violation("C12:file-name-unexpected", format!("{}: new file {}", ctx, rel), case.clone());
                        }
                        let abs = scratch.join(rel);
                        let canon = abs.canonicalize().unwrap_or(abs.clone());
                        let mentioned = em.file_mentions.iter().any(|m| Path::new(m) == canon || Path::new(m) == abs);
                        if !mentioned {
                            out.violation(format!("C12:file-path-not-mentioned:{}", pos), format!("{}: fresh file {} but the section mentions {:?}", ctx, canon.display(), em.file_mentions), case.clone());
                        }
                        match decodes(content) {
                            Ok(Some(_)) => {
                                if i + 1 == new_own.len() || (i == 0 && chain) {
                                    to_replay.push(ToReplay { k, file_based: true, schedule: content.clone(), file: Some(canon.to_string_lossy().to_string()), emitted: n_print + n_files, early: i + 1 < new_own.len() });
                                }
                            }
                            other => out.violation(format!("C12:file-content-invalid:{}", class), format!("{}: {} holds {:?} which decodes to {:?}", ctx, rel, tail(content, 200), other), case.clone()),
                        }
                    }
                }
            }
        }
    }
    if report.runs.len() == h.runs.len() {
        out.count(&format!("history_len_{}", h.runs.len()), 1);
    }
    if any_failed {
        out.distinct.push(hash_debug(&(&h.runs, &h.prepop)));
    }

    // ---- (3) replay every correctly emitted schedule in a fresh process
    for tr in to_replay {
        let spec = &h.runs[tr.k];
        let rep = &report.runs[tr.k];
        let orig_payload = rep.payload.clone().unwrap_or_default();
        let how = match (tr.file_based, spec.body == BodyKind::StepBound, aux.chance(1, 2)) {
            (false, true, _) | (false, false, false) => "runner_encoded",
            (false, false, true) => "replay",
            (true, true, _) | (true, false, false) => "runner_file",
            (true, false, true) => "replay_from_file",
        };
        let cut = aux.below(tr.schedule.len().max(1));
        let tag = format!("{}{}", tr.k, if tr.early { "e" } else { "" });
        let rs = ReplaySpec { run: spec.clone(), how: how.to_string(), schedule: tr.schedule.clone(), file: tr.file.clone(), cut, tag: tag.clone() };
        let rcase = json!({ "history": h, "replay_of_run": tr.k });
        let ctx = format!("{} run {} ({} / {}), replay via {} of {:?}", summary, tr.k, spec.body.name(), spec.persist.name(), how, flat(&tr.schedule));
        let co = spawn_child("c12replay", &serde_json::to_string(&rs).unwrap(), scratch, &format!("replay-{}", tag), out);
        out.count("replays", 1);
        out.count(&format!("replay_how_{}", how), 1);
        out.evals += 1;
        let rr: Option<ReplayReport> = std::fs::read_to_string(scratch.join(format!("replay-{}.json", tag))).ok().and_then(|t| serde_json::from_str(&t).ok());
        let rr = match (rr, &co.abnormal) {
            (Some(r), None) => r,
            (_, why) => {
                out.violation(format!("C12:replay-child-abort:{}", spec.body.name()), format!("{}: replay child {}; stderr tail {:?}", ctx, why.clone().unwrap_or_else(|| "wrote no report".into()), tail(&co.stderr, 600)), rcase.clone());
                continue;
            }
        };
        // the corrupted artefact
        let truncated: String = tr.schedule.chars().take(cut).collect();
        out.count("corrupt_checks", 1);
        let orig_sched = decodes(&tr.schedule).ok().flatten();
        match decodes(&truncated) {
            Ok(None) => {
                if rr.corrupt.starts_with("panic:") && rr.corrupt.contains("invalid schedule") {
                    out.count("corrupt_artifact_rejected", 1);
                } else {
                    out.violation(
                        format!("C12:corrupt-artifact-not-rejected-cleanly:{}", if tr.file_based { "file" } else { "string" }),
                        format!("{}: the artefact truncated to {} chars ({:?}) gave {:?} instead of a panic with \"invalid schedule\"", ctx, cut, truncated, rr.corrupt),
                        rcase.clone(),
                    );
                }
            }
            Ok(Some(s)) => {
                if Some(&s) == orig_sched.as_ref() && rr.corrupt == "accepted" {
                    out.count("corrupt_truncated_padding_only", 1);
                } else {
                    out.violation("C12:corrupt-artifact-accepted", format!("{}: truncated to {} chars decodes to {:?} (original {:?}); ReplayScheduler said {:?}", ctx, cut, s, orig_sched, rr.corrupt), rcase.clone());
                }
            }
            Err(p) => {
                out.violation("C12:corrupt-artifact-decoder-panic", format!("{}: deserialize_schedule panicked on the truncated artefact {:?}: {}", ctx, truncated, p), rcase.clone());
            }
        }
        // the replayed failure
        if tr.early {
            // the schedule persisted by the hook at panic time, later superseded by a longer one
            if rr.payload.as_deref() == Some(orig_payload.as_str()) {
                out.count("early_schedule_reproduced_the_failure", 1);
            } else {
                out.violation(
                    // only the guard-holding body kind is covered by known finding F20
                    format!("C12:{}early-schedule-does-not-reproduce:{}:{}", if spec.body == BodyKind::PanicMutex { "unwind-yield:" } else { "" }, spec.persist.name(), spec.body.name()),
                    format!("{}: this is the schedule emitted at panic time; original payload {:?}, replay ended with {:?}", ctx, orig_payload, rr.payload),
                    rcase.clone(),
                );
            }
            continue;
        }
        match &rr.payload {
            None => {
                out.violation(format!("C12:replay-did-not-fail:{}", spec.body.name()), format!("{}: the replay passed; original payload {:?}", ctx, orig_payload), rcase.clone());
                continue;
            }
            Some(p) if *p != orig_payload => {
                out.violation(format!("C12:replay-payload-differs:{}", spec.body.name()), format!("{}: original payload {:?}, replay payload {:?}", ctx, orig_payload, p), rcase.clone());
                continue;
            }
            _ => {}
        }
        if rr.trace != rep.trace {
            out.violation(format!("C12:replay-trace-differs:{}", spec.body.name()), format!("{}: original event trace {:?}, replay trace {:?}", ctx, rep.trace, rr.trace), rcase.clone());
        }
        // the replay (first run of its process, persistence Print) must emit the same schedule again
        if let Some(lines) = section(&co.stderr, "@@REPLAY BEGIN", "@@REPLAY END") {
            let em = parse_section(&lines);
            // normally as many blocks as the original run emitted (2 when the schedule grows during
            // unwinding); the count is evidence only, the schedule of the last block is what must agree
            if em.printed.len() != tr.emitted {
                out.count("replay_emission_count_differs_from_original", 1);
            }
            if em.printed.is_empty() {
                out.violation(format!("C12:replay-schedule-not-printed:{}", spec.body.class()), format!("{}: no `failing schedule:` block in the replay's stderr (first run of its process, persistence Print)", ctx), rcase.clone());
            } else if flat(em.printed.last().unwrap()) != flat(&tr.schedule) {
                out.violation(format!("C12:replay-schedule-differs:{}", spec.body.class()), format!("{}: the replay failed with schedule {:?}", ctx, flat(em.printed.last().unwrap())), rcase.clone());
            } else {
                out.count("replay_reproduced_payload_trace_and_schedule", 1);
            }
        }
    }
    if out.sample.is_none() && any_failed {
        out.sample = Some(json!({"history": h, "payloads": report.runs.iter().map(|r| r.payload.clone()).collect::<Vec<_>>()}));
    }
}

fn tail(s: &str, n: usize) -> String {
    let chars: Vec<char> = s.chars().collect();
    if chars.len() <= n {
        s.to_string()
    } else {
        chars[chars.len() - n..].iter().collect()
    }
}

const PORTFOLIO_INTERNAL_ASSERT: &str = "assertion failed: stop_signal.load(Ordering::SeqCst) == panic.is_some()";

fn check_portfolio(p: &PortfolioSpec, seed: u64, out: &mut RunOut) {
    let case = json!({ "portfolio": p });
    let scratch = make_scratch(seed, &[]);
    let co = spawn_child("c12portfolio", &serde_json::to_string(p).unwrap(), &scratch, "portfolio", out);
    let rep: PortfolioReport = std::fs::read_to_string(scratch.join("portfolio.json")).ok().and_then(|t| serde_json::from_str(&t).ok()).unwrap_or_default();
    let _ = std::fs::remove_dir_all(&scratch);
    let stop = p.stop_on_first_failure;
    let ctx = format!("portfolio of {:?}, stop_on_first_failure={}, body: {} threads x {} load+store increments", p.members, stop, p.threads, p.incs);
    if co.abnormal.is_some() || !rep.done {
        out.violation(
            format!("C12:portfolio-child-abort:stop={}", stop),
            format!("{}: child {}; {} of {} alone runs done; stderr tail {:?}", ctx, co.abnormal.clone().unwrap_or_else(|| "wrote no complete report".into()), rep.alone.len(), p.members.len(), tail(&co.stderr, 600)),
            case,
        );
        return;
    }
    out.evals += p.members.len() as u64 + 1;
    out.count(&format!("portfolio_members_{}", p.members.len()), 1);
    out.count(if stop { "portfolio_stop_true" } else { "portfolio_stop_false" }, 1);
    for m in &p.members {
        out.count(&format!("portfolio_member_{}", m.name()), 1);
    }
    let failing: Vec<&String> = rep.alone.iter().flatten().collect();
    for f in &failing {
        if !f.starts_with(&format!("race-{}-lost-", p.nonce)) {
            out.violation("C12:portfolio-member-alone-unexpected-payload", format!("{}: a member alone failed with {:?}", ctx, f), case.clone());
        }
    }
    let expected_fail = !failing.is_empty();
    out.count(if expected_fail { "portfolio_expected_fail" } else { "portfolio_expected_pass" }, 1);
    if expected_fail {
        out.distinct.push(hash_debug(p));
        if failing.len() < p.members.len() {
            out.count("portfolio_some_members_fail_some_pass", 1);
        }
    }
    match (&rep.portfolio, expected_fail) {
        (None, true) => out.violation(
            format!("C12:portfolio-passes-though-a-member-fails:stop={}", stop),
            format!("{}: members alone: {:?}; the portfolio run returned normally", ctx, rep.alone),
            case.clone(),
        ),
        (Some(pl), false) => out.violation(
            format!("C12:portfolio-fails-though-no-member-fails:stop={}", stop),
            format!("{}: every member alone passes; the portfolio run failed with {:?}", ctx, pl),
            case.clone(),
        ),
        (Some(pl), true) => {
            if failing.iter().any(|f| *f == pl) {
                out.count("portfolio_failure_payload_is_a_members", 1);
            } else if !stop && pl.starts_with(PORTFOLIO_INTERNAL_ASSERT) {
                // observed on the current tree: with stop_on_first_failure=false the stop signal is never
                // set, so the internal `assert!(stop_signal == panic.is_some())` fires and masks the
                // member's payload. The verdict ("the run fails") is what the property speaks about.
                out.count("portfolio_nostop_failure_payload_is_internal_assert", 1);
            } else {
                out.violation(
                    format!("C12:portfolio-payload-not-a-members:stop={}", stop),
                    format!("{}: members alone: {:?}; the portfolio run failed with {:?}", ctx, rep.alone, pl),
                    case.clone(),
                );
            }
        }
        (None, false) => {}
    }
    if out.sample.is_none() {
        out.sample = Some(json!({"portfolio": p, "alone": rep.alone, "portfolio_payload": rep.portfolio}));
    }
}

fn run(batch: &str, idx: u64, seed: u64, tier: Tier) -> RunOut {
    let mut rng = Rng::new(seed);
    let mut out = RunOut::default();
    match batch {
        "histories" => {
            let h = gen_history(&mut rng, idx, tier);
            check_history(&h, &mut out);
        }
        "portfolio" => {
            let p = gen_portfolio(&mut rng, idx);
            check_portfolio(&p, seed, &mut out);
        }
        _ => {}
    }
    out
}

fn replay(case: &Value) -> RunOut {
    let mut out = RunOut::default();
    if let Some(h) = case.get("history").and_then(|h| serde_json::from_value::<History>(h.clone()).ok()) {
        check_history(&h, &mut out);
    } else if let Some(p) = case.get("portfolio").and_then(|p| serde_json::from_value::<PortfolioSpec>(p.clone()).ok()) {
        check_portfolio(&p, p.nonce, &mut out);
    }
    out
}
