//! C09 — DFS visits every schedule exactly once and then stops.
//!
//! Oracle: an independent prefix enumerator (`schedutil::enumerate`: a scheduler that keeps a
//! work-list of choice prefixes, follows a prefix, then always takes the first offered task and
//! pushes one new prefix per untaken sibling; cross-checked on small trees against
//! `schedutil::enumerate_follow`, which replays every prefix in its own run through
//! `sim::FollowSched`). Neither looks at `dfs.rs`. The enumerator produces the exact set of
//! maximal schedules of a generated tree-shaped body. `DfsScheduler` is run on the same body
//! (inside a recorder and an execution cap) and its executions are compared with that set for
//! iteration bounds None / < leaves / = leaves / > leaves and for `MaxSteps::ContinueAfter(n)`.
//!
//! ContinueAfter(n): the runtime stops an execution at the first scheduling point at which the
//! recorded schedule (answered decisions + draws) has >= n entries (execution.rs `schedule`:
//! `CurrentSchedule::len() - steps_reset_at >= max_steps`), so the expected executions are the
//! distinct truncations of the full leaves by `schedutil::truncate_items`; the rule is confirmed
//! per run by enumerating directly under ContinueAfter(n) (`truncation_rule_cross_checked`).
//! Shapes that take a Mutex are not run under ContinueAfter: abandoning an execution while a
//! guard is held aborts the process in builds with debug assertions (finding F7, owned by C13).

use super::schedutil::*;
use crate::coord::{Batch, Check, RunOut, Tier};
use crate::sim::{self, contract_findings, hash_debug, run_recorded, Ending, Rng};
use serde::{Deserialize, Serialize};
use serde_json::{json, Value};
use shuttle::scheduler::DfsScheduler;
use std::collections::{BTreeMap, BTreeSet};
use std::sync::atomic::Ordering;

#[derive(Clone, Debug, Serialize, Deserialize, PartialEq)]
pub struct Scenario {
    pub bound: Option<usize>,
    pub continue_after: Option<usize>,
}

#[derive(Clone, Debug, Serialize, Deserialize)]
pub struct Case {
    pub shape: Shape,
    pub scenario: Scenario,
    pub cap: usize,
}

pub fn check() -> Check {
    Check {
        id: "C09",
        level: "exploration",
        rule: "each run draws a tree-shaped body from the seed (k threads with unequal step counts, spawn trees, mutex/join blocking that prunes subtrees, atomics-dependent extra steps so that later siblings have more children than earlier ones, optional shuttle::rand draws incl. draw-dependent branching, and in batch `burst` 65-200 draws in a row so that the data stream is long), enumerates its maximal schedules with the independent prefix enumerator, and runs DfsScheduler with iteration bound None, < leaves, = leaves, > leaves and with ContinueAfter(n) (every n up to depth+1 for small trees, sampled n otherwise, optionally combined with a bound). Required: no duplicate, no omission, no unknown schedule, exactly min(bound, leaves) executions, DFS stops by itself, identical data stream in every execution. Distinct = (shape, scenario) hash; non-trivial = tree with at least 2 leaves",
        assumptions: &[
            "the enumerator and DfsScheduler observe the same runtime (same Config), so the oracle is relative to the choice tree the runtime offers, not to an abstract semantics of the body",
            "the enumerator's data stream is seeded with the seed DfsScheduler reports for its first execution, so draw-dependent branching is identical on both sides",
            "ContinueAfter(n) truncation rule (schedutil::truncate_items) is derived from the runtime and cross-checked per run by enumerating directly under ContinueAfter(n)",
        ],
        real_components: "real: DfsScheduler, shuttle-engine runtime (scheduling points, step bound), shuttle-std Mutex/atomics/thread, shuttle::rand; oracle: schedutil::enumerate (EnumSched) cross-checked with schedutil::enumerate_follow (sim::FollowSched per prefix)",
        batches,
        run,
        replay,
        probes: &[
            "trees",
            "tree_with_2+_leaves",
            "last_sibling_has_more_children",
            "shape_with_blocking",
            "shape_with_spawn_tree",
            "shape_with_draws",
            "bound_none",
            "bound_below",
            "bound_equal",
            "bound_above",
            "continue_after_cut",
            "continue_after_with_bound",
            "truncation_rule_cross_checked",
            "data_stream_compared",
            "full_recorder_runs",
            "enumerators_cross_checked",
        ],
    }
}

fn batches(t: Tier) -> Vec<Batch> {
    vec![
        Batch::new("unequal", t.pick(60, 1000), 4),
        Batch::new("spawntree", t.pick(60, 1000), 4),
        Batch::new("blocking", t.pick(60, 1000), 4),
        Batch::new("dependent", t.pick(80, 1300), 4),
        Batch::new("rand", t.pick(80, 1300), 4),
        Batch::new("mixed", t.pick(80, 1300), 4),
        Batch::new("burst", t.pick(24, 400), 4),
        Batch::new("large", t.pick(10, 48), 1),
    ]
}

/// trees up to this many leaves are run through the full sim::Recorder, larger ones through a Tap
const FULL_LIMIT: usize = 1000;

fn max_leaves(batch: &str, t: Tier) -> usize {
    if batch == "large" {
        t.pick(2000, 50000) as usize
    } else {
        t.pick(400, 1500) as usize
    }
}

fn shape_cfg(batch: &str, rng: &mut Rng) -> ShapeCfg {
    let mut c = ShapeCfg { bodies: (2, 4), steps: (0, 3), rand: false, locks: false, joins: false, dependent: false, yields: true, nested_spawn: false };
    match batch {
        "unequal" => {
            c.steps = (0, 4);
        }
        "spawntree" => {
            c.bodies = (3, 5);
            c.steps = (0, 2);
            c.nested_spawn = true;
        }
        "blocking" => {
            c.locks = true;
            c.joins = true;
            c.bodies = (2, 4);
        }
        "dependent" => {
            c.dependent = true;
            c.bodies = (2, 3);
            c.steps = (1, 4);
        }
        "rand" | "burst" => {
            c.rand = true;
            c.steps = (1, 4);
            c.dependent = rng.chance(1, 2);
        }
        "large" => {
            c.bodies = (3, 5);
            c.steps = (2, 5);
            c.locks = rng.chance(1, 2);
            c.joins = rng.chance(1, 2);
            c.dependent = rng.chance(1, 2);
            c.rand = rng.chance(1, 3);
            c.nested_spawn = rng.chance(1, 2);
        }
        _ => {
            c.bodies = (2, 5);
            c.locks = rng.chance(1, 2);
            c.joins = rng.chance(1, 2);
            c.dependent = rng.chance(1, 2);
            c.rand = rng.chance(1, 2);
            c.nested_spawn = rng.chance(1, 2);
        }
    }
    c
}

fn config_of(sc: &Scenario) -> shuttle::Config {
    let mut c = default_config();
    if let Some(n) = sc.continue_after {
        c.max_steps = shuttle::MaxSteps::ContinueAfter(n);
    }
    c
}

/// The data seed DfsScheduler hands to its executions (read from the Schedule of execution 1).
fn dfs_seed(body: &Body) -> Result<u64, String> {
    // unbounded DFS, stopped by the harness after its first execution (the iteration bound is under test)
    let (sched, _over) = CapSched::new(DfsScheduler::new(None, true), 1);
    let (ending, execs) = run_tapped(sched, default_config(), body.clone(), false);
    match (ending, execs.first()) {
        (Ending::Returned(_), Some(e)) => Ok(e.seed),
        (e, _) => Err(format!("DFS probe run did not complete: {:?}", e)),
    }
}

struct DfsRun {
    ending: Ending,
    items: Vec<Vec<i32>>,
    draws: Vec<Vec<u64>>,
    seeds: Vec<u64>,
    events: Vec<Option<u64>>,
    contract: Vec<String>,
    over: bool,
    decisions: u64,
}

fn run_dfs(body: &Body, sc: &Scenario, cap: usize, full: bool) -> DfsRun {
    let (sched, over) = CapSched::new(DfsScheduler::new(sc.bound, true), cap);
    if full {
        let b = body.clone();
        let (ending, rt) = run_recorded(sched, config_of(sc), move || b());
        let contract = contract_findings(&rt);
        let mut r = DfsRun { ending, items: vec![], draws: vec![], seeds: vec![], events: vec![], contract, over: over.load(Ordering::SeqCst), decisions: 0 };
        for ex in &rt.execs {
            let it: Vec<i32> = ex.reconstruct().iter().map(|x| *x as i32).collect();
            r.decisions += ex.decisions().count() as u64;
            r.items.push(it);
            r.draws.push(ex.draws());
            r.seeds.push(ex.seed);
            r.events.push(Some(hash_debug(&ex.events.iter().map(|e| (e.task, &e.kind, &e.op, &e.val)).collect::<Vec<_>>())));
        }
        r
    } else {
        let (ending, execs) = run_tapped(sched, config_of(sc), body.clone(), false);
        let mut r = DfsRun { ending, items: vec![], draws: vec![], seeds: vec![], events: vec![], contract: vec![], over: over.load(Ordering::SeqCst), decisions: 0 };
        for ex in execs {
            r.decisions += ex.steps.iter().filter(|x| **x >= 0).count() as u64;
            r.seeds.push(ex.seed);
            r.draws.push(ex.draws);
            r.items.push(ex.steps);
            r.events.push(None);
        }
        r
    }
}

fn fmt_items(v: &[i32]) -> String {
    v.iter().map(|x| if *x < 0 { "r".to_string() } else { x.to_string() }).collect::<Vec<_>>().join(" ")
}

/// Compare one DFS run with the enumerated tree.
fn check_scenario(shape: &Shape, body: &Body, leaves: &[Leaf], seed: u64, sc: &Scenario, out: &mut RunOut) {
    let pre = if sc.continue_after.is_some() { "C09:continue-after:" } else { "C09:" };
    let case = || json!({"c09": Case { shape: shape.clone(), scenario: sc.clone(), cap: leaves.len() + 1 }});
    // expected set: items → events hash (only meaningful without truncation)
    let mut expected: BTreeMap<Vec<i32>, Option<u64>> = BTreeMap::new();
    match sc.continue_after {
        None => {
            for l in leaves {
                expected.insert(l.items.clone(), l.events_hash);
            }
        }
        Some(n) => {
            for l in leaves {
                let t = truncate_items(&l.items, n);
                let whole = t.len() == l.items.len();
                expected.entry(t).or_insert(if whole { l.events_hash } else { None });
            }
            if leaves.iter().any(|l| truncate_items(&l.items, n).len() < l.items.len()) {
                out.count("continue_after_cut", 1);
            }
            // justify the truncation rule on the current tree: enumerate directly under ContinueAfter(n)
            if leaves.len() <= 400 {
                let e2 = enumerate(seed, &config_of(&Scenario { bound: None, continue_after: Some(n) }), body, leaves.len() + 2, false);
                out.evals += e2.executions;
                out.decisions += e2.decisions;
                if let Some(f) = &e2.failure {
                    out.violation("C09:harness:enumerator-failed-under-continue-after", f.clone(), case());
                    return;
                }
                let direct: BTreeSet<Vec<i32>> = e2.leaves.iter().map(|l| l.items.clone()).collect();
                let derived: BTreeSet<Vec<i32>> = expected.keys().cloned().collect();
                if direct != derived || direct.len() != e2.leaves.len() {
                    let a = direct.difference(&derived).next().cloned();
                    let b = derived.difference(&direct).next().cloned();
                    out.violation(
                        "C09:harness:truncation-rule-disagrees-with-runtime",
                        format!("ContinueAfter({}): enumerating under the bound gives {} schedules, truncating the {} full leaves gives {}; only-direct {:?}, only-derived {:?}", n, direct.len(), leaves.len(), derived.len(), a, b),
                        case(),
                    );
                    return;
                }
                out.count("truncation_rule_cross_checked", 1);
            }
        }
    }
    let total = expected.len();
    let want = sc.bound.map(|b| b.min(total)).unwrap_or(total);
    let full = total <= FULL_LIMIT;
    if full {
        out.count("full_recorder_runs", 1);
    }
    let r = run_dfs(body, sc, total + 3, full);
    out.evals += r.items.len() as u64;
    out.decisions += r.decisions;
    match sc.bound {
        None => out.count("bound_none", 1),
        Some(b) if b < total => out.count("bound_below", 1),
        Some(b) if b == total => out.count("bound_equal", 1),
        Some(_) => out.count("bound_above", 1),
    }
    if sc.bound.is_some() && sc.continue_after.is_some() {
        out.count("continue_after_with_bound", 1);
    }
    if total >= 2 {
        out.distinct.push(hash_debug(&(shape, sc)));
    }
    match &r.ending {
        Ending::Panicked(m) => {
            out.violation(format!("{}dfs-panicked", pre), format!("{:?}: DFS run panicked after {} executions: {}", sc, r.items.len(), m), case());
            return;
        }
        Ending::Returned(n) => {
            if *n != r.items.len() {
                out.violation(format!("{}runner-iteration-count", pre), format!("{:?}: Runner::run returned {} but {} executions were started", sc, n, r.items.len()), case());
            }
        }
    }
    if r.over {
        out.violation(
            format!("{}dfs-does-not-stop", pre),
            format!("{:?}: the tree has {} schedules but DFS asked for more than {} executions", sc, total, total + 3),
            case(),
        );
    }
    for c in &r.contract {
        out.violation(format!("{}contract", pre), c.clone(), case());
        break;
    }
    // duplicates / unknown
    let mut seen: BTreeMap<&Vec<i32>, usize> = BTreeMap::new();
    let mut dup: Option<(usize, usize)> = None;
    let mut unknown: Option<usize> = None;
    for (i, it) in r.items.iter().enumerate() {
        if let Some(j) = seen.get(it) {
            if dup.is_none() {
                dup = Some((*j, i));
            }
        } else {
            seen.insert(it, i);
        }
        match expected.get(it) {
            None => {
                if unknown.is_none() {
                    unknown = Some(i);
                }
            }
            Some(Some(h)) => {
                if let Some(Some(eh)) = r.events.get(i) {
                    if eh != h {
                        out.violation(
                            format!("{}same-schedule-different-events", pre),
                            format!("{:?}: DFS execution {} ({}) has a different event log than the enumerator's execution of the same schedule", sc, i, fmt_items(it)),
                            case(),
                        );
                    }
                }
            }
            Some(None) => {}
        }
    }
    if let Some((j, i)) = dup {
        out.violation(
            format!("{}dfs-duplicate-schedule", pre),
            format!("{:?}: DFS executions {} and {} are the same schedule [{}] ({} executions, {} schedules in the tree)", sc, j, i, fmt_items(&r.items[i]), r.items.len(), total),
            case(),
        );
    }
    if let Some(i) = unknown {
        out.violation(
            format!("{}dfs-unknown-schedule", pre),
            format!("{:?}: DFS execution {} [{}] is not a schedule of the enumerated tree ({} schedules)", sc, i, fmt_items(&r.items[i]), total),
            case(),
        );
    }
    if r.items.len() != want && !r.over {
        out.violation(
            format!("{}dfs-execution-count", pre),
            format!("{:?}: DFS performed {} executions, expected min(bound, schedules) = {} (tree has {})", sc, r.items.len(), want, total),
            case(),
        );
    }
    if sc.bound.map(|b| b >= total).unwrap_or(true) {
        if let Some(miss) = expected.keys().find(|k| !seen.contains_key(k)) {
            let nmiss = expected.keys().filter(|k| !seen.contains_key(k)).count();
            out.violation(
                format!("{}dfs-missed-schedule", pre),
                format!("{:?}: {} of {} schedules were never executed by DFS, e.g. [{}]", sc, nmiss, total, fmt_items(miss)),
                case(),
            );
        }
    }
    // data stream: the k-th draw has the same value in every execution (and every execution has the same seed)
    let mut stream: Vec<u64> = vec![];
    let mut compared = 0u64;
    'outer: for (i, d) in r.draws.iter().enumerate() {
        for (k, v) in d.iter().enumerate() {
            if k < stream.len() {
                compared += 1;
                if stream[k] != *v {
                    out.violation(
                        format!("{}dfs-data-stream-differs", pre),
                        format!("{:?}: draw {} of DFS execution {} is {} but an earlier execution drew {}", sc, k, i, v, stream[k]),
                        case(),
                    );
                    break 'outer;
                }
            } else {
                stream.push(*v);
            }
        }
    }
    if compared > 0 {
        out.count("data_stream_compared", 1);
    }
    if r.seeds.windows(2).any(|w| w[0] != w[1]) {
        out.violation(format!("{}dfs-seed-differs", pre), format!("{:?}: DFS executions report different data seeds {:?}", sc, &r.seeds[..r.seeds.len().min(6)]), case());
    }
}

fn last_sibling_has_more_children(leaves: &[Leaf]) -> bool {
    if leaves.len() > 3000 {
        return false;
    }
    // prefix → number of children
    let mut kids: BTreeMap<Vec<u32>, u8> = BTreeMap::new();
    for l in leaves {
        let c = l.chosen();
        for j in 0..c.len() {
            kids.entry(c[..j].to_vec()).or_insert(l.lens[j]);
        }
    }
    // children ids of a node
    let mut children: BTreeMap<Vec<u32>, BTreeSet<u32>> = BTreeMap::new();
    for k in kids.keys() {
        if let Some((last, pre)) = k.split_last() {
            children.entry(pre.to_vec()).or_default().insert(*last);
        }
    }
    for (p, ch) in &children {
        if ch.len() >= 2 {
            let first = *ch.iter().next().unwrap();
            let last = *ch.iter().next_back().unwrap();
            let mut a = p.clone();
            a.push(first);
            let mut b = p.clone();
            b.push(last);
            if let (Some(x), Some(y)) = (kids.get(&a), kids.get(&b)) {
                if y > x {
                    return true;
                }
            }
        }
    }
    false
}

fn scenarios(rng: &mut Rng, leaves: &[Leaf], batch: &str) -> Vec<Scenario> {
    let total = leaves.len();
    let mut v = vec![Scenario { bound: None, continue_after: None }];
    if total >= 2 {
        v.push(Scenario { bound: Some(rng.range(1, total - 1)), continue_after: None });
    }
    v.push(Scenario { bound: Some(total), continue_after: None });
    v.push(Scenario { bound: Some(total + rng.range(1, 3)), continue_after: None });
    if rng.chance(1, 8) {
        v.push(Scenario { bound: Some(0), continue_after: None });
    }
    let maxlen = leaves.iter().map(|l| l.items.len()).max().unwrap_or(0);
    if batch != "large" && batch != "burst" && total <= 120 {
        for n in 0..=maxlen + 1 {
            v.push(Scenario { bound: None, continue_after: Some(n) });
        }
    } else {
        for _ in 0..2 {
            v.push(Scenario { bound: None, continue_after: Some(rng.range(1, maxlen + 1)) });
        }
    }
    // a bound combined with a cut
    let n = rng.range(1, maxlen.max(1));
    let cut: BTreeSet<Vec<i32>> = leaves.iter().map(|l| truncate_items(&l.items, n)).collect();
    let b = match rng.below(3) {
        0 => rng.range(1, cut.len()),
        1 => cut.len(),
        _ => cut.len() + 1,
    };
    v.push(Scenario { bound: Some(b), continue_after: Some(n) });
    v
}

fn run(batch: &str, _idx: u64, seed: u64, tier: Tier) -> RunOut {
    let mut rng = Rng::new(seed);
    let mut out = RunOut::default();
    let cfg = shape_cfg(batch, &mut rng);
    let mut shape = gen_shape(&mut rng, &cfg);
    if batch == "burst" {
        // a long data stream: 65..=200 draws in a row at the start of one body, so that every
        // execution draws far more values than the few a tree-shaped body needs
        let b = rng.below(shape.bodies.len());
        let n = match rng.below(3) {
            0 => 65 + rng.below(8),
            1 => 120 + rng.below(16),
            _ => 65 + rng.below(136),
        };
        shape.bodies[b].insert(0, Step::RandBurst(n));
    }
    let cap = max_leaves(batch, tier);
    // enumerate; shrink the shape until the tree fits under the cap
    let (body, dseed, en) = loop {
        let body = shape_body(&shape);
        let dseed = match dfs_seed(&body) {
            Ok(s) => s,
            Err(e) => {
                out.violation("C09:dfs-probe-failed", e, json!({"c09": Case { shape: shape.clone(), scenario: Scenario { bound: Some(1), continue_after: None }, cap }}));
                return out;
            }
        };
        out.evals += 1;
        let en = enumerate(dseed, &default_config(), &body, cap + 1, false);
        out.evals += en.executions;
        out.decisions += en.decisions;
        if let Some(f) = &en.failure {
            out.violation("C09:harness:enumerator-failed", f.clone(), json!({"c09": Case { shape: shape.clone(), scenario: Scenario { bound: None, continue_after: None }, cap }}));
            return out;
        }
        if en.complete && en.leaves.len() <= cap {
            if en.leaves.len() <= FULL_LIMIT {
                // small tree: enumerate again through the full recorder (event logs per leaf)
                let en2 = enumerate(dseed, &default_config(), &body, cap + 1, true);
                out.evals += en2.executions;
                let a: Vec<&Vec<i32>> = en.leaves.iter().map(|l| &l.items).collect();
                let b: Vec<&Vec<i32>> = en2.leaves.iter().map(|l| &l.items).collect();
                if en2.failure.is_some() || a != b {
                    out.violation("C09:harness:enumerator-not-deterministic", format!("two enumerations differ ({} vs {} leaves, failure {:?})", a.len(), b.len(), en2.failure), Value::Null);
                    return out;
                }
                break (body, dseed, en2);
            }
            break (body, dseed, en);
        }
        out.count("shape_shrunk_to_fit", 1);
        // remove several steps at once for very large trees
        if !shrink_shape(&mut shape) {
            out.violation("C09:harness:cannot-shrink", "shape cannot be shrunk under the leaf cap", Value::Null);
            return out;
        }
    };
    let leaves = &en.leaves;
    out.count("trees", 1);
    out.count("leaves_total", leaves.len() as u64);
    if leaves.len() >= 2 {
        out.count("tree_with_2+_leaves", 1);
    }
    if leaves.len() >= 1000 {
        out.count("tree_with_1000+_leaves", 1);
    }
    if last_sibling_has_more_children(leaves) {
        out.count("last_sibling_has_more_children", 1);
    }
    let blocking = shape.bodies.iter().any(|b| b.iter().any(|s| matches!(s, Step::Lock(..) | Step::Join(_))));
    if blocking {
        out.count("shape_with_blocking", 1);
    }
    if shape.bodies.iter().skip(1).any(|b| b.iter().any(|s| matches!(s, Step::Spawn(_)))) {
        out.count("shape_with_spawn_tree", 1);
    }
    if leaves.iter().any(|l| !l.draws.is_empty()) {
        out.count("shape_with_draws", 1);
    }
    // the enumerator's own leaves must be pairwise distinct (self-check of the oracle)
    let uniq: BTreeSet<&Vec<i32>> = leaves.iter().map(|l| &l.items).collect();
    if uniq.len() != leaves.len() {
        out.violation("C09:harness:enumerator-duplicate", format!("enumerator produced {} leaves, {} distinct", leaves.len(), uniq.len()), Value::Null);
        return out;
    }
    // cross-check the one-Runner enumerator against the per-prefix FollowSched enumerator
    if leaves.len() <= 80 {
        let ef = enumerate_follow(dseed, &default_config(), &body, leaves.len() + 2, false);
        out.evals += ef.executions;
        let a: BTreeSet<&Vec<i32>> = ef.leaves.iter().map(|l| &l.items).collect();
        if ef.failure.is_some() || a != uniq || ef.leaves.len() != leaves.len() {
            out.violation(
                "C09:harness:enumerators-disagree",
                format!("FollowSched enumerator: {} leaves (failure {:?}), EnumSched enumerator: {} leaves", ef.leaves.len(), ef.failure, leaves.len()),
                json!({"c09": Case { shape: shape.clone(), scenario: Scenario { bound: None, continue_after: None }, cap }}),
            );
            return out;
        }
        out.count("enumerators_cross_checked", 1);
    }
    let has_lock = shape.bodies.iter().any(|b| b.iter().any(|s| matches!(s, Step::Lock(..))));
    for sc in scenarios(&mut rng, leaves, batch) {
        if sc.continue_after.is_some() && has_lock {
            // abandoning an execution while a MutexGuard is held used to abort the process (defect F7,
            // repaired by a fix: commit); the scenario stays in as a regression
            out.count("continue_after_with_guard_possibly_held", 1);
        }
        check_scenario(&shape, &body, leaves, dseed, &sc, &mut out);
    }
    if out.sample.is_none() && leaves.len() >= 4 {
        out.sample = Some(json!({"shape": shape, "schedules": leaves.len(), "max_depth": leaves.iter().map(|l| l.items.len()).max(), "first_leaf": fmt_items(&leaves[0].items), "last_leaf": fmt_items(&leaves[leaves.len() - 1].items)}));
    }
    out
}

fn replay(case: &Value) -> RunOut {
    let mut out = RunOut::default();
    let c: Case = match case.get("c09").and_then(|c| serde_json::from_value(c.clone()).ok()) {
        Some(c) => c,
        None => return out,
    };
    let body = shape_body(&c.shape);
    let dseed = match dfs_seed(&body) {
        Ok(s) => s,
        Err(e) => {
            out.violation("C09:dfs-probe-failed", e, case.clone());
            return out;
        }
    };
    let en = enumerate(dseed, &default_config(), &body, c.cap.max(60000), false);
    if let Some(f) = &en.failure {
        out.violation("C09:harness:enumerator-failed", f.clone(), case.clone());
        return out;
    }
    check_scenario(&c.shape, &body, &en.leaves, dseed, &c.scenario, &mut out);
    let _ = sim::take_log();
    out
}
