#!/usr/bin/env python3
"""Confirm a seeded change produced by an independent sub-agent and run the checks against it.

usage: confirm_seeded.py <scratch_dir> <change_dir> <prop> [<extra check ids>...]

<change_dir> contains patch.diff, demo.rs, README.md (which says where the demo goes and the cargo
command). In <scratch_dir> (created with tools/mkscratch.sh if missing; its repo worktree is reset
to /repo HEAD) this script
  1. places the demo, runs it on the unchanged tree  -> must pass
  2. applies patch.diff, runs the demo               -> must fail
  3. runs `check <prop> quick` (and extra checks) of the scratch /verif copy against the patched tree
  4. reverts everything
and writes /verif/seeded/<name>/{patch.diff, demo.rs, README.agent.md, meta.json}.
"""
import json, os, re, shutil, subprocess, sys, time

scr, cdir, prop = sys.argv[1], sys.argv[2].rstrip('/'), sys.argv[3]
extra = sys.argv[4:]
name = os.path.basename(cdir)
owner = os.path.basename(os.path.dirname(cdir)).replace('.out', '')

def sh(cmd, timeout=3600):
    try:
        r = subprocess.run(cmd, shell=True, capture_output=True, text=True, timeout=timeout)
        return r.returncode, r.stdout + r.stderr
    except subprocess.TimeoutExpired:
        return 124, "TIMEOUT"

if not os.path.exists(scr):
    rc, out = sh(f"/verif/tools/mkscratch.sh {scr}")
    assert rc == 0, out
else:
    sh(f"rsync -a --exclude 'harness/target' --exclude '.git' --exclude 'replays' --exclude 'seeded' /verif/ {scr}/verif/")
    sh(f"sed -i 's#path = \"/repo/#path = \"{scr}/repo/#g' {scr}/verif/harness/Cargo.toml")
repo = f"{scr}/repo"
sh(f"git -C {repo} checkout -q -- . ; git -C {repo} checkout -q --detach $(git -C /repo rev-parse HEAD)")

readme = open(f"{cdir}/README.md").read() if os.path.exists(f"{cdir}/README.md") else ""
m = re.search(r"place(?:d)? (?:it )?(?:at|under|in) `([^`]+)`", readme)
place = m.group(1) if m else None
if place: place = re.sub(r"^/tmp/seed_[A-Za-z0-9]+/", "", place)
cm = re.search(r"(cargo test[^\n`]*--test demo[^\n`]*)", readme)
cmd = cm.group(1).strip() if cm else None
if not place and cmd:
    pk = re.search(r"-p (\S+)", cmd)
    tn = re.search(r"--test (\S+)", cmd)
    if pk and tn:
        place = f"{pk.group(1)}/tests/{tn.group(1)}.rs"
meta = {"id": f"{owner}-{name}", "property": prop, "source": f"independent sub-agent {owner} (given only the property text and its own git worktree)", "demo_place": place, "demo_cmd": cmd}
if not place or not cmd or not os.path.exists(f"{cdir}/patch.diff") or not os.path.exists(f"{cdir}/demo.rs"):
    meta["status"] = "incomplete-delivery"
    print(json.dumps(meta, indent=1)); sys.exit(1)
if "--offline" not in cmd:
    cmd = cmd.replace("cargo test", "cargo test --offline")
dst = os.path.join(repo, place)
os.makedirs(os.path.dirname(dst), exist_ok=True)
shutil.copy(f"{cdir}/demo.rs", dst)
t0 = time.time()
rc0, out0 = sh(f"cd {repo} && CARGO_NET_OFFLINE=true {cmd}")
meta["demo_on_unchanged_tree"] = {"exit": rc0, "tail": out0[-600:]}
rca, outa = sh(f"cd {repo} && git apply {cdir}/patch.diff")
meta["patch_applies"] = rca == 0
if rca != 0:
    meta["status"] = "patch-does-not-apply"; meta["apply_output"] = outa[-400:]
else:
    rc1, out1 = sh(f"cd {repo} && CARGO_NET_OFFLINE=true {cmd}")
    meta["demo_with_change"] = {"exit": rc1, "tail": out1[-800:]}
    meta["confirmed"] = (rc0 == 0 and rc1 != 0)
    checks = {}
    for c in [prop] + extra:
        rc, out = sh(f"cd {scr}/verif && VERIF_WALL_CAP=300 ./check {c} quick", timeout=3000)
        keys = sorted(set(re.findall(r"^violation: (\S+)", out, re.M)))
        first = re.findall(r"^violation: .*", out, re.M)[:2]
        checks[c] = {"exit": rc, "keys": keys[:8], "first": [f[:400] for f in first]}
    meta["checks_against_change"] = checks
    meta["detected_by"] = [c for c, v in checks.items() if v["exit"] == 1]
    meta["status"] = "ok"
meta["wall_s"] = round(time.time() - t0)
sh(f"cd {repo} && git checkout -q -- . && rm -f {dst}")
out_dir = f"/verif/seeded/{owner}-{name}"
os.makedirs(out_dir, exist_ok=True)
shutil.copy(f"{cdir}/patch.diff", out_dir)
shutil.copy(f"{cdir}/demo.rs", out_dir)
if readme:
    open(f"{out_dir}/README.agent.md", "w").write(readme)
json.dump(meta, open(f"{out_dir}/meta.json", "w"), indent=1)
print(json.dumps({k: meta[k] for k in meta if k not in ("demo_on_unchanged_tree", "demo_with_change")}, indent=1)[:3000])
