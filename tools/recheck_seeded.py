#!/usr/bin/env python3
"""Re-run the quick checks against already confirmed seeded changes (regression test of the checks).

usage: recheck_seeded.py <scratch_dir> [<seeded id> ...]      (default: every directory in /verif/seeded)

For each /verif/seeded/<id>/ with meta.json (confirmed earlier by tools/confirm_seeded.py): reset the
scratch worktree to /repo HEAD, apply patch.diff, run `check <c> quick` of the scratch /verif copy for
the property and every check listed in meta.json, revert, and update meta.json
(checks_against_change, detected_by, rechecked_with = /verif commit). The demonstration itself is not
re-run (it was confirmed when the change was taken in).
"""
import json, os, re, subprocess, sys, time

scr = sys.argv[1]
ids = sys.argv[2:] or sorted(d for d in os.listdir("/verif/seeded") if os.path.isdir(f"/verif/seeded/{d}"))


def sh(cmd, timeout=3600):
    try:
        r = subprocess.run(cmd, shell=True, capture_output=True, text=True, timeout=timeout)
        return r.returncode, r.stdout + r.stderr
    except subprocess.TimeoutExpired:
        return 124, "TIMEOUT"


if not os.path.exists(scr):
    rc, out = sh(f"/verif/tools/mkscratch.sh {scr}")
    assert rc == 0, out
else:
    sh(f"rsync -a --exclude 'harness/target' --exclude '.git' --exclude 'replays' --exclude 'seeded' /verif/ {scr}/verif/")
    sh(f"sed -i 's#path = \"/repo/#path = \"{scr}/repo/#g' {scr}/verif/harness/Cargo.toml")
repo = f"{scr}/repo"
head = sh("git -C /repo rev-parse HEAD")[1].strip()
vcommit = sh("git -C /verif rev-parse --short HEAD")[1].strip()
for sid in ids:
    d = f"/verif/seeded/{sid}"
    mp = f"{d}/meta.json"
    if not os.path.exists(mp):
        continue
    meta = json.load(open(mp))
    sh(f"git -C {repo} checkout -q -- . ; git -C {repo} checkout -q --detach {head}")
    rc, out = sh(f"cd {repo} && git apply {d}/patch.diff")
    if rc != 0:
        print(sid, "patch does not apply:", out[-200:], flush=True)
        continue
    checks = list(dict.fromkeys([meta["property"]] + list(meta.get("checks_against_change", {}).keys())))
    res = {}
    t0 = time.time()
    for c in checks:
        rc, out = sh(f"cd {scr}/verif && VERIF_WALL_CAP={os.environ.get('RECHECK_CAP', '300')} ./check {c} quick", timeout=3000)
        keys = sorted(set(re.findall(r"^violation: (\S+)", out, re.M)))
        first = re.findall(r"^violation: .*", out, re.M)[:2]
        res[c] = {"exit": rc, "keys": keys[:8], "first": [f[:400] for f in first]}
    sh(f"cd {repo} && git checkout -q -- .")
    meta["checks_against_change"] = res
    meta["detected_by"] = [c for c, v in res.items() if v["exit"] == 1]
    meta["rechecked_with"] = vcommit
    json.dump(meta, open(mp, "w"), indent=1)
    print(sid, "detected by", meta["detected_by"], f"({round(time.time() - t0)} s)", flush=True)
