#!/bin/bash
# mkscratch.sh <dir> : create <dir>/repo (a git worktree of /repo HEAD) and <dir>/verif (a copy of
# /verif without build output) whose harness path-depends on <dir>/repo. Used for sensitivity runs
# (apply a property-breaking patch to <dir>/repo, run <dir>/verif/check ...) and by helpers.
# Remove with: rmscratch.sh <dir>
set -eu
D="$(realpath -m "$1")"
mkdir -p "$D"
git -C /repo worktree add --detach "$D/repo" HEAD >/dev/null 2>&1
mkdir -p "$D/verif"
rsync -a --exclude 'harness/target' --exclude '.git' --exclude 'replays' --exclude 'seeded' /verif/ "$D/verif/"
sed -i "s#path = \"/repo/#path = \"$D/repo/#g" "$D/verif/harness/Cargo.toml"
echo "$D"
